#!/bin/bash
# Build the whole Coq development from the files on disk (offline) against /repo's current tree.
set -e
cd "$(dirname "$0")"
export PYTHONHASHSEED=0 PYTHONDONTWRITEBYTECODE=1
export VERIF_REPO="${VERIF_REPO:-/repo}"
export PYTHONPATH="$VERIF_REPO"
/venv/bin/python -B -W ignore harness/setup.py
