"""C16 -- dataclass value semantics: equality, order, hash, frozen, copy."""
import copy
import dataclasses
import itertools
import random
import types as pytypes
import warnings

import terms
from common import run_shards

PROP = 'C16'
import convprop

COQ_TARGETS = ['Props/C16.vo', 'Run/AgreeSem.vo', 'Run/AgreeInst.vo']
GEN = ['GenHash'] + convprop.MODEL_TABLES


def make(opts, flags, explicit_hash=False, base=None):
    """a class with len(flags) int fields f0.., flags[i] = (compare, hash, repr)"""
    import pane
    ann, ns = {}, {}
    for i, (cmp_, hash_, repr_) in enumerate(flags):
        ann[f'f{i}'] = int
        ns[f'f{i}'] = pane.field(default=0, compare=cmp_, hash=hash_, repr=repr_)
    ns['__annotations__'] = ann
    if explicit_hash:
        ns['__hash__'] = lambda self: 12345
    cls = pytypes.new_class(terms.fresh_name('V'), (base or pane.PaneBase,), dict(opts), lambda d: d.update(ns))
    terms.KEEP.append(cls)
    return cls


def stdlib_rule(u, e, f, h):
    if u:
        return 'raise' if h else 'add'
    if h:
        return 'leave'
    if e:
        return 'add' if f else 'none'
    return 'leave'


def observe_cmp(a, b):
    def t(f):
        try:
            return f()
        except TypeError:
            return None
    return (a == b, t(lambda: a < b), t(lambda: a <= b), t(lambda: a > b), t(lambda: a >= b))


def cb(x):
    return 'true' if x else 'false'


def cob(x):
    return 'None' if x is None else f'(Some {cb(x)})'


def run(ctx, out):
    import pane
    rng = random.Random(ctx['seed'])
    thorough = ctx['tier'] == 'thorough'
    out.rule = ('EXHAUSTIVE option cube (eq, order, frozen, unsafe_hash, explicit __hash__ = 32 cells) x per-field (compare, hash, repr) '
                'flags over 2-field classes; for each class: the hash rule outcome vs the standard-library table, random instance pairs '
                '(equal, differing in a compare field, differing only in a non-compare field): ==, <, <=, >, >= compared with the Coq '
                'model inside coqc, trichotomy, hash(a)==hash(b) for equal instances, frozen assignment / deletion, copy, deepcopy, '
                '__replace__ (equality, set-record, re-validation), repr. Non-trivial = a pair that differs in some field.')
    out.exhaustive = True
    items = []
    flag_sets = [((True, True, True), (True, True, True)), ((True, True, True), (False, False, True)), ((False, False, False), (True, True, True)),
                 ((True, False, True), (True, True, False)), ((False, True, True), (True, True, True))]
    n = 0
    for eq, order, frozen, unsafe, explicit in itertools.product((True, False), repeat=5):
        for flags in flag_sets:
            n += 1
            opts = {'eq': eq, 'order': order, 'frozen': frozen, 'unsafe_hash': unsafe}
            want = stdlib_rule(unsafe, eq, frozen, explicit)
            try:
                cls = make(opts, flags, explicit)
                other = make(opts, flags, explicit)
                built = True
            except TypeError as e:
                built = False
                if want != 'raise':
                    out.violation(f'C16:class-creation:{eq},{order},{frozen},{unsafe},{explicit}', f'class creation with {opts}, explicit __hash__={explicit} raised {e}', {'options': opts})
                continue
            if want == 'raise':
                out.violation('C16:hash:explicit-with-unsafe_hash-accepted', f'{opts} with an explicit __hash__ was accepted; the standard library raises', {'options': opts})
                continue
            # ---- hash rule
            a = cls(1, 2)
            try:
                h = hash(a)
                hashable = True
            except TypeError:
                hashable = False
            hash_fields = tuple(v for v, fl in zip((1, 2), flags) if fl[1])
            if want == 'add' and (not hashable or h != hash(hash_fields)):
                out.violation('C16:hash:not-field-hash', f'{opts} explicit={explicit}: expected hash of the hash-fields {hash_fields}, hashable={hashable}', {'options': opts})
            if want == 'none' and hashable:
                out.violation('C16:hash:should-be-unhashable', f'{opts}: eq without frozen must set __hash__ to None', {'options': opts})
            if want == 'leave' and explicit and (not hashable or h != 12345):
                out.violation('C16:hash:explicit-overwritten', f'{opts}: the explicit __hash__ was not kept', {'options': opts})
            if want == 'leave' and not explicit and not hashable:
                out.violation('C16:hash:inherited-removed', f'{opts}: the inherited __hash__ was removed', {'options': opts})
            # ---- instance pairs
            pairs = [((1, 2), (1, 2)), ((1, 2), (1, 3)), ((1, 2), (2, 2)), ((2, 1), (1, 5)), ((0, 0), (0, 0))]
            for _ in range(3 if not thorough else 20):
                pairs.append(((rng.randint(-2, 2), rng.randint(-2, 2)), (rng.randint(-2, 2), rng.randint(-2, 2))))
            for va, vb in pairs:
                for same in (True, False):
                    x, y = cls(*va), (cls if same else other)(*vb)
                    obs = observe_cmp(x, y)
                    out.case(('pair', eq, order, frozen, unsafe, explicit, flags, va, vb, same), nontrivial=va != vb)
                    fa = '[' + '; '.join(f'(({v})%Z, {cb(fl[0])}, {cb(fl[1])})' for v, fl in zip(va, flags)) + ']'
                    fb = '[' + '; '.join(f'(({v})%Z, {cb(fl[0])}, {cb(fl[1])})' for v, fl in zip(vb, flags)) + ']'
                    items.append((f'({cb(eq)}, {cb(order)}, {cb(same)}, {fa}, {fb}, {cb(obs[0])}, {cob(obs[1])}, {cob(obs[2])}, {cob(obs[3])}, {cob(obs[4])})',
                                  (opts, flags, va, vb, same, obs)))
                    if same and eq and order:
                        k = sum(1 for r in (obs[1], obs[0], obs[3]) if r)
                        if k != 1:
                            out.violation('C16:trichotomy', f'{opts} flags={flags}: {x!r} vs {y!r}: <, ==, > = {obs[1]}, {obs[0]}, {obs[3]}', {'options': opts})
                        if obs[2] != (obs[1] or obs[0]) or obs[4] != (obs[3] or obs[0]):
                            out.violation('C16:le-ge-not-derived', f'{opts}: <= / >= inconsistent with <, ==, > for {x!r}, {y!r}: {obs}', {'options': opts})
                    if same and order and not eq and obs[2] and not obs[0] and not obs[1]:
                        out.violation('C16:order-without-eq', f'{opts}: {x!r} <= {y!r} is True but neither < nor == holds (eq=False with order=True; '
                                      'the standard library refuses this combination)', {'options': opts})
                    if same and eq and obs[0] and want == 'add':
                        hs_subset = all(fl[0] or not fl[1] for fl in flags)
                        if hash(x) != hash(y):
                            sig = 'C16:equal-but-hash-differs' + ('' if hs_subset else ':hash-field-not-compared')
                            out.violation(sig, f'{opts} flags={flags}: {x!r} == {y!r} but their hashes differ', {'options': opts, 'flags': flags})
            # ---- frozen
            x = cls(1, 2)
            try:
                x.f0 = 5
                assigned = True
            except dataclasses.FrozenInstanceError:
                assigned = False
            except Exception as e:
                assigned = None
                out.violation('C16:frozen:wrong-exception', f'{opts}: assignment raised {type(e).__name__}', {'options': opts})
            if assigned is not None and assigned == frozen:
                out.violation('C16:frozen', f'{opts}: attribute assignment {"succeeded" if assigned else "was refused"} with frozen={frozen}', {'options': opts})
            try:
                del x.f1
                out.violation('C16:delete-accepted', f'{opts}: attribute deletion succeeded', {'options': opts})
            except AttributeError:
                pass
            # ---- copy / deepcopy / replace / repr: every subset of explicitly set fields (none, one, both)
            for x in (cls(), cls(3), cls(f1=4), cls(3, f1=4)):
                for nm, y in (('copy', copy.copy(x)), ('deepcopy', copy.deepcopy(x))):
                    if (eq and not (y == x)) or y.__pane_set__ != x.__pane_set__ or (y.f0, y.f1) != (x.f0, x.f1) or type(y) is not cls \
                            or y.dict(set_only=True) != x.dict(set_only=True):
                        out.violation(f'C16:{nm}', f'{opts}: {nm} gave {y!r} with set-record {sorted(y.__pane_set__)} from {x!r} with set-record {sorted(x.__pane_set__)}', {'options': opts})
                r0 = x.__replace__()
                if (r0.f0, r0.f1) != (x.f0, x.f1) or r0.__pane_set__ != x.__pane_set__:
                    out.violation('C16:replace-nothing', f'{opts}: replace() without changes gave {r0!r} / {sorted(r0.__pane_set__)} from {x!r} / {sorted(x.__pane_set__)}', {'options': opts})
            x = cls(3, f1=4)
            y = x.__replace__(f1=9)
            if (y.f0, y.f1) != (3, 9) or type(y) is not cls:
                out.violation('C16:replace', f'{opts}: replace gave {y!r}', {'options': opts})
            try:
                x.__replace__(f1='not an int')
                out.violation('C16:replace-not-revalidating', f'{opts}: replace accepted a str for an int field', {'options': opts})
            except pane.ConvertError:
                pass
            want_repr = f'{cls.__name__}(' + ', '.join(f'f{i}={v!r}' for i, (v, fl) in enumerate(zip((3, 4), flags)) if fl[2]) + ')'
            if repr(x) != want_repr:
                out.violation('C16:repr', f'{opts} flags={flags}: repr {repr(x)!r}, expected {want_repr!r}', {'options': opts})
    # generic parameters are ignored by ==
    import typing as t
    T = t.TypeVar('T')

    class G(pane.PaneBase, t.Generic[T]):
        x: T
    if not (G[int](1) == G(1)) or not (G[int](1) == G[float](1)) or G[int](1) == G[int](2):
        out.violation('C16:eq-generic-parameters', 'G[int](1) == G(1) / G[float](1) does not hold', {})
    # ... but a class DERIVED from a parametrised generic is a class of its own: never equal to the generic base or to a sibling,
    # equal to itself whatever its own parameters
    U = t.TypeVar('U')

    class IntBox(G[int]):
        pass

    class OtherBox(G[int]):
        pass

    class Wide(G[int]):
        y: int = 0

    class Pair(G[U], t.Generic[U]):
        z: int = 0

    def eqv(a, b):
        try:
            return a == b
        except Exception as e:
            return f'raised {type(e).__name__}'
    rows = [
        ('IntBox(1) == G[int](1)', eqv(IntBox(1), G[int](1)), False), ('G[int](1) == IntBox(1)', eqv(G[int](1), IntBox(1)), False),
        ('IntBox(1) == G(1)', eqv(IntBox(1), G(1)), False), ('IntBox(1) == OtherBox(1)', eqv(IntBox(1), OtherBox(1)), False),
        ('IntBox(1) == IntBox(1)', eqv(IntBox(1), IntBox(1)), True), ('IntBox(1) != IntBox(2)', eqv(IntBox(1), IntBox(2)), False),
        ('Wide(1, 2) == G[int](1)', eqv(Wide(1, 2), G[int](1)), False), ('G[int](1) == Wide(1, 2)', eqv(G[int](1), Wide(1, 2)), False),
        ('Wide(1, 2) == Wide(1, 2)', eqv(Wide(1, 2), Wide(1, 2)), True),
        ('Pair[int](1, 2) == Pair(1, 2)', eqv(Pair[int](1, 2), Pair(1, 2)), True), ('Pair[int](1, 2) == Pair[float](1, 2)', eqv(Pair[int](1, 2), Pair[float](1, 2)), True),
        ('Pair[int](1, 2) == G[int](1)', eqv(Pair[int](1, 2), G[int](1)), False), ('Pair(1, 2) == Pair(1, 3)', eqv(Pair(1, 2), Pair(1, 3)), False),
    ]
    # ordering is consistent with equality: where == compares (same class modulo generic parameters), so do <, <=, >, >=
    def ordv(a, b):
        try:
            return (a < b, a <= b, a > b, a >= b)
        except Exception as e:
            return f'raised {type(e).__name__}'
    for label, a, b, want in (
            ('G[int](1) vs G[str].make_unchecked(1)', G[int](1), G[str].make_unchecked(1), (False, True, False, True)),
            ('G[int](1) vs G(2)', G[int](1), G(2), (True, True, False, False)), ('G(2) vs G[int](1)', G(2), G[int](1), (False, False, True, True)),
            ('Pair[int](1, 2) vs Pair[float](1, 3)', Pair[int](1, 2), Pair[float](1, 3), (True, True, False, False)),
            ('IntBox(1) vs G[int](1)', IntBox(1), G[int](1), 'raised TypeError'), ('IntBox(1) vs OtherBox(1)', IntBox(1), OtherBox(1), 'raised TypeError')):
        n += 1
        got = ordv(a, b)
        if got != want:
            out.violation('C16:order-vs-generic-parameters', f'{label}: (<, <=, >, >=) gave {got!r}, expected {want!r}; == gives {eqv(a, b)!r} '
                          '(ordering compares what equality compares: the class, ignoring generic parameters)', {'comparison': label})
    n += len(rows)
    for label, got, want in rows:
        if got is not want:
            out.violation('C16:eq-derived-from-parametrised-generic', f'{label} gave {got!r}, expected {want!r}: equality compares the class '
                          '(ignoring only the generic parameters of that same class)', {'comparison': label})
    # assignment on non-frozen instances is tracked for inherited fields and for parameterised generics as well
    class MB(pane.PaneBase, frozen=False):
        x: int = 0
        y: int = 0

    class MD(MB):
        z: int = 0

    class MG(pane.PaneBase, t.Generic[T], frozen=False):
        x: int = 0
        y: int = 0
    for label, mk in (('own field', lambda: MB(1)), ('inherited field', lambda: MD(1, z=7)), ('parameterised generic', lambda: MG[int](1)),
                      ('unparameterised generic', lambda: MG(1))):
        n += 1
        inst = mk()
        inst.y = 5
        before = set(inst.__pane_set__)
        rep = inst.__replace__()
        cp = copy.copy(inst)
        if 'y' not in before or rep.y != 5 or cp.y != 5 or 'y' not in inst.dict(set_only=True) or not (rep == inst):
            out.violation('C16:assignment-not-recorded', f'{label}: after inst.y = 5 on {inst!r}: set-record {sorted(before)}, replace() gives {rep!r}, copy gives {cp!r}, '
                          f'dict(set_only=True) = {inst.dict(set_only=True)!r}', {'case': label})
    # frozen is decided per class: a frozen class derived from a mutable one rejects assignment, and the reverse
    class MutBase(pane.PaneBase, frozen=False):
        x: int = 0

    class FrozenChild(MutBase, frozen=True):
        y: int = 0

    class FrozenGrandChild(FrozenChild):
        z: int = 0

    class FrozenBase(pane.PaneBase):
        x: int = 0

    class MutChild(FrozenBase, frozen=False):
        y: int = 0

    class MutAgain(FrozenChild, frozen=False):
        w: int = 0
    for label, cls, frozen in (('frozen=True child of a frozen=False class', FrozenChild, True), ('its subclass (option inherited)', FrozenGrandChild, True),
                               ('frozen=False child of a frozen class', MutChild, False), ('frozen=False again below a frozen=True class', MutAgain, False),
                               ('the mutable base itself', MutBase, False), ('the frozen base itself', FrozenBase, True)):
        n += 1
        inst = cls()
        h0 = None
        try:
            h0 = hash(inst)
        except TypeError:
            pass
        try:
            inst.x = 5
            accepted = True
        except dataclasses.FrozenInstanceError:
            accepted = False
        except Exception as e:
            out.violation(f'C16:frozen-inheritance:{type(e).__name__}', f'{label}: assignment raised {type(e).__name__}: {e}', {'case': label})
            continue
        if accepted == frozen:
            out.violation('C16:frozen-inheritance', f'{label}: inst.x = 5 was {"accepted" if accepted else "rejected"} (now {inst!r}, set-record {sorted(inst.__pane_set__)}'
                          f'{", hash changed" if h0 is not None and accepted and hash(inst) != h0 else ""}); the class is {"frozen" if frozen else "not frozen"}', {'case': label})
        try:
            del inst.x
            out.violation('C16:frozen-inheritance:delete', f'{label}: del inst.x was accepted', {'case': label})
        except AttributeError:
            pass
    # fields that are not constructor arguments (init=False): copy / deepcopy / replace after one has been assigned,
    # and when a hook derives one from the others
    class NI(pane.PaneBase, frozen=False):
        x: int = 0
        y: int = pane.field(init=False, default=1)

    class ND(pane.PaneBase, frozen=False):
        w: int = 1
        a: int = pane.field(init=False, default=0)

        def __post_init__(self):
            self.a = self.w * 2
    for label, mk, change, want in (
            ('init=False field assigned', lambda: NI(1), {'x': 2}, (2, 5)), ('init=False field assigned, defaults otherwise', lambda: NI(), {'x': 3}, (3, 5)),
            ('init=False field left alone', lambda: NI(4), {'x': 2}, (2, 1))):
        n += 1
        inst = mk()
        if 'left alone' not in label:
            inst.y = 5
        try:
            results = {'copy': copy.copy(inst), 'deepcopy': copy.deepcopy(inst), 'replace()': inst.__replace__()}
            changed = inst.__replace__(**change)
        except Exception as e:
            out.violation(f'C16:copy-with-non-init-field:{type(e).__name__}', f'{label}: copying / replacing {inst!r} (set-record {sorted(inst.__pane_set__)}) raised '
                          f'{type(e).__name__}: {str(e)[:160]}', {'case': label})
            continue
        for how, r in results.items():
            if not (r == inst) or set(r.__pane_set__) != set(inst.__pane_set__) or r.y != inst.y:
                out.violation('C16:copy-with-non-init-field', f'{label}: {how} of {inst!r} / {sorted(inst.__pane_set__)} gave {r!r} / {sorted(r.__pane_set__)}', {'case': label, 'how': how})
        if (changed.x, changed.y) != want:
            out.violation('C16:replace-with-non-init-field', f'{label}: replace({change}) of {inst!r} gave {changed!r}, expected x, y = {want}', {'case': label})
    n += 1
    d = ND(2)
    try:
        got = [(r.w, r.a) for r in (copy.copy(d), copy.deepcopy(d), d.__replace__(), d.__replace__(w=5))]
        if got != [(2, 4), (2, 4), (2, 4), (5, 10)]:
            out.violation('C16:derived-non-init-field', f'copy, deepcopy, replace(), replace(w=5) of {d!r}, whose hook sets a = 2 * w, gave (w, a) = {got}', {'case': 'derived'})
    except Exception as e:
        out.violation(f'C16:derived-non-init-field:{type(e).__name__}', f'copying / replacing {d!r} raised {type(e).__name__}: {str(e)[:160]}', {'case': 'derived'})
    # a default-factory product mutated in place while its field is not in the set-field record
    class PF(pane.PaneBase, frozen=False):
        items: t.List[int] = pane.field(default_factory=list)
        k: int = 0
    n += 1
    p = PF(k=1)
    p.items.append(1)
    for how, mk in (('copy', lambda: copy.copy(p)), ('deepcopy', lambda: copy.deepcopy(p)), ('replace()', lambda: p.__replace__())):
        r = mk()
        if not (r == p) or set(r.__pane_set__) != set(p.__pane_set__):
            sig = 'C16:replace-after-in-place-mutation-of-unset-factory-field' if how == 'replace()' else f'C16:{how}-after-in-place-mutation'
            out.violation(sig, f'{how} of {p!r} (set-record {sorted(p.__pane_set__)}; items was appended to in place) gave {r!r} / {sorted(r.__pane_set__)}', {'how': how})
    out.evaluations += n
    out.sample({'case': items[7][1][:5], 'observed (==, <, <=, >, >=)': list(items[7][1][5])})
    instance_machine(ctx, out, rng)
    if any(f in ctx['failed_files'] for f in ('Model/ClassSem.v', 'Run/AgreeSem.v')):
        out.oblige('corr_sem', False, 'model does not build')
        return
    bad, errs = run_shards(PROP, 'sem', 'From Coq Require Import ZArith List.\nImport ListNotations.\nRequire Import Run.AgreeSem.\n', items,
                           lambda it: it[0], per=400, final='sem_mismatches', ty='list sem_case')
    out.extra['comparison_cases'] = len(items)
    out.oblige('corr_sem: model ==, <, <=, >, >= = pane on every generated instance pair of the option cube', not bad and not errs,
               f'{len(bad)} mismatches over {len(items)}, {len(errs)} shard errors')
    for e in errs[:1]:
        out.violation('C16:corr_sem:shard-error', 'shard failed: ' + e[:400], {'correspondence': 'corr_sem', 'error': e[:1500]}, no_input=True)
    if bad and not out.has_unlisted_input():
        out.violation('C16:corr_sem', f'model and pane disagree on comparisons for {items[bad[0]][1]!r}', {'correspondence': 'corr_sem', 'case': repr(items[bad[0]][1])}, no_input=True)


INST_HEADER = ('From Coq Require Import ZArith List Bool String.\nImport ListNotations.\n'
               'Require Import Base.Outcome Base.PyNum Model.Values Model.Vocab Model.Types Model.Conv Model.Instance Run.AgreeInst.\nOpen Scope string_scope.\n')


def instance_machine(ctx, out, rng):
    """generated classes x constructor keywords x operation sequences (assign, delete, copy, deepcopy, replace; copies and
    replacements are operated on further): each step against the property's own oracle on pane (monitor) and against
    Model/Instance.v (corr_inst), whose theorems are in Props/C16.v"""
    import collections
    import instmachine as im
    n_cases = 2500 if ctx['tier'] == 'thorough' else 500
    items, stats = [], collections.Counter()
    for i in range(n_cases):
        spec, kw, ops = im.gen_case(rng, i)
        try:
            o0, obs, notes = im.run_pane(spec, kw, ops)
        except terms.Unsupported:
            stats['unsupported'] += 1
            continue
        out.evaluations += 1 + len(obs)
        stats['construct:' + o0[0]] += 1
        for op, o in zip(ops, obs):
            stats[op[0] + ':' + o[0]] += 1
        shape = [(f['name'], f['ty'], f.get('default'), f.get('init', True)) for f in spec['fields']]
        for note in notes[:2]:
            out.violation('C16:instance-machine', f'class {shape} frozen={spec["opts"]["frozen"]}, built with {kw}: {note}',
                          {'fields': repr(shape), 'frozen': spec['opts']['frozen'], 'constructor_keywords': repr(kw), 'operations': repr(ops), 'note': note})
        try:
            items.append(((spec, kw, ops, o0, obs), im.case_to_coq(spec, kw, ops, o0, obs)))
        except terms.Unsupported:
            stats['not-expressible'] += 1
    out.extra['instance_machine'] = {'cases': len(items), 'distribution': dict(sorted(stats.items()))}
    if any(f in ctx['failed_files'] for f in ('Model/Instance.v', 'Run/AgreeInst.v')):
        out.oblige('corr_inst', False, 'instance machine model does not build')
        return
    bad, errs = run_shards(PROP, 'inst', INST_HEADER, items, lambda it: it[1], per=250, final='inst_mismatches', ty='list inst_case')
    out.oblige('corr_inst: Model/Instance.v = pane on every generated class, construction and operation sequence, step by step', not bad and not errs,
               f'{len(bad)} mismatches over {len(items)}, {len(errs)} shard errors')
    for e in errs[:1]:
        out.violation('C16:corr_inst:shard-error', 'shard failed: ' + e[:400], {'correspondence': 'corr_inst', 'error': e[:1500]}, no_input=True)
    if bad and not out.has_unlisted_input():
        spec, kw, ops, o0, obs = items[bad[0]][0]
        out.violation('C16:corr_inst', f'instance machine and pane disagree on {len(bad)} case(s), e.g. fields '
                      f'{[(f["name"], f["ty"], f.get("default"), f.get("init", True)) for f in spec["fields"]]} frozen={spec["opts"]["frozen"]} built with {kw}, operations {ops}: pane did {obs}',
                      {'correspondence': 'corr_inst', 'operations': repr(ops), 'observed': repr(obs), 'constructor_keywords': repr(kw)}, no_input=True)


def replay(rep, out):
    print(rep['what'])
    print(rep['replay'])
    return 0
