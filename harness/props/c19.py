"""C19 -- JSON / YAML file round trip and stream ownership."""
import builtins
import io
import itertools
import math
import os
import random
import shutil
import tempfile
import warnings
from pathlib import Path

import convcases
import gen
import terms
from props.c05 import canon, class_issues, known_cause, walk

PROP = 'C19'
COQ_TARGETS = ['Props/C19.vo']
GEN = ['GenIO', 'GenScalars', 'GenGates', 'GenExcept', 'GenConds']
SKIP = {'out-layout-not-enabled', 'excluded-field', 'explicit-asymmetric-out_name', 'explicit-asymmetric-rename',
        'explicit-asymmetric-in_names', 'tuple-out-with-noninit-field'}


def representable(d, fmt):
    """can json / yaml carry this interchange value (and give back something pane reads the same way)?"""
    if d is None or isinstance(d, (bool, str)):
        return not isinstance(d, str) or all(ord(c) >= 32 or c in '\n\t' for c in d) and '\x7f' not in d and '\x85' not in d
    if isinstance(d, int):
        return True
    if isinstance(d, float):
        return math.isfinite(d) or fmt == 'yaml'
    if isinstance(d, (list, tuple)):
        return all(representable(x, fmt) for x in d)
    if isinstance(d, dict):
        return all(isinstance(k, str) and representable(k, fmt) and representable(v, fmt) for k, v in d.items())
    return False


def json_yaml_type(term):
    """types whose values survive json / yaml: no bytes / complex / sets-of-tuples, no Any, str keys"""
    for n in walk(term):
        if n[0] == 'scalar' and n[1] in ('bytes', 'bytearray', 'complex'):
            return False
        if n[0] in ('any', 'std'):
            return False
        if n[0] == 'dict' and n[1] != ('scalar', 'str'):
            return False
        if n[0] == 'literal' and any(isinstance(v, bytes) for v in n[1]):
            return False
        if n[0] == 'tagged' and any(not isinstance(tv, str) for tv, _ in n[3]) and n[2] == 'external':
            return False
    return True


class OpenSpy:
    """wraps builtins.open to see that every handle pane opens is closed, and with which encoding"""
    def __init__(self):
        self.opened = []
        self.real = builtins.open

    def __enter__(self):
        spy = self

        def opener(file, mode='r', *a, **k):
            fh = spy.real(file, mode, *a, **k)
            spy.opened.append((str(file), mode, k.get('encoding'), fh))
            return fh
        builtins.open = opener
        return self

    def __exit__(self, *a):
        builtins.open = self.real


def run(ctx, out):
    import pane
    from pane import io as pio
    from pane.errors import ConvertError
    rng = random.Random(ctx['seed'])
    thorough = ctx['tier'] == 'thorough'
    out.rule = ('serialisable typed values (types without bytes / complex / Any, str mapping keys; value from from_data) x format (json, yaml) x '
                'sink / source kind (str path, Path, open text stream, StringIO, returned string via the dataclass methods) x formatting '
                'options (json: indent, sort_keys; yaml: indent, width, allow_unicode, explicit_start, explicit_end, default_style, '
                'default_flow_style, sort_keys): read back equals the value; caller streams stay open; every handle pane opens is UTF-8 and '
                'closed (also when the conversion fails); from_yaml_all gives one value per document; non-ASCII and multi-line text.')
    tmp = Path(tempfile.mkdtemp(prefix='pane-verif-c19.', dir=os.environ.get('XDG_CACHE_HOME', '/var/tmp')))
    n = 0
    try:
        json_opts = [dict(indent=i, sort_keys=s) for i in (None, 2, '\t') for s in (False, True)]
        yaml_opts = [dict(default_flow_style=True, explicit_start=False), dict(default_flow_style=True, explicit_start=False, width=10), dict(), dict(indent=4), dict(width=20), dict(allow_unicode=False), dict(explicit_start=False), dict(explicit_end=True),
                     dict(default_style='"'), dict(default_style='|'), dict(default_flow_style=True), dict(default_flow_style=False),
                     dict(sort_keys=True), dict(default_flow_style=False, allow_unicode=False, explicit_end=True, sort_keys=True, indent=3)]
        n_types = 150 if not thorough else 1500
        cases = []
        tries = 0
        cfg = {'weights': {'class': 3.0, 'std': 0.0, 'any': 0.0, 'struct': 0.6, 'tagged': 0.8}}
        while len(cases) < n_types and tries < n_types * 6:
            tries += 1
            term = gen.g_type(rng, 3, cfg)
            if not json_yaml_type(term):
                continue
            try:
                with warnings.catch_warnings():
                    warnings.simplefilter('ignore')
                    terms.clear_typing_caches()
                    b = terms.build(term, rng)
                    terms.verify(term, b.py)
                    x = pane.from_data(gen.g_valid(rng, term), b.py)
            except (terms.Unsupported, ConvertError, TypeError):
                continue
            if class_issues(term) & SKIP or known_cause(term) is not None:
                continue
            cases.append((term, b.py, x))
        # fixed non-ASCII / multi-line cases
        class Txt(pane.PaneBase):
            s: str
            items: list[str] = pane.field(default_factory=list)
        for s in ('héllo wörld', '世界', 'line1\nline2', ' leading and trailing ', 'emoji \U0001F600', 'quote " and \' and : #', '', '- dash', 'null', '1e3', 'yes'):
            cases.append((('class', {}), Txt, Txt(s, [s, 'x'])))
        # order-sensitive mappings: the keys are written in the value's order unless the caller asks for sorting
        import collections
        import typing as _t
        od = collections.OrderedDict([('zeta', 1), ('alpha', 2), ('mid', 3)])

        class Ord(pane.PaneBase):
            zeta: int = 1
            alpha: _t.OrderedDict[str, int] = pane.field(default_factory=collections.OrderedDict)
            mid: str = 'm'
        # text that another reader would take for a number / null / bool, at the top of a sequence, in flow style too
        tricky = ['1e3', '12e1', '1.0e3', 'NaN', 'Infinity', '-Infinity', 'null', 'true', '0x10', '1_000', '~', '[1]', '{a: 1}', '1e3 ']
        cases.append((('ordered',), _t.List[str], list(tricky)))
        cases.append((('ordered',), _t.List[_t.Union[float, str]], list(tricky) + [1000.0, 2.5]))
        cases.append((('ordered',), _t.Tuple[str, int, _t.Optional[str]], ('1e3', 7, None)))
        cases.append((('ordered',), _t.List[_t.List[str]], [['1e3', 'NaN'], ['x']]))
        cases.append((('ordered',), _t.OrderedDict[str, int], od))
        cases.append((('ordered',), _t.List[_t.OrderedDict[str, int]], [od, collections.OrderedDict([('b', 1), ('a', 2)])]))
        cases.append((('ordered',), Ord, Ord(alpha=collections.OrderedDict([('y', 1), ('x', 2)]))))
        for term, T, x in cases:
            for fmt, optlist in (('json', json_opts), ('yaml', yaml_opts)):
                if term == ('ordered',):
                    optlist = [o for o in optlist if not o.get('sort_keys')]
                with warnings.catch_warnings():
                    warnings.simplefilter('ignore')
                    try:
                        d = pane.into_data(x, T)
                    except Exception:
                        break
                if not representable(d, fmt):
                    continue
                opts = rng.choice(optlist) if not thorough else None
                for o in ([opts] if opts is not None and term != ('ordered',) else optlist):
                    for kind in ('str-path', 'Path', 'open-stream', 'StringIO'):
                        n += 1
                        label = f'{fmt}/{kind}/{sorted(o.items())}'
                        writer = pio.write_json if fmt == 'json' else pio.write_yaml
                        reader = pio.from_json if fmt == 'json' else pio.from_yaml
                        p = tmp / f'f{n}.{fmt}'
                        with OpenSpy() as spy, warnings.catch_warnings():
                            warnings.simplefilter('ignore')
                            try:
                                if kind == 'str-path':
                                    writer(x, str(p), ty=T, **o)
                                    y = reader(str(p), T)
                                elif kind == 'Path':
                                    writer(x, p, ty=T, **o)
                                    y = reader(p, T)
                                elif kind == 'open-stream':
                                    fh = spy.real(p, 'w', encoding='utf-8')
                                    writer(x, fh, ty=T, **o)
                                    still = not fh.closed
                                    fh.close()
                                    if not still:
                                        out.violation(f'C19:stream-closed:write:{fmt}', f'{label}: the caller\'s open text stream was closed by write_{fmt}', {'config': label})
                                    fh = spy.real(p, 'r', encoding='utf-8')
                                    y = reader(fh, T)
                                    if fh.closed:
                                        out.violation(f'C19:stream-closed:read:{fmt}', f'{label}: the caller\'s open text stream was closed by from_{fmt}', {'config': label})
                                    fh.close()
                                else:
                                    buf = io.StringIO()
                                    writer(x, buf, ty=T, **o)
                                    if buf.closed:
                                        out.violation(f'C19:stream-closed:write:{fmt}', f'{label}: the StringIO was closed', {'config': label})
                                        continue
                                    src = io.StringIO(buf.getvalue())
                                    y = reader(src, T)
                                    if src.closed:
                                        out.violation(f'C19:stream-closed:read:{fmt}', f'{label}: the source StringIO was closed', {'config': label})
                            except Exception as e:
                                out.violation(f'C19:roundtrip-raises:{fmt}:{type(e).__name__}', f'{label}: {type(e).__name__}: {str(e)[:200]} for {x!r} as {T!r}', {'config': label, 'data': repr(d)})
                                continue
                            for name, mode, enc, fh in spy.opened:
                                if not fh.closed:
                                    out.violation(f'C19:handle-left-open:{fmt}', f'{label}: the handle pane opened for {name} ({mode}) was not closed', {'config': label})
                                    fh.close()
                                if enc not in ('utf-8', 'utf8', 'UTF-8'):
                                    out.violation(f'C19:not-utf8:{fmt}', f'{label}: {name} was opened with encoding {enc!r}', {'config': label})
                        if term == ('ordered',) and not (y == x):
                            out.violation(f'C19:roundtrip-differs:key-order:{fmt}', f'{label}: read back {y!r}, wrote {x!r}: the order of an order-sensitive mapping changed '
                                          f'although sorting was not asked for', {'config': label, 'data': repr(d)})
                        if canon(y) != canon(x) and 'FNan' not in canon(x):
                            out.violation(f'C19:roundtrip-differs:{fmt}', f'{label}: read back {y!r}, wrote {x!r} (data {d!r})', {'config': label, 'data': repr(d)})
                        out.case((fmt, kind, repr(sorted(o.items())), canon(x)), nontrivial=term[0] not in ('scalar', 'none'))
                        try:
                            p.unlink()
                        except FileNotFoundError:
                            pass
        # ---- the dataclass methods returning / reading strings, and a handle is closed when the conversion fails
        class P(pane.PaneBase):
            a: int
            name: str = 'ünï'
            tags: list[str] = pane.field(default_factory=list)
        x = P(3, 'naïve\ntext', ['α', 'b'])
        for o in json_opts:
            n += 1
            sj = x.write_json(**o)
            if not isinstance(sj, str) or P.from_jsons(sj) != x:
                out.violation('C19:returned-string:json', f'write_json({o}) / from_jsons round trip failed: {sj!r}', {'options': repr(o)})
        for o in yaml_opts:
            n += 1
            sy = x.write_yaml(**o)
            if not isinstance(sy, str) or P.from_yamls(sy) != x:
                out.violation('C19:returned-string:yaml', f'write_yaml({o}) / from_yamls round trip failed: {sy!r}', {'options': repr(o)})
        # string round trips for several shapes of document: text ending in a newline as the LAST scalar (block styles), a single
        # key whose value spans several lines, leading / trailing blank text, one-line documents; every option set
        import typing as t

        class Note(pane.PaneBase):
            title: str
            body: str

        class Wrapper(pane.PaneBase):
            limits: t.Dict[str, int]

        class Deep(pane.PaneBase):
            inner: Wrapper
            notes: t.List[Note] = pane.field(default_factory=list)
        shapes = [Note('t', 'line 1\nline 2\n'), Note('t', '  indented\n\n'), Note('', '\n'), Wrapper({'a': 1, 'b': 2}), Wrapper({}),
                  Deep(Wrapper({'a': 1}), [Note('x', 'y\n')]), Deep(Wrapper({'k': 0}))]
        for o in yaml_opts + [dict(default_style='>'), dict(default_style='|', explicit_end=True), dict(default_flow_style=False, explicit_start=False)]:
            for v in shapes:
                n += 1
                try:
                    sy = v.write_yaml(**o)
                    back = type(v).from_yamls(sy)
                    back2 = pio.from_yaml(io.StringIO(sy), type(v))
                except Exception as e:
                    out.violation(f'C19:returned-string:yaml:{type(e).__name__}', f'{v!r}.write_yaml({o}) / from_yamls: {type(e).__name__}: {str(e)[:200]}', {'options': repr(o), 'value': repr(v)})
                    continue
                if back != v or back2 != v:
                    out.violation('C19:returned-string:yaml', f'{v!r}.write_yaml({o}) = {sy!r} reads back as {back!r} through from_yamls and {back2!r} through from_yaml on a stream',
                                  {'options': repr(o), 'value': repr(v)})
        for o in json_opts:
            for v in shapes:
                n += 1
                sj = v.write_json(**o)
                if type(v).from_jsons(sj) != v:
                    out.violation('C19:returned-string:json', f'{v!r}.write_json({o}) / from_jsons round trip failed: {sj!r}', {'options': repr(o)})
        n += 1
        multi = '\n'.join(P(i, f'n{i}').write_yaml(explicit_start=True) for i in range(4))
        ys = P.from_yaml_all(io.StringIO(multi))
        if ys != [P(i, f'n{i}') for i in range(4)]:
            out.violation('C19:yaml_all', f'from_yaml_all returned {ys!r} for 4 documents', {})
        # one value per document, also for null / empty documents and through files
        import typing as t
        n += 3
        docs = [1, None, 3, None]
        buf = io.StringIO()
        for dv in docs:
            pio.write_yaml(dv, buf, ty=t.Optional[int], explicit_start=True)
        got = pio.from_yaml_all(io.StringIO(buf.getvalue()), t.Optional[int])
        if got != docs:
            out.violation('C19:yaml_all:null-documents', f'from_yaml_all returned {got!r} for the documents {docs!r} ({buf.getvalue()!r})', {'text': buf.getvalue()})
        got = pio.from_yaml_all(io.StringIO('--- 1\n---\n--- 3\n'), t.Optional[int])
        if got != [1, None, 3]:
            out.violation('C19:yaml_all:empty-document', f'from_yaml_all returned {got!r} for three documents, the second empty', {})
        pm = tmp / 'multi.yaml'
        pm.write_text(multi, encoding='utf-8')
        if P.from_yaml_all(pm) != [P(i, f'n{i}') for i in range(4)] or P.from_yaml_all(str(pm)) != [P(i, f'n{i}') for i in range(4)]:
            out.violation('C19:yaml_all:path', 'from_yaml_all on a path did not return the four documents', {})
        # caller TEXT streams of every encoding are left open and usable (pane re-encodes them as UTF-8), for every reader and
        # writer.  (Binary streams are outside the property: pane wraps them and the wrapper closes them when it is collected.)
        import gc
        val = P(7, 'caf\u00e9')
        enc_file = tmp / 'enc.txt'
        for enc in ('utf-8', 'latin-1', 'ascii', 'cp1252', 'utf-16'):
            for fmt in ('json', 'yaml'):
                n += 2
                fh = open(enc_file, 'w', encoding=enc)
                try:
                    getattr(pio, 'write_' + fmt)(val, fh)
                    gc.collect()
                    if fh.closed:
                        out.violation('C19:stream-closed:write:other-encoding', f"write_{fmt}: the caller's text stream opened with encoding={enc!r} was closed", {'encoding': enc, 'format': fmt})
                    else:
                        try:
                            fh.write('')
                            fh.flush()
                        except ValueError:
                            out.violation('C19:stream-closed:write:other-encoding', f"write_{fmt}: the caller's {enc!r} text stream is unusable after the call", {'encoding': enc, 'format': fmt})
                finally:
                    if not fh.closed:
                        fh.close()
                enc_file.write_text(getattr(val, 'write_' + fmt)(), encoding='utf-8')
                fh = open(enc_file, 'r', encoding=enc)
                try:
                    for reader in (['from_json'] if fmt == 'json' else ['from_yaml', 'from_yaml_all']):
                        fh.seek(0) if not fh.closed else None
                        try:
                            getattr(pio, reader)(fh, P)
                        except Exception:
                            pass          # what is read through a wrong declared encoding is not the point here
                        gc.collect()
                        if fh.closed:
                            out.violation('C19:stream-closed:read:other-encoding', f"{reader}: the caller's text stream opened with encoding={enc!r} was closed", {'encoding': enc, 'reader': reader})
                            break
                finally:
                    if not fh.closed:
                        fh.close()
        bad = tmp / 'bad.json'
        bad.write_text('{"a": "not an int"}', encoding='utf-8')
        with OpenSpy() as spy:
            n += 1
            try:
                P.from_json(str(bad))
                out.violation('C19:bad-file-accepted', 'a file with a str for an int field was accepted', {})
            except ConvertError:
                pass
            if any(not fh.closed for *_, fh in spy.opened) or not spy.opened:
                out.violation('C19:handle-left-open:on-error', 'the handle opened for a path was not closed when the conversion failed', {})
        with OpenSpy() as spy:
            n += 1
            brk = tmp / 'broken.json'
            brk.write_text('{"a": ', encoding='utf-8')
            try:
                P.from_json(brk)
            except Exception:
                pass
            if any(not fh.closed for *_, fh in spy.opened):
                out.violation('C19:handle-left-open:on-parse-error', 'the handle was not closed when json.load raised', {})
        out.sample({'type': 'P(a: int, name: str, tags: list[str])', 'json': x.write_json(), 'yaml': x.write_yaml()})
    finally:
        shutil.rmtree(tmp, ignore_errors=True)
    out.evaluations += n
    out.extra['files_written'] = n


def replay(rep, out):
    print(rep['what'])
    print(rep['replay'])
    return 0
