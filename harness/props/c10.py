"""C10 -- results are independent of call history (memoisation is transparent)."""
import gc
import random
import types as pytypes
import threading
import typing as t
import warnings

import convcases
import gen
import terms
from common import run_shards
from props.c05 import canon

PROP = 'C10'
COQ_TARGETS = ['Props/C10.vo', 'Run/AgreeCache.vo', 'Run/AgreeTypeKey.vo']
GEN = ['GenCache']


# ---------------------------------------------------------------- (1) KeyCache: real object vs model

def keycache_history(rng, maxsize, n):
    """run a random history on a real KeyCache; returns (keys, observations)"""
    from pane.util import KeyCache, NEXT, KEY
    calls = []

    def inner(k):
        calls.append(k)
        return 2 * k + 1
    kc = KeyCache(inner, lambda k: k, maxsize=maxsize or None)
    keys = [rng.randint(0, 5) for _ in range(n)]
    obs = []
    for k in keys:
        before = len(calls)
        v = kc(k)
        computed = len(calls) > before
        if maxsize:
            held = []
            link = kc._root[NEXT]
            while link is not kc._root:
                held.append(link[KEY])
                link = link[NEXT]
            if sorted(held) != sorted(kc.cache.keys()):
                held = [-1]           # the linked list and the dict disagree: will not match the model
        else:
            held = list(kc.cache.keys())
        obs.append((v, computed, held))
    return keys, obs


def render_cache_case(maxsize, keys, obs):
    ks = '[' + '; '.join(str(k) for k in keys) + ']'
    os_ = '[' + '; '.join(f'({v}, {"true" if c else "false"}, [' + '; '.join(map(str, h)) + '])' for v, c, h in obs) + ']'
    return f'({maxsize}, {ks}, {os_})'


# ---------------------------------------------------------------- (2) histories on the real make_converter

def fresh_answer(ty, probes):
    """what a converter built without the cache says: expected() and verdict/value on the probe values"""
    from pane.convert import make_converter, ConverterHandlers
    from pane.errors import ConvertError
    conv = make_converter.inner_f(ty, ConverterHandlers())
    return describe(conv, probes)


def describe(conv, probes):
    from pane.errors import ConvertError
    out = [conv.expected()]
    for v in probes:
        try:
            out.append(('ok', canon(conv.convert(v))))
        except ConvertError as e:
            out.append(('error', str(e)[:120]))
        except Exception as e:
            out.append(('escape', type(e).__name__))
    return out


def history_run(rng, n_ops, out, label):
    """Build / Convert / Drop / GC histories; every memoised answer is compared with an unmemoised one"""
    from pane.convert import make_converter
    live = []        # (term, py object)
    n_lookups = 0
    trace = []
    for step in range(n_ops):
        r = rng.random()
        if r < 0.35 or not live:
            term = gen.g_type(rng, 2, {'weights': {'class': 0.3, 'enum': 0.2, 'tagged': 0.0, 'cond': 0.6}})
            try:
                with warnings.catch_warnings():
                    warnings.simplefilter('ignore')
                    terms.clear_typing_caches()
                    before = len(terms.KEEP)
                    b = terms.build(term, rng)
                    del terms.KEEP[before:]          # this check must NOT keep the type objects alive
            except terms.Unsupported:
                continue
            live.append((term, b.py))
            trace.append(('build', repr(b.py)[:80]))
        elif r < 0.75:
            term, py = rng.choice(live)
            probes = [gen.g_valid(rng, term, 2), gen.g_arbitrary(rng, 1)]
            with warnings.catch_warnings():
                warnings.simplefilter('ignore')
                got = describe(make_converter(py), probes)
                want = fresh_answer(py, probes)
            n_lookups += 1
            trace.append(('convert', repr(py)[:80]))
            if got != want:
                out.violation(f'C10:{label}:stale-converter',
                              f'after {len(trace)} operations make_converter({py!r}) behaves like another converter: '
                              f'memoised {got!r} vs freshly built {want!r}', {'history_tail': trace[-12:], 'type': repr(py)})
                return n_lookups
        elif r < 0.92:
            i = rng.randrange(len(live))
            trace.append(('drop', repr(live[i][1])[:80]))
            del live[i]
        else:
            terms.clear_typing_caches()
            gc.collect()
            trace.append(('gc',))
    return n_lookups


def order_independence(rng, out):
    """the same types first seen in two different orders give the same answers"""
    from pane.convert import make_converter
    n = 0
    for _ in range(20):
        ts = []
        for _ in range(4):
            term = gen.g_type(rng, 2, {'weights': {'class': 0.0, 'enum': 0.0, 'tagged': 0.0}})
            try:
                ts.append((term, terms.build(term, rng).py))
            except terms.Unsupported:
                pass
        probes = {i: [gen.g_valid(rng, term, 2), gen.g_arbitrary(rng, 1)] for i, (term, _) in enumerate(ts)}
        answers = []
        for order in (list(range(len(ts))), list(reversed(range(len(ts))))):
            # re-spell the types so that each order starts from converters that were never built
            objs = [terms.build(term, random.Random(rng.random())).py for term, _ in ts]
            res = {}
            with warnings.catch_warnings():
                warnings.simplefilter('ignore')
                for i in order:
                    res[i] = describe(make_converter(objs[i]), probes[i])
            answers.append(res)
            n += len(order)
        if answers[0] != answers[1]:
            out.violation('C10:order:first-seen-order-matters', f'answers differ with the order in which types are first seen: {answers!r}'[:600], {})
    return n



def handler_placement(out):
    """the same handler object reaches one dataclass once as a call-level handler and once through an enclosing class; the
    class has a handler of its own for the same type, so the two placements rank differently.  Each conversion must give
    what it gives with an empty converter cache, whichever of the two ran first."""
    import pane
    from pane.convert import make_converter
    from pane.converters import Converter

    class Mark(Converter):
        def __init__(self, tag):
            self.tag = tag

        def expected(self, plural=False):
            return 'marked'

        def try_convert(self, val):
            return (self.tag, val)

        def collect_errors(self, val):
            return None

        def into_data(self, val):
            return val

    def hfor(tag):
        m = Mark(tag)

        def h(ty, args=(), *, handlers):
            return m if ty is int and not args else NotImplemented
        return h
    cache = getattr(make_converter, 'cache', None)
    if not isinstance(cache, dict):
        return 0
    n = 0
    saved = dict(cache)
    try:
        for trial in range(4):
            h, g = hfor('outer-or-call'), hfor('own')
            own = {'custom': [g]} if trial % 2 == 0 else {}
            Inner = pytypes.new_class(terms.fresh_name('HpI'), (pane.PaneBase,), own, lambda d: d.update({'__annotations__': {'x': int}}))
            Outer = pytypes.new_class(terms.fresh_name('HpO'), (pane.PaneBase,), {'custom': [h]}, lambda d: d.update({'__annotations__': {'inner': Inner, 'many': t.List[Inner]}, 'many': pane.field(default_factory=list)}))
            terms.KEEP += [Inner, Outer]
            jobs = {'direct with custom=[h]': lambda: Inner.from_data({'x': 1}, custom=[h]).x,
                    'direct without handlers': lambda: Inner.from_data({'x': 1}).x,
                    'through the enclosing class': lambda: (lambda o: (o.inner.x, [i.x for i in o.many]))(Outer.from_data({'inner': {'x': 1}, 'many': [{'x': 2}]}))}
            ref = {}
            for k, f in jobs.items():
                cache.clear()
                ref[k] = f()
            import itertools
            for order in itertools.permutations(jobs):
                cache.clear()
                for k in order:
                    n += 1
                    got = jobs[k]()
                    if got != ref[k]:
                        out.violation('C10:handler-placement:history-dependent', f'{k}: {got!r} after {list(order[:order.index(k)])} ran first, {ref[k]!r} with an empty '
                                      f'converter cache (own class handler: {bool(own)})', {'order': list(order), 'job': k, 'own_handler': bool(own)})
    finally:
        cache.clear()
        cache.update(saved)
    return n



def mapping_handlers_history(out):
    """dict-form custom handlers: the table of the CURRENT call decides, whatever an earlier call with an equal-looking or since
    modified table memoised"""
    import pane
    from pane.convert import make_converter
    from pane.converters import Converter, LiteralConverter

    class Times(Converter):
        def __init__(self, k):
            self.k = k

        def expected(self, plural=False):
            return 'an int'

        def try_convert(self, val):
            return val * self.k

        def collect_errors(self, val):
            return None

        def into_data(self, val):
            return val * self.k

    class Pt(pane.PaneBase):
        x: int
        y: t.List[int] = pane.field(default_factory=list)
    n = 0
    # (a) the same dict object, a value replaced in place between the calls
    table = {int: Times(2)}
    first = (pane.from_data([1, 2], t.List[int], custom=table), pane.from_data({'x': 1, 'y': [2]}, Pt, custom=table), pane.into_data([1], t.List[int], custom=table))
    table[int] = Times(10)
    second = (pane.from_data([1, 2], t.List[int], custom=table), pane.from_data({'x': 1, 'y': [2]}, Pt, custom=table), pane.into_data([1], t.List[int], custom=table))
    want = ([10, 20], Pt(10, [20]), [10])
    n += 3
    if second != want:
        out.violation('C10:mapping-handlers:stale-after-mutation', f'custom={{int: Times(10)}} after an earlier call with the same dict holding Times(2): got {second!r}, '
                      f'expected {want!r} (first call gave {first!r})', {'got': repr(second)})
    # (b) two tables whose converters compare == but behave differently
    n += 2
    try:
        a = pane.from_data(1, int, custom={int: LiteralConverter((1,))})
        b = pane.from_data(True, int, custom={int: LiteralConverter((True,))})
        if a != 1 or b is not True:
            out.violation('C10:mapping-handlers:equal-tables-conflated', f'got {a!r}, {b!r}', {})
    except pane.ConvertError as e:
        out.violation('C10:mapping-handlers:equal-tables-conflated', f'from_data(True, int, custom={{int: Literal[True]}}) after a call with {{int: Literal[1]}} failed: {str(e)[:150]}', {})
    # (c) fresh dicts per call with different converters
    n += 2
    r = [pane.from_data(3, int, custom={int: Times(k)}) for k in (2, 5, 2)]
    if r != [6, 15, 6]:
        out.violation('C10:mapping-handlers:fresh-tables', f'fresh handler tables per call gave {r!r}, expected [6, 15, 6]', {})
    return n


def threads_run(rng, out):
    """several threads convert concurrently; results must equal the sequential ones"""
    from pane.convert import make_converter, from_data
    from pane.errors import ConvertError
    jobs = []
    for _ in range(24):
        term = gen.g_type(rng, 2, {'weights': {'tagged': 0.0}})
        try:
            b = terms.build(term, rng)
        except terms.Unsupported:
            continue
        jobs.append((b.py, gen.g_valid(rng, term, 2)))

    def work(py, v):
        with warnings.catch_warnings():
            warnings.simplefilter('ignore')
            try:
                return ('ok', canon(from_data(v, py)))
            except ConvertError as e:
                return ('error', str(e)[:100])
            except Exception as e:
                return ('escape', type(e).__name__ + str(e)[:60])
    results = [None] * (len(jobs) * 4)

    def runner(idx, py, v):
        results[idx] = work(py, v)
    ths = []
    for rep in range(4):
        for j, (py, v) in enumerate(jobs):
            ths.append(threading.Thread(target=runner, args=(rep * len(jobs) + j, py, v)))
    rng.shuffle(ths)
    for th in ths:
        th.start()
    for th in ths:
        th.join()
    seq = [work(py, v) for py, v in jobs]
    for rep in range(4):
        for j in range(len(jobs)):
            if results[rep * len(jobs) + j] != seq[j]:
                out.violation('C10:threads:result-differs', f'concurrent from_data({jobs[j][1]!r}, {jobs[j][0]!r}) = {results[rep * len(jobs) + j]!r}, sequential = {seq[j]!r}', {})
                return len(ths)
    # the LRU KeyCache under contention: values correct, size bounded
    from pane.util import KeyCache
    kc = KeyCache(lambda k: 2 * k + 1, lambda k: k, maxsize=3)
    bad = []

    def hammer(seed):
        r = random.Random(seed)
        for _ in range(400):
            k = r.randint(0, 7)
            if kc(k) != 2 * k + 1:
                bad.append(k)
    hs = [threading.Thread(target=hammer, args=(s,)) for s in range(8)]
    for h in hs:
        h.start()
    for h in hs:
        h.join()
    if bad or len(kc.cache) > 3:
        out.violation('C10:threads:lru-corrupted', f'LRU KeyCache under 8 threads: wrong values for keys {bad[:5]}, size {len(kc.cache)}', {})
    return len(ths) + 8 * 400


def failed_call_history(out):
    """a conversion / serialisation that FAILS part-way leaves no trace: the same containers, repaired in place, and new ones are
    afterwards treated as if the failed call had never happened -- through into_data, convert, constructors, from_data, the
    writers; for lists, tuples, sets, dicts, nested"""
    import io as _io
    import typing as t
    import pane
    from pane import io as pio
    n = 0

    class Row(pane.PaneBase):
        xs: t.List[float] = pane.field(default_factory=list)
        m: t.Dict[str, int] = pane.field(default_factory=dict)
    bad = object()
    with warnings.catch_warnings():
        warnings.simplefilter('ignore')
        for round_ in range(3):
            lst, dct, nested, st = [1, 2, bad], {'a': 1, 'b': bad}, {'k': [1, [2, bad]]}, [1.0, 'two', 3.0]
            attempts = [('into_data(list)', lambda: pane.into_data(lst)), ('into_data(dict)', lambda: pane.into_data(dct)), ('into_data(nested)', lambda: pane.into_data(nested)),
                        ('convert(list, List[int])', lambda: pane.convert(lst, t.List[int])), ('Row(xs=...)', lambda: Row(xs=st)), ('convert(list, List[float])', lambda: pane.convert(st, t.List[float])),
                        ('from_data(dict)', lambda: pane.from_data({'xs': st}, Row)), ('write_json', lambda: pio.write_json(lst, _io.StringIO())),
                        ('into_data(list, List[int])', lambda: pane.into_data(st, t.List[int]))]
            for label, call in attempts:
                try:
                    call()
                    out.violation('C10:failed-call-history:first-call-succeeded', f'{label} was expected to fail (an object() / a str among numbers) and succeeded', {'call': label})
                except Exception:
                    pass
            # repaired in place: the same objects
            lst[2] = 3
            dct['b'] = 2
            nested['k'][1][1] = 3
            st[1] = 2.0
            later = [('into_data(list)', lambda: pane.into_data(lst), [1, 2, 3]), ('into_data(dict)', lambda: pane.into_data(dct), {'a': 1, 'b': 2}),
                     ('into_data(nested)', lambda: pane.into_data(nested), {'k': [1, [2, 3]]}), ('convert(list, List[int])', lambda: pane.convert(lst, t.List[int]), [1, 2, 3]),
                     ('Row(xs=...)', lambda: Row(xs=st).xs, [1.0, 2.0, 3.0]), ('convert(list, List[float])', lambda: pane.convert(st, t.List[float]), [1.0, 2.0, 3.0]),
                     ('from_data(dict)', lambda: pane.from_data({'xs': st}, Row).xs, [1.0, 2.0, 3.0]), ('convert(tuple)', lambda: pane.convert(tuple(lst), t.Tuple[int, ...]), (1, 2, 3)),
                     ('fresh containers', lambda: pane.into_data([[1], {'a': [2]}, (3,)]), [[1], {'a': [2]}, (3,)]),
                     ('write_json', lambda: (lambda b: (pio.write_json(lst, b), b.getvalue().replace(' ', '').strip())[1])(_io.StringIO()), '[1,2,3]')]
            for label, call, want in later:
                n += 1
                try:
                    got = call()
                except Exception as e:
                    out.violation(f'C10:failed-call-history:{type(e).__name__}', f'{label} on containers repaired after an earlier FAILED call (round {round_ + 1}) raised {type(e).__name__}: {str(e)[:120]}; '
                                  f'without that history it gives {want!r}', {'call': label})
                    continue
                if got != want and list(got) != list(want):
                    out.violation('C10:failed-call-history', f'{label} after an earlier failed call gives {got!r}, without that history {want!r}', {'call': label})
            import gc
            del lst, dct, nested, st
            gc.collect()
    return n


def typekey_correspondence(ctx, out, rng):
    """Model/TypeKey.v against typing and pane: == of typing objects, pane's ordered key, and which specialisations of one fresh
    generic dataclass are the same class object; on pane, every specialisation's field type has exactly the written structure"""
    import collections
    import typing as t
    import pane
    import typekey as tk
    thorough = ctx['tier'] == 'thorough'
    try:
        from pane.classes import _ordered_type_key
    except ImportError:
        out.oblige('corr_typekey', False, 'pane.classes._ordered_type_key is gone: the key of the subclass cache cannot be read')
        out.violation('C10:corr_typekey:no-key-function', 'pane.classes._ordered_type_key does not exist any more', {'correspondence': 'corr_typekey'}, no_input=True)
        return
    pairs, seqs, stats, dropped = [], [], collections.Counter(), 0
    for _ in range(3000 if thorough else 500):
        a = tk.gen_tx(rng, 3)
        b = tk.twin(rng, a) if rng.random() < 0.6 else tk.gen_tx(rng, 3)
        try:
            pa, pb = tk.to_py(a), tk.to_py(b)
            ok = tk.same_structure(tk.from_py(pa), a) and tk.same_structure(tk.from_py(pb), b)
        except Exception:
            ok = False
        if not ok:
            dropped += 1
            continue
        try:
            oeq, okeq = bool(pa == pb), bool(_ordered_type_key(pa) == _ordered_type_key(pb))
        except Exception as e:
            out.violation(f'C10:typekey:{type(e).__name__}', f'_ordered_type_key({pa!r}) / ({pb!r}) raised {type(e).__name__}: {str(e)[:120]}', {'a': repr(pa), 'b': repr(pb)})
            continue
        stats[('==' if oeq else '!=') + (' same-key' if okeq else ' other-key') + (' same-text' if tk.same_structure(a, b) else ' other-text')] += 1
        pairs.append(f'({tk.to_coq(a)}, {tk.to_coq(b)}, {"true" if oeq else "false"}, {"true" if okeq else "false"})')
    T = t.TypeVar('T')
    with warnings.catch_warnings():
        warnings.simplefilter('ignore')
        for _ in range(600 if thorough else 120):
            class G(pane.PaneBase, t.Generic[T]):
                u: T
            base = [tk.gen_tx(rng, 3) for _ in range(3)]
            ps = []
            for _ in range(rng.randint(2, 7)):
                x = rng.choice(base)
                ps.append(tk.twin(rng, x) if rng.random() < 0.6 else x)
            try:
                pys = [tk.to_py(p) for p in ps]
                ok = all(tk.same_structure(tk.from_py(y), p) for y, p in zip(pys, ps))
            except Exception:
                ok = False
            if not ok:
                dropped += 1
                continue
            try:
                classes = [G[y] for y in pys]
            except Exception as e:
                out.violation(f'C10:typekey:subscript:{type(e).__name__}', f'G[...] over {pys!r} raised {type(e).__name__}: {str(e)[:120]}', {'parameters': repr(pys)})
                continue
            out.evaluations += len(classes)
            for i, (p, y, c) in enumerate(zip(ps, pys, classes)):
                ft = c.__pane_info__.fields[0].type
                try:
                    same = tk.same_structure(tk.from_py(ft), p)
                except Exception:
                    same = False
                if not same:
                    out.violation('C10:subclass-cache-not-transparent', f'specialisations {pys[:i + 1]!r} of one generic dataclass, in this order: the field of G[{y!r}] has type {ft!r}, '
                                  'not the parameter it was subscripted with (member / value order of an earlier, ==-equal parameter)', {'parameters': repr(pys[:i + 1])})
                    break
            obs = [next(j for j, c in enumerate(classes) if c is classes[i]) for i in range(len(classes))]
            seqs.append(f'([{"; ".join(tk.to_coq(p) for p in ps)}], [{"; ".join(str(o) for o in obs)}])')
    out.evaluations += len(pairs)
    out.extra['typekey'] = {'pairs': len(pairs), 'sequences': len(seqs), 'dropped (typing interned another spelling)': dropped, 'distribution': dict(sorted(stats.items()))}
    if any(f in ctx['failed_files'] for f in ('Model/TypeKey.v', 'Run/AgreeTypeKey.v')):
        out.oblige('corr_typekey', False, 'type-key model does not build')
        return
    header = 'From Coq Require Import ZArith List Bool.\nImport ListNotations.\nRequire Import Model.TypeKey Run.AgreeTypeKey.\n'
    bad1, errs1 = run_shards(PROP, 'tkpair', header, pairs, lambda it: it, per=400, final='pair_mismatches', ty='list pair_case')
    bad2, errs2 = run_shards(PROP, 'tkseq', header, seqs, lambda it: it, per=200, final='seq_mismatches', ty='list seq_case')
    errs = errs1 + errs2
    out.oblige('corr_typekey: Model/TypeKey.v = typing == / pane._ordered_type_key / identity of G[...] classes', not bad1 and not bad2 and not errs,
               f'{len(bad1)} pair mismatches over {len(pairs)}, {len(bad2)} sequence mismatches over {len(seqs)}, {len(errs)} shard errors')
    for e in errs[:1]:
        out.violation('C10:corr_typekey:shard-error', 'shard failed: ' + e[:400], {'correspondence': 'corr_typekey', 'error': e[:1500]}, no_input=True)
    if (bad1 or bad2) and not out.has_unlisted_input():
        eg = pairs[bad1[0]] if bad1 else seqs[bad2[0]]
        out.violation('C10:corr_typekey', f'type-key model and pane / typing disagree on {len(bad1)} pair(s) and {len(bad2)} sequence(s), e.g. {eg[:300]}',
                      {'correspondence': 'corr_typekey', 'case': eg[:1500]}, no_input=True)


def equal_valued_types(out):
    """types that are different types but whose PARTS compare equal as Python values -- Literal[1] / Literal[True] / Literal[1.0],
    Literal[0] / Literal[False], the same inside List[...], Optional[...] and as a dataclass field: the outcome of converting a
    probe to B after A was used (in this order and the reverse, every ordered pair) is the outcome B gives with an empty
    converter cache."""
    import typing as t
    import pane
    from pane.convert import make_converter
    cache = getattr(make_converter, 'cache', None)
    if not isinstance(cache, dict):
        return 0
    n = 0
    groups = [[t.Literal[1], t.Literal[True], t.Literal[1.0]], [t.Literal[0], t.Literal[False]], [t.Literal[1, 2], t.Literal[True, 2]],
              [t.Literal['a', 1], t.Literal['a', True]]]
    probes = [1, True, 1.0, 0, False, 0.0, 2, 'a', None]

    def wraps(L):
        class Holder(pane.PaneBase):
            v: L
        return [(L, lambda p: p), (t.List[L], lambda p: [p]), (t.Optional[L], lambda p: p), (t.Dict[str, L], lambda p: {'k': p}), (Holder, lambda p: {'v': p})]

    def outcomes(T, mk):
        res = []
        for p in probes:
            try:
                r = pane.from_data(mk(p), T)
                res.append(('ok', repr(r)))
            except pane.ConvertError:
                res.append(('error',))
            except Exception as e:
                res.append(('escape', type(e).__name__))
        return res
    saved = dict(cache)
    try:
        with warnings.catch_warnings():
            warnings.simplefilter('ignore')
            for g in groups:
                forms = [wraps(L) for L in g]
                for k in range(len(forms[0])):
                    col = [f[k] for f in forms]
                    solo = []
                    for T, mk in col:
                        cache.clear()
                        solo.append(outcomes(T, mk))
                    for i, (A, mkA) in enumerate(col):
                        for j, (B, mkB) in enumerate(col):
                            if i == j:
                                continue
                            n += 1
                            cache.clear()
                            outcomes(A, mkA)
                            got = outcomes(B, mkB)
                            if got != solo[j]:
                                d = [(probes[x], got[x], solo[j][x]) for x in range(len(probes)) if got[x] != solo[j][x]][0]
                                out.violation('C10:equal-valued-types', f'after conversions to {A!r}, from_data({mkB(d[0])!r}, {B!r}) gives {d[1]}; with an empty converter cache it gives {d[2]}: '
                                              f'the two types are different types whose parts compare equal', {'first': repr(A), 'then': repr(B), 'probe': repr(d[0])})
    finally:
        cache.clear()
        cache.update(saved)
    return n


def run(ctx, out):
    import families as _famadh
    out.evaluations += _famadh.argument_dependent_handlers(out, PROP)
    import families as _fameq
    out.evaluations += _fameq.equal_but_distinct_family(out, PROP)
    import families as _famgp
    out.evaluations += _famgp.generic_parameter_twins(out, PROP)
    import families as _fam
    out.evaluations += _fam.same_class_union_serialisation(out, PROP)
    rng = random.Random(ctx['seed'])
    thorough = ctx['tier'] == 'thorough'
    out.rule = ('(1) random call histories (keys 0-5, length 1-40) on the real KeyCache, unbounded and maxsize 1-4, compared call by '
                'call with the Coq state machine inside coqc: result, whether the inner function ran, keys held in order (LRU: linked '
                'list walked from the root); (2) Build / Convert / Drop / GC histories on the real make_converter without keeping the '
                'type objects alive: every memoised answer (expected(), verdict and value on probe values) is compared with a converter '
                'built by the unmemoised function; (3) first-seen order reversed; (4) 96 threads converting concurrently vs sequential, '
                'and an LRU KeyCache hammered by 8 threads. Non-trivial = history longer than 3 operations.')
    out.evaluations += failed_call_history(out)
    out.evaluations += equal_valued_types(out)
    typekey_correspondence(ctx, out, rng)
    # (1)
    items = []
    n_hist = 600 if not thorough else 6000
    for i in range(n_hist):
        m = rng.choice([0, 0, 1, 2, 3, 4])
        keys, obs = keycache_history(rng, m, rng.randint(1, 40))
        items.append((m, keys, obs))
        out.case(('kc', m, tuple(keys)), nontrivial=len(keys) > 3)
    out.sample({'maxsize': items[0][0], 'keys': items[0][1], 'observed': [list(o) for o in items[0][2]][:6]})
    if 'Run/AgreeCache.v' in ctx['failed_files'] or 'Model/Cache.v' in ctx['failed_files']:
        out.oblige('corr_keycache', False, 'cache model does not build')
    else:
        bad, errs = run_shards(PROP, 'cache', 'From Coq Require Import List.\nImport ListNotations.\nRequire Import Run.AgreeCache.\n', items,
                               lambda it: render_cache_case(*it), per=300, final='cache_mismatches', ty='list cache_case')
        out.oblige('corr_keycache: model KeyCache = pane.util.KeyCache on every generated call history', not bad and not errs,
                   f'{len(bad)} mismatches over {len(items)} histories, {len(errs)} shard errors')
        for e in errs[:1]:
            out.violation('C10:corr_keycache:shard-error', 'shard failed: ' + e[:400], {'correspondence': 'corr_keycache', 'error': e[:1500]}, no_input=True)
        for i in bad[:1]:
            m, keys, obs = items[i]
            want = [2 * k + 1 for k in keys]
            got = [o[0] for o in obs]
            if got != want:
                out.violation('C10:keycache:wrong-value', f'KeyCache(maxsize={m or None}) history {keys}: results {got} != {want}', {'maxsize': m, 'keys': keys})
            elif m and any(len(o[2]) > m for o in obs):
                out.violation('C10:keycache:size-exceeded', f'KeyCache(maxsize={m}) holds more than {m} keys in history {keys}', {'maxsize': m, 'keys': keys})
            else:
                out.violation('C10:corr_keycache', f'model and KeyCache(maxsize={m or None}) disagree on history {keys} (results are correct; '
                              f'difference in recomputation / eviction order): observed {obs}', {'correspondence': 'corr_keycache', 'maxsize': m, 'keys': keys, 'observed': [list(o) for o in obs]}, no_input=True)
    # (2) - (4)
    n = 0
    for h in range(6 if not thorough else 60):
        n += history_run(rng, 120 if not thorough else 300, out, 'history')
    n += order_independence(rng, out)
    n += handler_placement(out)
    n += mapping_handlers_history(out)
    n += threads_run(rng, out)
    out.evaluations += n
    out.extra['converter_lookups_compared'] = n


def replay(rep, out):
    print(rep['what'])
    print(rep['replay'])
    return 0
