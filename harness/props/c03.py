"""C03 -- fast path and diagnostic path always agree."""
import convprop
import gen
from terms import term_head

PROP = 'C03'
COQ_TARGETS = ['Props/C03.vo'] + convprop.CONV_TARGETS
GEN = convprop.MODEL_TABLES


def monitor(c):
    out = []
    head = term_head(c.term)
    t, k = c.try_obs, c.col_obs
    if t[0] == 'build-error':
        return out
    if t[0] == 'ok' and k[0] == 'tree':
        out.append((f'C03:{head}:accepted-with-tree', f'try_convert accepted {c.value!r} for {c.built.py!r} but collect_errors returned {k[1]!r}', None))
    if t[0] == 'reject' and k[0] == 'none':
        out.append((f'C03:{head}:rejected-without-tree', f'try_convert rejected {c.value!r} for {c.built.py!r} but collect_errors returned None', None))
    fd = c.fd_obs
    if fd and fd[0] == 'escape' and isinstance(fd[1], RuntimeError) and 'bug' in str(fd[1]):
        out.append((f'C03:{head}:runtime-bug', f'from_data({c.value!r}, {c.built.py!r}) raised the internal RuntimeError: {fd[1]}', None))
    if fd and fd[0] == 'error' and getattr(fd[1], 'tree', None) is None:
        out.append((f'C03:{head}:error-without-tree', f'ConvertError without a tree for {c.value!r}', None))
    if fd and ((fd[0] == 'ok') != (t[0] == 'ok')) and t[0] in ('ok', 'reject') and fd[0] in ('ok', 'error'):
        out.append((f'C03:{head}:from_data-vs-try', f'from_data and try_convert disagree on {c.value!r} for {c.built.py!r}', None))
    return out


def run(ctx, out):
    import families as _famsm
    out.evaluations += _famsm.struct_mapping_family(out, PROP)
    import families as _fam
    out.evaluations += _fam.construction_paths_family(out, PROP)
    out.rule = ('grammar-directed types (depth <= 3 quick / 4 thorough) x values from three streams (valid from the type / one or two '
                'type-blind edits of a valid value / arbitrary); both passes called directly on the converter and through from_data. '
                'Non-trivial = non-leaf type; distinct by (type term, value).')
    convprop.run(ctx, out, PROP, monitor, cfg={'weights': {'cond': 2.0, 'tagged': 1.2, 'class': 2.2, 'std': 1.5}, 'enum_tuple': True}, extra_cases=lambda rng: convprop.cases_from_pairs(gen.tagged_shape_cases(rng), rng, 'tagged-shapes') + convprop.cases_from_pairs(gen.std_kind_cases(rng), rng, 'library-types') + convprop.cases_from_pairs(gen.raising_predicate_cases(rng), rng, 'raising-predicates') + convprop.cases_from_pairs(gen.cond_on_converted_cases(rng), rng, 'conditions-on-converted-values') + convprop.cases_from_pairs(gen.degenerate_class_cases(rng), rng, 'degenerate-classes'))


def replay(rep, out):
    print(rep['what'])
    print(rep['replay'])
    return 0
