"""C02 -- strictness: no coercion across value kinds (exhaustive matrix kind x target x context)."""
import warnings

import convcases
import convprop
import terms

PROP = 'C02'
COQ_TARGETS = ['Props/C02.vo'] + convprop.CONV_TARGETS
GEN = convprop.MODEL_TABLES

# several representatives per kind: besides an ordinary one, the values that Python's == identifies with the members of
# the literal and enum targets below (5.0 == 5, (1+0j) == 1 == True, 0 == False) -- a lookup by == must not let them through
REPS = {'none': [None], 'bool': [True, False], 'int': [5, 1, 0], 'float': [2.5, 5.0, 1.0, 0.0], 'complex': [1j, 5 + 0j, 1 + 0j],
        'str': ['x', '5', '1', 'true', 'null', '2.5'], 'bytes': [b'x'], 'bytearray': [bytearray(b'x')], 'list': [[5]], 'tuple': [(5,)], 'dict': [{'x': 5}, {5: 'x'}, {}]}
NUM = {'bool', 'int', 'float', 'complex'}
# the matrix, from the property text (independent of Coq's strict_ok; both are compared with pane)
ACCEPT = {
    'bool': {'bool'}, 'int': {'int', 'bool'}, 'float': {'float', 'int', 'bool'}, 'complex': {'complex', 'float', 'int', 'bool'},
    'str': {'str'}, 'bytes': {'bytes', 'bytearray'}, 'bytearray': {'bytes', 'bytearray'}, 'none': {'none'},
    'list': {'list', 'tuple'}, 'vtuple': {'list', 'tuple'}, 'tuple1': {'list', 'tuple'}, 'set': {'list', 'tuple'},
    'dict': {'dict'}, 'struct_class': {'dict'}, 'tuple_class': {'list', 'tuple'},
    'lit5': {'int'}, 'litx': {'str'}, 'enum_int': {'int', 'bool'}, 'enum_str': {'str'},      # an enum reads its value as the value type does
    'lit1': {'int'}, 'litTrue': {'bool'}, 'enum_bool': {'bool'}, 'enum_one': {'int', 'bool'},
}
# targets that accept only some values of an accepted kind: (target, kind) -> the accepted representatives
MEMBERS = {'lit5': [5], 'litx': ['x'], 'enum_int': [5], 'enum_str': ['x'], 'lit1': [1], 'litTrue': [True], 'enum_bool': [True, False], 'enum_one': [1, 0]}


def targets():
    struct_cls = {'name': terms.fresh_name('S'), 'fields': [{'name': 'x', 'ty': ('scalar', 'int')}], 'opts': {}, 'hook': None}
    tuple_cls = {'name': terms.fresh_name('T'), 'fields': [{'name': 'x', 'ty': ('scalar', 'int')}], 'opts': {'in_format': ('tuple',)}, 'hook': None}
    t = {s: ('scalar', s) for s in ('bool', 'int', 'float', 'complex', 'str', 'bytes', 'bytearray')}
    t.update({
        'none': ('none',), 'list': ('seq', 'list', ('scalar', 'int')), 'vtuple': ('seq', 'tuple', ('scalar', 'int')),
        'tuple1': ('tuple', [('scalar', 'int')], 'typing'), 'set': ('seq', 'set', ('scalar', 'int')),
        'dict': ('dict', ('scalar', 'str'), ('scalar', 'int')), 'struct_class': ('class', struct_cls), 'tuple_class': ('class', tuple_cls),
        'lit5': ('literal', [5]), 'litx': ('literal', ['x']), 'enum_int': ('enum', terms.fresh_name('EI'), [('A', 5), ('B', 6)]),
        'enum_str': ('enum', terms.fresh_name('ES'), [('A', 'x'), ('B', 'y')]),
        'lit1': ('literal', [1]), 'litTrue': ('literal', [True]),
        'enum_bool': ('enum', terms.fresh_name('EB'), [('ON', True), ('OFF', False)]),
        'enum_one': ('enum', terms.fresh_name('EO'), [('ONE', 1), ('ZERO', 0)]),
    })
    return t


def contexts(tt, v):
    """(label, type term, value) for each embedding context"""
    holder = {'name': terms.fresh_name('H'), 'fields': [{'name': 'f', 'ty': tt}], 'opts': {}, 'hook': None}
    key_ctx = []
    try:
        hash(v)
        if tt[0] in ('scalar', 'none', 'literal', 'enum') and tt != ('scalar', 'bytearray'):      # (a bytearray cannot be a key)
            # the key position of a typed mapping (successive keys that == identifies go through one memoised converter)
            key_ctx = [('mapping key', ('dict', tt, ('scalar', 'int')), {v: 1}), ('mapping key in a list', ('seq', 'list', ('dict', tt, ('scalar', 'int'))), [{v: 1}])]
    except TypeError:
        pass
    return key_ctx + [
        ('top', tt, v),
        ('list element', ('seq', 'list', tt), [v]),
        ('mapping value', ('dict', ('scalar', 'str'), tt), {'k': v}),
        ('tuple slot', ('tuple', [tt, ('scalar', 'int')], 'typing'), (v, 1)),
        ('union member', ('union', [('literal', ['__other__']), tt]), v),
        ('optional', ('union', [tt, ('none',)]), v) if tt != ('none',) else ('optional', ('union', [tt, ('literal', ['__o__'])]), v),
        ('dataclass field', ('class', holder), {'f': v}),
        ('struct field', ('struct', [('f', tt)]), {'f': v}),
    ]


def matrix_cases(rng):
    out = []
    for tname, tt in targets().items():
        for kname, vs in REPS.items():
          for vi, v in enumerate(vs):
            if kname == 'dict' and vi > 0 and 'dict' in ACCEPT[tname]:
                continue        # the extra mappings ({5: 'x'}, {}) are for the targets that must refuse every mapping
            for label, term, val in contexts(tt, v):
                try:
                    b = terms.build(term, rng)
                except terms.Unsupported:
                    continue
                c = convcases.Case(term, b, val, 'matrix')
                want = kname in ACCEPT[tname]
                if want and tname in MEMBERS:
                    if tname.startswith('enum'):
                        want = any(m == v for m in MEMBERS[tname])       # after the value type's own (kind-strict) conversion
                    else:
                        want = any(type(m) is type(v) and m == v for m in MEMBERS[tname])
                if label == 'optional' and kname == 'none':
                    want = True
                c.extra['cell'] = (tname, kname, label, want)
                out.append(c)
    return out


def monitor(c):
    out = []
    cell = c.extra.get('cell')
    if not cell or c.fd_obs is None:
        return out
    tname, kname, label, want = cell
    got = c.fd_obs[0]
    if got == 'escape':
        out.append((f'C02:{tname}<-{kname}:escape', f'{label}: from_data({c.value!r}, {c.built.py!r}) raised {c.fd_obs[1]!r}', None))
    elif (got == 'ok') != want:
        what = 'accepted' if got == 'ok' else 'rejected'
        res = f' -> {c.fd_obs[1]!r}' if got == 'ok' else ''
        out.append((f'C02:{tname}<-{kname}', f'{label}: a {kname} value {c.value!r} is {what} as {c.built.py!r}{res}; the strictness matrix says {"accept" if want else "reject"}', {'cell': list(cell)}))
    elif got == 'ok' and label == 'top' and tname in ('bool', 'int', 'float', 'complex', 'str'):
        r = c.fd_obs[1]
        pyt = {'bool': bool, 'int': int, 'float': float, 'complex': complex, 'str': str}[tname]
        if type(r) is not pyt or r != c.value:
            out.append((f'C02:{tname}<-{kname}:value-changed', f'{c.value!r} converted to {r!r} of {type(r).__name__}', None))
    return out


def byteslike_never_elementwise(out):
    """text and bytes-like values are never read element by element: str, bytes, bytearray and memoryview offered to every
    sequence / set / tuple target (alone, as list element, as dataclass field) are refused"""
    import typing as t
    import collections.abc
    import pane
    n = 0

    class Row(pane.PaneBase, in_format=('tuple', 'struct')):
        a: int
        b: int = 0
    targets = [t.List[int], t.List[str], t.Sequence[int], t.Tuple[int, ...], t.Tuple[int, int], t.Set[int], t.FrozenSet[int], t.Deque[int], list, tuple,
               collections.abc.Sequence, t.List[t.Any], Row, t.Optional[t.List[int]], t.Union[t.List[int], int]]
    values = [('str', 'ab'), ('bytes', b'ab'), ('bytearray', bytearray(b'ab')), ('memoryview', memoryview(b'ab')), ('memoryview of a bytearray', memoryview(bytearray(b'ab')))]
    with warnings.catch_warnings():
        warnings.simplefilter('ignore')
        for T in targets:
            for kname, v in values:
                for label, TT, vv in (('top', T, v), ('list element', t.List[T], [v]), ('mapping value', t.Dict[str, T], {'k': v})):
                    n += 1
                    try:
                        r = pane.from_data(vv, TT)
                    except pane.ConvertError:
                        continue
                    except Exception as e:
                        out.violation(f'C02:byteslike:{kname}:escape', f'{label}: from_data({vv!r}, {TT!r}) raised {type(e).__name__}: {str(e)[:120]}', {'target': repr(TT), 'kind': kname})
                        continue
                    if T in (t.List[t.Any], list, tuple, collections.abc.Sequence) and kname == 'str':
                        pass
                    out.violation(f'C02:byteslike:{kname}:read-elementwise', f'{label}: a {kname} value {vv!r} is accepted as {TT!r} -> {r!r}; text and bytes are never read as sequences',
                                  {'target': repr(TT), 'kind': kname})
    return n


def mixed_enum_membership(out):
    """an enum whose member values have several types is read through the union of those types; a member is then matched by value
    AND type: 1.0 is not the member valued 1, (1+0j) is not the member valued 1.0 (a bool is read as the int it is)"""
    import enum
    import typing as t
    import pane
    n = 0

    class EM(enum.Enum):
        ONE = 1
        HALVES = 2.5

    class EC(enum.Enum):
        UNIT = 1.0
        IMAG = 2j

    class ES(enum.Enum):
        ONE = 1
        TEXT = 'one'

    class Holder(pane.PaneBase):
        e: EM = EM.ONE
    table = [(EM, 1, EM.ONE), (EM, True, EM.ONE), (EM, 2.5, EM.HALVES), (EM, 1.0, None), (EM, 2, None), (EM, (1 + 0j), None), (EM, '1', None),
             (EC, 1.0, EC.UNIT), (EC, 1, EC.UNIT), (EC, 2j, EC.IMAG), (EC, (1 + 0j), None), (EC, True, EC.UNIT),
             (ES, 1, ES.ONE), (ES, 'one', ES.TEXT), (ES, 1.0, None), (ES, True, ES.ONE)]
    with warnings.catch_warnings():
        warnings.simplefilter('ignore')
        for E, v, want in table:
            ctxs = [('top', E, v, lambda r: r), ('list element', t.List[E], [v], lambda r: r[0]), ('mapping value', t.Dict[str, E], {'k': v}, lambda r: r['k']),
                    ('mapping key', t.Dict[E, int], {v: 1}, lambda r: next(iter(r)))]
            if E is EM:
                ctxs.append(('dataclass field', Holder, {'e': v}, lambda r: r.e))
            for label, T, data, pick in ctxs:
                n += 1
                try:
                    got = pick(pane.from_data(data, T))
                except pane.ConvertError:
                    got = None
                except Exception as e:
                    out.violation(f'C02:mixed-enum:{type(e).__name__}', f'{label}: from_data({data!r}, {T!r}) raised {type(e).__name__}: {str(e)[:120]}', {'enum': E.__name__, 'value': repr(v)})
                    continue
                if got is not want:
                    out.violation('C02:mixed-enum', f'{label}: {v!r} ({type(v).__name__}) as {E.__name__} with member values {[m.value for m in E]} gives {got!r}; '
                                  f'{"it is the member " + repr(want) if want is not None else "no member has that value AND type"}', {'enum': E.__name__, 'value': repr(v), 'context': label})
    return n


def equal_neighbours(out):
    """strictness does not depend on the neighbours: two values that == identifies but that have different kinds (1, True, 1.0,
    (1+0j); 0, False, 0.0, -0.0, 0j; '1') side by side in ONE container -- list, variadic and fixed tuple, set, mapping values, mapping
    keys, dataclass fields -- in both orders.  The container is accepted exactly when each element is accepted alone, and each
    element of the result is what that element gives alone (same class, same repr)."""
    import typing as t
    import pane
    n = 0
    vals = [0, 1, True, False, 1.0, 0.0, -0.0, (1 + 0j), 0j, '1', '', None, 2]

    def alone(v, T):
        try:
            r = pane.from_data(v, T)
            return ('ok', type(r).__name__, repr(r))
        except pane.ConvertError:
            return ('error',)
        except Exception as e:
            return ('escape', type(e).__name__)
    with warnings.catch_warnings():
        warnings.simplefilter('ignore')
        for T in (int, float, bool, complex, str):
            class Pair(pane.PaneBase, in_format=('struct', 'tuple')):
                p: T
                q: T
            single = {i: alone(v, T) for i, v in enumerate(vals)}
            for i, a in enumerate(vals):
                for j, b in enumerate(vals):
                    if i == j:
                        continue
                    shapes = [('list', t.List[T], [a, b], list), ('variadic tuple', t.Tuple[T, ...], [a, b], list), ('fixed tuple', t.Tuple[T, T], [a, b], list),
                              ('mapping values', t.Dict[str, T], {'p': a, 'q': b}, lambda r: list(r.values())),
                              ('dataclass fields', Pair, {'p': a, 'q': b}, lambda r: [r.p, r.q]), ('dataclass, positional', Pair, [a, b], lambda r: [r.p, r.q])]
                    for label, TT, vv, elems in shapes:
                        n += 1
                        want_ok = single[i][0] == 'ok' and single[j][0] == 'ok'
                        try:
                            r = pane.from_data(vv, TT)
                        except pane.ConvertError:
                            if want_ok:
                                out.violation(f'C02:equal-neighbours:{label}:refused', f'{label}: from_data({vv!r}, {TT!r}) is refused although each element is accepted as {T.__name__} alone',
                                              {'target': repr(TT), 'value': repr(vv)})
                            continue
                        except Exception as e:
                            out.violation(f'C02:equal-neighbours:{label}:{type(e).__name__}', f'{label}: from_data({vv!r}, {TT!r}) raised {type(e).__name__}: {str(e)[:120]}', {'target': repr(TT), 'value': repr(vv)})
                            continue
                        if not want_ok:
                            bad = a if single[i][0] != 'ok' else b
                            out.violation(f'C02:equal-neighbours:{label}', f'{label}: from_data({vv!r}, {TT!r}) = {r!r} is accepted, but {bad!r} ({type(bad).__name__}) is refused as {T.__name__} on its own: '
                                          f'an element is never coerced because a neighbour that compares equal was accepted', {'target': repr(TT), 'value': repr(vv)})
                            continue
                        got = [('ok', type(x).__name__, repr(x)) for x in elems(r)]
                        if got != [single[i], single[j]]:
                            out.violation(f'C02:equal-neighbours:{label}:value', f'{label}: from_data({vv!r}, {TT!r}) = {r!r}; alone the elements give {single[i][2]} and {single[j][2]}',
                                          {'target': repr(TT), 'value': repr(vv)})
    return n


def failed_calls_first():
    """a history of FAILED conversions through every entry point (strictness may not depend on what was attempted before)"""
    import io as _io
    import typing as t
    import pane
    from pane import io as pio

    class _C(pane.PaneBase):
        m: t.Dict[int, str] = pane.field(default_factory=dict)
    calls = [lambda: pio.from_json(_io.StringIO('{"a": "x"}'), t.Dict[int, int]), lambda: pio.from_json(_io.StringIO('[1, "x"]'), t.List[int]),
             lambda: pio.from_yaml(_io.StringIO('a: x'), t.Dict[int, int]), lambda: _C.from_jsons('{"m": {"k": 1}}'), lambda: _C.from_yamls('m: {k: 1}'),
             lambda: _C.from_json(_io.StringIO('{"m": 5}')), lambda: pane.convert({'a': 'x'}, t.Dict[int, int]), lambda: _C(m={'k': 1}),
             lambda: pane.from_data({'a': 'x'}, t.Dict[float, int]), lambda: pane.into_data(object()), lambda: pio.from_json(_io.StringIO('{"a"'), int)]
    n = 0
    with warnings.catch_warnings():
        warnings.simplefilter('ignore')
        for c in calls:
            try:
                c()
            except Exception:
                n += 1
    return n


def run(ctx, out):
    out.extra['failed_calls_before_the_matrix'] = failed_calls_first()
    import families as _famsm
    out.evaluations += _famsm.struct_mapping_family(out, PROP)
    out.evaluations += mixed_enum_membership(out)
    out.evaluations += byteslike_never_elementwise(out)
    out.evaluations += equal_neighbours(out)
    import families as _fam2
    out.evaluations += _fam2.scalar_subclass_family(out, PROP)
    import families, random as _random
    out.evaluations += families.noninit_tuple_family(out, PROP, _random.Random(ctx['seed']))
    out.rule = ('EXHAUSTIVE: 23 targets (7 scalars, None, list, variadic tuple, fixed tuple, set, mapping, struct dataclass, tuple-layout '
                'dataclass, int/str/bool literals, int/str/bool enums) x 11 value kinds (22 representatives, including the numbers that == '
                'identifies with literal and enum members) x 10 embedding contexts (mapping key, mapping key inside a list, top, list element, mapping value, '
                'tuple slot, union member, Optional, dataclass field, struct field); every cell compared with the matrix written from '
                'the property text and, through corr_convert, with the Coq model. The random stream of the other checks is not used.')
    out.exhaustive = True
    convprop.run(ctx, out, PROP, monitor, extra_cases=matrix_cases, sizes={'quick': (0, 0, 1), 'thorough': (0, 0, 1)})


def replay(rep, out):
    print(rep['what'])
    print(rep['replay'])
    return 0
