"""C14 -- dataclass construction is conversion; defaults are fresh; set-fields exact; __post_init__ always runs."""
import itertools
import random
import warnings

import convcases
import convprop
import gen
import terms
from terms import term_head
from props.c05 import canon, class_issues, known_cause

PROP = 'C14'
COQ_TARGETS = ['Props/C14.vo'] + convprop.CONV_TARGETS
GEN = convprop.MODEL_TABLES

HOOK_RUNS = []


def class_cases(rng, n):
    """dataclass definitions x subsets of supplied fields"""
    out = []
    for _ in range(n):
        spec = gen.g_class(rng, 2, {'weights': {'tagged': 0.0}})
        term = ('class', spec)
        try:
            with warnings.catch_warnings():
                warnings.simplefilter('ignore')
                terms.clear_typing_caches()
                b = terms.build(term, rng)
        except terms.Unsupported:
            continue
        except TypeError:
            continue
        fields = [f for f in spec['fields'] if not f.get('kw_marker')]
        # all subsets of the optional fields (<= 4 fields -> <= 16 subsets), required ones always supplied
        opt = [f for f in fields if 'default' in f]
        req = [f for f in fields if 'default' not in f]
        subsets = list(itertools.chain.from_iterable(itertools.combinations(opt, r) for r in range(len(opt) + 1)))
        rng.shuffle(subsets)
        for sub in subsets[:6]:
            vals = {f['name']: gen.g_valid(rng, f['ty'], 2) for f in req + list(sub)}
            c = convcases.Case(term, b, vals, 'fields')
            c.extra['spec'] = spec
            out.append(c)
    return out


def monitor(c):
    import pane
    from pane.errors import ConvertError
    out = []
    spec = c.extra.get('spec')
    if spec is None or c.term[0] != 'class':
        return out
    cls = c.built.py
    info = cls.__pane_info__
    vals = c.value            # {python field name: data value}
    head = 'class'
    issues = class_issues(c.term)

    def attempt(f):
        with warnings.catch_warnings():
            warnings.simplefilter('ignore')
            try:
                return ('ok', f())
            except ConvertError as e:
                return ('error', e)
            except Exception as e:
                return ('escape', e)
    by_ctor = attempt(lambda: cls(**vals))
    results = {'ctor': by_ctor}
    if 'struct' in info.opts.in_format:
        results['mapping'] = attempt(lambda: cls.from_data(dict(vals)))
    # by position: only when the supplied fields are a prefix of the positional fields
    pos = [f.name for f in info.fields if f.init and not f.kw_only]
    supplied_pos = [n for n in pos if n in vals]
    if set(vals) <= set(pos) and supplied_pos == pos[:len(supplied_pos)]:
        seq = [vals[n] for n in supplied_pos]
        results['ctor-positional'] = attempt(lambda: cls(*seq))
        if 'tuple' in info.opts.in_format:
            results['sequence'] = attempt(lambda: cls.from_data(list(seq)))
            results['sequence-tuple'] = attempt(lambda: cls.from_data(tuple(seq)))
    oks = {k: v for k, v in results.items() if v[0] == 'ok'}
    verdicts = {k: v[0] for k, v in results.items()}
    # a hook failure is an exception from the constructor and a ConvertError on the data paths: both "not ok"
    if len({v == 'ok' for v in verdicts.values()}) > 1:
        cause = known_cause(c.term, issues, wrapped=False)
        if cause is None and any(v[0] == 'escape' and not isinstance(v[1], (TypeError, ValueError)) for v in results.values()):
            cause = None
        out.append((f'C14:paths-disagree:{cause or "class"}', f'{cls.__name__} with fields {vals!r}: ' + ', '.join(f'{k}: {v[0]}' for k, v in results.items()) +
                    '; ' + '; '.join(f'{k}: {str(v[1])[:120]}' for k, v in results.items() if v[0] != 'ok'), None))
        return out
    for k, v in results.items():
        if v[0] == 'escape' and k in ('mapping', 'sequence', 'sequence-tuple'):
            out.append((f'C14:data-path-raises:{type(v[1]).__name__}', f'{k} path raised {type(v[1]).__name__}: {v[1]} for {vals!r}', None))
    if not oks:
        return out
    ref_name, ref = next(iter(oks.items()))
    for k, v in oks.items():
        if canon(v[1]) != canon(ref[1]) and 'FNan' not in canon(ref[1]):
            out.append(('C14:paths-give-different-instances', f'{k}: {v[1]!r} vs {ref_name}: {ref[1]!r}', None))
        got_set = set(v[1].dict(set_only=True).keys())
        if got_set != set(vals):
            out.append((f'C14:set-record:{k}', f'{k} path: dict(set_only=True) has {sorted(got_set)}, supplied fields are {sorted(vals)}', None))
    # defaults: equal to the declared default / a fresh product of the factory, never the factory itself, never shared
    from pane.field import _MISSING
    x = ref[1]
    for k, v in oks.items():
        inst = v[1]
        for f in info.fields:
            if not f.init or f.name in vals:
                continue
            val = getattr(inst, f.name, _MISSING)
            if val is _MISSING:
                out.append((f'C14:default-missing:{k}', f'{k} path: field {f.name} was not supplied and is not set', None))
            elif f.default_factory is not None:
                if val is f.default_factory:
                    out.append((f'C14:factory-stored:{k}', f'{k} path: field {f.name} holds the default factory itself', None))
                elif canon(val) != canon(f.default_factory()):
                    out.append((f'C14:factory-product-wrong:{k}', f'{k} path: field {f.name} = {val!r}, factory gives {f.default_factory()!r}', None))
            elif f.default is not _MISSING and canon(val) != canon(f.default):
                out.append((f'C14:default-wrong:{k}', f'{k} path: field {f.name} = {val!r}, default is {f.default!r}', None))
    if len(oks) >= 2:
        insts = [v[1] for v in oks.values()]
        for f in info.fields:
            if f.init and f.name not in vals and f.default_factory is not None:
                a, b = getattr(insts[0], f.name), getattr(insts[1], f.name)
                if a is b and isinstance(a, (list, dict, set, bytearray)):
                    out.append(('C14:factory-product-shared', f'field {f.name}: two instances share one mutable default object', None))
    # supplied arguments are converted exactly as from_data would for the field type
    inst = by_ctor[1] if by_ctor[0] == 'ok' else None
    if inst is not None:
        types = {f.name: f.type for f in info.fields}
        for n, v in vals.items():
            with warnings.catch_warnings():
                warnings.simplefilter('ignore')
                try:
                    want = pane.from_data(v, types[n])
                except Exception:
                    continue
            if canon(getattr(inst, n)) != canon(want) and 'FNan' not in canon(want):
                out.append(('C14:ctor-arg-not-converted', f'{cls.__name__}({n}={v!r}) stored {getattr(inst, n)!r}, from_data gives {want!r}', None))
        # make_unchecked stores arguments verbatim
        sentinel = {n: [object()] for n in vals}
        try:
            raw = cls.make_unchecked(**sentinel)
            for n in vals:
                if getattr(raw, n) is not sentinel[n]:
                    out.append(('C14:make_unchecked-not-verbatim', f'make_unchecked changed the argument for {n}', None))
        except Exception as e:
            if spec.get('hook') is None:
                out.append((f'C14:make_unchecked-raises:{type(e).__name__}', f'make_unchecked raised {e}', None))
    return out[:3]


def hook_always(rng, out):
    """__post_init__ runs once for every instance created, on every path; a failure is a ConvertError on data paths"""
    import pane
    import copy
    from pane.errors import ConvertError
    runs = []

    class H(pane.PaneBase, in_format=('struct', 'tuple')):
        a: int
        b: int = 5

        def __post_init__(self):
            runs.append(self.a)
            if self.a < 0:
                raise ValueError('negative')
    paths = {
        'ctor': lambda: H(1), 'ctor-kw': lambda: H(a=1, b=2), 'mapping': lambda: H.from_data({'a': 1}),
        'sequence': lambda: H.from_data([1, 2]), 'make_unchecked': lambda: H.make_unchecked(1),
        'from_dict_unchecked': lambda: H.from_dict_unchecked({'a': 1, 'b': 2}), 'from_obj': lambda: H.from_obj({'a': 1}),
        'copy': lambda: copy.copy(H(1)), 'deepcopy': lambda: copy.deepcopy(H(1)), 'replace': lambda: H(1).__replace__(b=3),
        'from_json': lambda: H.from_jsons('{"a": 1}'), 'from_yaml': lambda: H.from_yamls('a: 1'),
    }
    expect = {'copy': 2, 'deepcopy': 2, 'replace': 2}
    n = 0
    for name, f in paths.items():
        del runs[:]
        n += 1
        f()
        if len(runs) != expect.get(name, 1):
            out.violation(f'C14:post_init-runs:{name}', f'{name}: __post_init__ ran {len(runs)} time(s), expected {expect.get(name, 1)}', {'path': name})
    for name, f in {'mapping': lambda: H.from_data({'a': -1}), 'sequence': lambda: H.from_data([-1]), 'from_json': lambda: H.from_jsons('{"a": -1}'),
                    'from_obj': lambda: H.from_obj({'a': -1})}.items():
        n += 1
        try:
            f()
            out.violation(f'C14:post_init-failure-ignored:{name}', f'{name}: a failing __post_init__ did not fail the conversion', {'path': name})
        except ConvertError as e:
            if 'negative' not in str(e):
                out.violation(f'C14:post_init-failure-without-cause:{name}', f'{name}: ConvertError without the hook\'s message: {str(e)[:200]}', {'path': name})
        except Exception as e:
            out.violation(f'C14:post_init-failure-escapes:{name}', f'{name}: hook failure surfaced as {type(e).__name__}: {e}', {'path': name})
    return n


def run(ctx, out):
    import families as _famsm
    out.evaluations += _famsm.struct_mapping_family(out, PROP)
    import families as _fampb
    out.evaluations += _fampb.positional_bounds_family(out, PROP)
    import families as _fam
    out.evaluations += _fam.construction_paths_family(out, PROP)
    import families, random as _random
    out.evaluations += families.noninit_tuple_family(out, PROP, _random.Random(ctx['seed']))
    out.rule = ('generated dataclass definitions (field types, defaults / factories, keyword-only marker, aliases / in_names / rename, '
                'class rename styles, layouts, hooks) x subsets of supplied fields (required always, every subset of the optional ones, '
                '<= 6 per class) x construction path (constructor by keyword, by position, mapping data, list data, tuple data): same '
                'verdict, equal instances, dict(set_only=True) == supplied, defaults / fresh factory products, arguments converted as '
                'from_data would, make_unchecked verbatim; plus a fixed class whose hook counts its runs on 12 creation paths.')
    n_classes = 120 if ctx['tier'] == 'quick' else 1500
    convprop.run(ctx, out, PROP, monitor, extra_cases=lambda rng: class_cases(rng, n_classes),
                 sizes={'quick': (60, 3, 3), 'thorough': (600, 3, 3)}, cfg={'weights': {'class': 8.0}})
    out.evaluations += hook_always(random.Random(ctx['seed']), out)


def replay(rep, out):
    print(rep['what'])
    print(rep['replay'])
    return 0
