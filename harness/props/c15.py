"""C15 -- dataclass data layouts and field-name resolution."""
import itertools
import random
import warnings

import convcases
import convprop
import terms
from common import run_shards, coq_str
from props.c05 import canon

PROP = 'C15'
COQ_TARGETS = ['Props/C15.vo', 'Run/AgreeNames.vo'] + convprop.CONV_TARGETS
GEN = convprop.MODEL_TABLES + ['GenRename']
STYLE = {'snake': 'Snake', 'scream': 'Scream', 'kebab': 'Kebab', 'camel': 'Camel', 'pascal': 'Pascal'}


# ---------------------------------------------------------------- (1) name derivation, exhaustive

def name_configs():
    names = ['a', 'my_field', 'ab_cd_ef']
    specs = [dict(), dict(rename='x'), dict(aliases=['p']), dict(aliases=['p', 'NAME']), dict(in_names=['q', 'r']), dict(out_name='o'),
             dict(rename='x', out_name='o'), dict(aliases=['p'], out_name='o'), dict(in_names=['q'], out_name='o'),
             dict(rename='x', aliases=['p']), dict(rename='x', in_names=['q']), dict(aliases=['p'], in_names=['q']),
             # a bare string is ONE name (aliases= and in_names= alike), not one name per character
             dict(aliases='pq'), dict(in_names='qr'), dict(in_names='qr', out_name='o')]
    in_renames = [None, ['camel'], ['snake', 'kebab'], ['pascal', 'scream', 'camel']]
    out_renames = [None, 'camel', 'pascal', 'scream', 'kebab', 'snake']
    for n, sp, ir, orr in itertools.product(names, specs, in_renames, out_renames):
        sp = dict(sp)
        if 'aliases' in sp and not isinstance(sp['aliases'], str):
            sp['aliases'] = [n if a == 'NAME' else a for a in sp['aliases']]
        yield n, sp, ir, orr


def observe_names(n, sp, ir, orr):
    from pane.field import FieldSpec
    try:
        f = FieldSpec(**sp).make_field(n, tuple(ir) if ir is not None else None, orr)
        return ('ok', list(f.in_names), f.out_name)
    except TypeError:
        return ('TypeError',)
    except ValueError:
        return ('ValueError',)


def render_names(n, sp, ir, orr, obs):
    def ostr(x):
        return 'None' if x is None else f'(Some {coq_str(x)})'

    def olist(x):
        x = [x] if isinstance(x, str) else x
        return 'None' if x is None else '(Some [' + '; '.join(coq_str(s) for s in x) + '])'
    spec = f'(mkSpec {ostr(sp.get("rename"))} {olist(sp.get("in_names"))} {olist(sp.get("aliases"))} {ostr(sp.get("out_name"))})'
    irc = 'None' if ir is None else '(Some [' + '; '.join(STYLE[s] for s in ir) + '])'
    orc = 'None' if orr is None else f'(Some {STYLE[orr]})'
    if obs[0] == 'ok':
        o = '(MFOk [' + '; '.join(coq_str(s) for s in obs[1]) + f'] {coq_str(obs[2])})'
    else:
        o = 'MF' + obs[0]
    return f'({coq_str(n)}, {spec}, {irc}, {orc}, {o})'


def names_spec(n, sp, ir, orr):
    """independent reading of the documentation of field(...) and the class rename options"""
    from props.c20 import canonical
    ws = n.split('_')
    given = [k for k in ('rename', 'aliases', 'in_names') if k in sp]
    if len(given) > 1:
        return ('TypeError',)
    out = sp.get('out_name') or sp.get('rename') or (canonical(ws, orr) if orr else n)
    base = [canonical(ws, s) for s in ir] if ir is not None else [n]
    one = lambda x: [x] if isinstance(x, str) else list(x)      # noqa: E731
    if 'rename' in sp:
        ins = [sp['rename']]
    elif 'aliases' in sp:
        ins = base + [a for a in one(sp['aliases']) if a not in base]
    elif 'in_names' in sp:
        ins = one(sp['in_names'])
    else:
        ins = base
    return ('ok', ins, out)


# ---------------------------------------------------------------- (2) the binding decision table, exhaustive on a class family

def family():
    """3-field classes: a (required), b (default 7), c (keyword-only, default 'z'); naming and layout variants"""
    import pane
    out = []
    naming = [
        ('plain', {}, {}),
        ('aliases', {}, {'a': dict(aliases=['A', 'alpha'])}),
        ('in_names', {}, {'a': dict(in_names=['alpha'])}),
        ('rename', {}, {'a': dict(rename='alpha')}),
        ('out_name', {}, {'b': dict(out_name='beta')}),
        ('class-camel', {'rename': 'camel'}, {}),
        ('class-in-kebab+snake', {'in_rename': ('kebab', 'snake'), 'out_rename': 'kebab'}, {}),
    ]
    layouts = [('struct', {}), ('both', {'in_format': ('struct', 'tuple')}), ('tuple-only', {'in_format': ('tuple',), 'out_format': 'tuple'}),
               ('both-out-tuple', {'in_format': ('tuple', 'struct'), 'out_format': 'tuple'})]
    extras = [False, True]
    for (nl, copts, fopts), (ll, lopts), ae in itertools.product(naming, layouts, extras):
        opts = dict(copts)
        opts.update(lopts)
        if ae:
            opts['allow_extra'] = True
        first = 'my_a' if 'class' in nl else 'a'
        ns = {'__annotations__': {first: int, 'b': int, '_': pane.KW_ONLY, 'c': str}}
        ns[first] = pane.field(**fopts.get('a', {})) if 'a' in fopts else None
        if ns[first] is None:
            del ns[first]
        ns['b'] = pane.field(default=7, **fopts.get('b', {}))
        ns['c'] = 'z'
        try:
            import types as pytypes
            cls = pytypes.new_class(terms.fresh_name('Fam'), (pane.PaneBase,), opts, lambda d: d.update(ns))
        except TypeError:
            continue
        terms.KEEP.append(cls)
        out.append((f'{nl}/{ll}/{"extra" if ae else "strict"}', cls, first))
    return out


def table_check(out):
    import pane
    from pane.errors import ConvertError
    n = 0
    for label, cls, first in family():
        info = cls.__pane_info__
        fa = next(f for f in info.fields if f.name == first)
        fb = next(f for f in info.fields if f.name == 'b')
        a_keys = list(dict.fromkeys([fa.name, *fa.in_names]))
        tuple_in = 'tuple' in info.opts.in_format
        struct_in = 'struct' in info.opts.in_format
        ae = info.opts.allow_extra

        def expect(verdict, data, why):
            nonlocal n
            n += 1
            with warnings.catch_warnings():
                warnings.simplefilter('ignore')
                try:
                    x = cls.from_data(data)
                    got = ('ok', x)
                except ConvertError as e:
                    got = ('error', e)
                except Exception as e:
                    got = ('escape', e)
            if got[0] == 'escape':
                out.violation(f'C15:{why}:escape', f'{label}: from_data({data!r}) raised {got[1]!r}', {'class': label, 'data': repr(data)})
                return None
            if (got[0] == 'ok') != verdict:
                out.violation(f'C15:{why}', f'{label}: from_data({data!r}) is {"accepted" if got[0] == "ok" else "rejected"}; the decision table says '
                              f'{"accept" if verdict else "reject"} ({why}); in_names(a)={fa.in_names!r}, in_format={info.opts.in_format!r}, allow_extra={ae}'
                              + (f': {str(got[1])[:150]}' if got[0] == 'error' else ''), {'class': label, 'data': repr(data)})
                return None
            return got[1] if got[0] == 'ok' else None
        # every input name of `a` binds it (mapping layout)
        for k in a_keys:
            x = expect(struct_in, {k: 1}, 'key-is-an-input-name')
            if x is not None and getattr(x, first) != 1:
                out.violation('C15:key-bound-to-wrong-field', f'{label}: {{{k!r}: 1}} gave {x!r}', {'class': label})
        # a name that is not an input name does not bind (unknown key): rejected, or ignored -> then `a` is missing
        for k in ('ALPHA', 'a_', first.upper() + 'x'):
            if k not in a_keys:
                expect(False, {k: 1}, 'unknown-key-and-missing-required')
                expect(struct_in and ae, {a_keys[0]: 1, k: 1}, 'unknown-key-vs-allow_extra')
        # two keys naming the same field
        if len(a_keys) > 1:
            expect(False, {a_keys[0]: 1, a_keys[1]: 2}, 'duplicate-field')
        # missing required field
        expect(False, {fb.in_names[0]: 3}, 'missing-required')
        expect(False, {}, 'missing-required')
        # value kinds
        expect(False, {a_keys[0]: 'text'}, 'field-value-of-wrong-kind')
        # sequences: only real sequences, only when the tuple layout is enabled, length within [required, positional]
        for seq, ok_len in (([], False), ([1], True), ([1, 2], True), ([1, 2, 'q'], False), ((1,), True), ((1, 2), True)):
            x = expect(tuple_in and ok_len, seq, 'sequence-length-or-layout')
            if x is not None and (getattr(x, first), x.b) != (seq[0], seq[1] if len(seq) > 1 else 7):
                out.violation('C15:positional-binding-order', f'{label}: {seq!r} gave {x!r}', {'class': label})
        for bad in ('ab', b'ab', 5, None, 2.5):
            expect(False, bad, 'non-container-value')
        # output: configured layout, output names, no excluded fields
        x = expect(struct_in, {a_keys[0]: 1}, 'key-is-an-input-name')
        if x is None and tuple_in:
            x = expect(True, [1], 'sequence-length-or-layout')
        if x is not None:
            d = pane.into_data(x, cls)
            if info.opts.out_format == 'tuple':
                if not isinstance(d, tuple) or len(d) != 3:
                    out.violation('C15:output-layout', f'{label}: into_data gave {d!r}, expected a 3-tuple', {'class': label})
            else:
                want = [f.out_name for f in info.fields if not f.exclude]
                if not isinstance(d, dict) or list(d) != want:
                    out.violation('C15:output-names', f'{label}: into_data keys {list(d) if isinstance(d, dict) else d!r}, expected {want}', {'class': label})
    return n


def run(ctx, out):
    import families as _famsm
    out.evaluations += _famsm.struct_mapping_family(out, PROP)
    import families as _fampb
    out.evaluations += _fampb.positional_bounds_family(out, PROP)
    import families, random as _random
    out.evaluations += families.noninit_tuple_family(out, PROP, _random.Random(ctx['seed']))
    out.rule = ('(1) EXHAUSTIVE name derivation: 3 field names x 15 field-option sets (rename / aliases / in_names / out_name and the refused '
                'combinations) x 4 class input-style lists x 6 output styles = 1080 cells, FieldSpec.make_field compared with the Coq model '
                'inside coqc and with an independent reading of the documentation; (2) EXHAUSTIVE decision table on a 3-field class family '
                '(7 naming configurations x 4 layout configurations x allow_extra): every input name binds, other names do not, duplicates, '
                'unknown keys vs allow_extra, missing required, wrong value kind, sequences by length and layout, text / bytes / scalars, '
                'output layout and names; (3) the random class stream of corr_convert.')
    out.exhaustive = True
    items = []
    for n, sp, ir, orr in name_configs():
        obs = observe_names(n, sp, ir, orr)
        want = names_spec(n, sp, ir, orr)
        out.case(('names', n, repr(sp), repr(ir), orr), nontrivial=bool(sp) or ir is not None or orr is not None)
        if obs != want:
            out.violation(f'C15:names:{"+".join(sorted(sp)) or "none"}', f'make_field({n!r}, {sp!r}, in_rename={ir!r}, out_rename={orr!r}) = {obs!r}, documented: {want!r}',
                          {'name': n, 'options': sp, 'in_rename': ir, 'out_rename': orr})
        items.append((n, sp, ir, orr, obs))
    out.sample({'name': items[40][0], 'options': items[40][1], 'in_rename': items[40][2], 'out_rename': items[40][3], 'observed': items[40][4]})
    if any(f in ctx['failed_files'] for f in ('Model/FieldNames.v', 'Run/AgreeNames.v', 'Model/Rename.v')) or 'GenRename' in ctx['broken_tables']:
        out.oblige('corr_names', False, 'name model does not build')
    else:
        bad, errs = run_shards(PROP, 'names', 'From Coq Require Import List String.\nImport ListNotations.\nRequire Import Base.Styles Model.FieldNames Run.AgreeNames.\nOpen Scope string_scope.\n',
                               items, lambda it: render_names(*it), per=300, final='names_mismatches', ty='list names_case')
        out.oblige('corr_names: model make_field_names = FieldSpec.make_field on all 1080 configurations', not bad and not errs,
                   f'{len(bad)} mismatches, {len(errs)} shard errors')
        for e in errs[:1]:
            out.violation('C15:corr_names:shard-error', 'shard failed: ' + e[:400], {'correspondence': 'corr_names', 'error': e[:1500]}, no_input=True)
        if bad and not out.has_unlisted_input():
            it = items[bad[0]]
            out.violation('C15:corr_names', f'model and pane disagree on name derivation for {it[:4]!r}: pane {it[4]!r}', {'correspondence': 'corr_names', 'case': repr(it)}, no_input=True)
    out.evaluations += table_check(out)
    convprop.run(ctx, out, PROP, lambda c: [], cfg={'naming_density': 2.5, 'weights': {'class': 10.0}}, sizes={'quick': (150, 4, 3), 'thorough': (3000, 5, 3)})


def replay(rep, out):
    print(rep['what'])
    print(rep['replay'])
    return 0
