"""C20 -- field renaming: canonical, injective, idempotent, reversible, refusing."""
import itertools
import random

from common import run_shards, coq_str, ident_vocab

PROP = 'C20'
COQ_TARGETS = ['Props/C20.vo', 'Run/AgreeRename.vo']
GEN = ['GenRename']
STYLES = ['snake', 'scream', 'kebab', 'camel', 'pascal']
COQ_STYLE = {'snake': 'Snake', 'scream': 'Scream', 'kebab': 'Kebab', 'camel': 'Camel', 'pascal': 'Pascal'}


def canonical(ws, style):
    cap = lambda w: w[0].upper() + w[1:]
    return {'snake': '_'.join(ws), 'scream': '_'.join(w.upper() for w in ws), 'kebab': '-'.join(ws),
            'camel': ws[0] + ''.join(cap(w) for w in ws[1:]), 'pascal': ''.join(cap(w) for w in ws)}[style]


def rename(name, style):
    from pane.field import rename_field
    try:
        return rename_field(name, style)
    except ValueError:
        return None


def word_lists(tier, rng):
    """words over {a,b} of length 2-3 (exhaustive), 1-3 words; plus longer random words over a-z"""
    words = [''.join(p) for n in (2, 3) for p in itertools.product('ab', repeat=n)]
    out = [[w] for w in words] + [list(p) for p in itertools.product(words, repeat=2)]
    triples = [list(p) for p in itertools.product(words, repeat=3)]
    if tier == 'quick':
        out += rng.sample(triples, 300)
    else:
        out += triples
    # real words (keywords, builtins, conventional names): alone, doubled, and paired with an ordinary word on either side
    vocab = ident_vocab()
    out += [[w] for w in vocab] + [[w, w] for w in vocab] + [[w, 'ab'] for w in vocab] + [['ab', w] for w in vocab]
    alpha = 'abcdefghijklmnopqrstuvwxyz'
    for _ in range(200 if tier == 'quick' else 3000):
        out.append([''.join(rng.choice(alpha) for _ in range(rng.randint(2, 7))) for _ in range(rng.randint(1, 5))])
    return out


def malformed_names(tier):
    out = []
    for n in range(0, 6 if tier == 'thorough' else 5):
        for p in itertools.product('ab_-', repeat=n):
            s = ''.join(p)
            if s == '' or s[0] in '_-' or s[-1] in '_-' or any(a in '_-' and b in '_-' for a, b in zip(s, s[1:])):
                out.append(s)
    # the same malformations around real words: a trailing underscore after a keyword is still a trailing separator
    for w in ident_vocab():
        out += [w + '_', '_' + w, w + '__', '__' + w, '__' + w + '__', w + '-', '-' + w, w + '__' + w, w + '_-' + w, w + '_' + w + '_', '_' + w + '_' + w]
    return out


def check_name(ws, out, cases):
    """Monitor: the property itself on the implementation, for one snake_case identifier."""
    n = '_'.join(ws)
    styled = {}
    for s in STYLES:
        m = rename(n, s)
        styled[s] = m
        cases.append((n, s, m))
        want = canonical(ws, s)
        if m != want:
            out.violation(f'C20:canonical:{s}', f"rename_field({n!r}, {s!r}) = {m!r}, canonical spelling is {want!r}",
                          {'name': n, 'style': s, 'got': m, 'want': want})
            continue
        again = rename(m, s)
        cases.append((m, s, again))
        if again != m:
            out.violation(f'C20:idempotent:{s}', f"rename_field({m!r}, {s!r}) = {again!r} (re-applying a style changed its own output)",
                          {'name': n, 'style': s, 'styled': m, 'again': again})
        back = rename(m, 'snake')
        cases.append((m, 'snake', back))
        if back != n:
            out.violation(f'C20:reversible:{s}', f"rename_field({m!r}, 'snake') = {back!r}, original was {n!r}",
                          {'name': n, 'style': s, 'styled': m, 'back': back})
    return styled



def class_key_checks(out, rng):
    """the keys of instance.dict(rename=S) are the canonical S-spellings of the Python field names, whatever the class's own
    rename options and the fields' explicit names are; the keys of into_data() under a class-level out_rename=S are the canonical
    S-spellings for fields without explicit names"""
    import types as pytypes
    import pane
    import terms
    n = 0
    canon = {'snake': lambda ws: '_'.join(ws), 'scream': lambda ws: '_'.join(w.upper() for w in ws), 'kebab': lambda ws: '-'.join(ws),
             'camel': lambda ws: ws[0] + ''.join(w.title() for w in ws[1:]), 'pascal': lambda ws: ''.join(w.title() for w in ws)}
    names = [['user', 'name'], ['user', 'id'], ['home', 'dir'], ['x']]
    for cls_style in [None] + STYLES:
        for explicit in (False, True):
            ann = {'_'.join(ws): int for ws in names}
            ns = {'__annotations__': ann}
            for i, ws in enumerate(names):
                ns['_'.join(ws)] = i
            if explicit:
                ns['user_id'] = pane.field(default=1, rename='uid')
                ns['home_dir'] = pane.field(default=2, out_name='user-name' if cls_style != 'kebab' else 'uName', in_names=['home_dir'])
            opts = {} if cls_style is None else {'rename': cls_style}
            try:
                cls = pytypes.new_class(terms.fresh_name('Rk'), (pane.PaneBase,), opts, lambda d: d.update(ns))
            except Exception:
                continue
            terms.KEEP.append(cls)
            x = cls()
            for s in STYLES:
                for set_only in (False, True):
                    n += 1
                    inst = cls(**{'_'.join(ws): 5 for ws in names}) if set_only else x
                    got = list(inst.dict(rename=s, set_only=set_only).keys())
                    want = [canon[s](ws) for ws in names]
                    if sorted(got) != sorted(want) or (not set_only and got != want):
                        out.violation('C20:dict-rename-keys', f'class rename={cls_style!r}, explicit field names={explicit}: dict(rename={s!r}, set_only={set_only}) has keys '
                                      f'{got}, expected the canonical {s} spellings {want}', {'class_style': cls_style, 'style': s, 'explicit': explicit})
            if cls_style is not None and not explicit:
                n += 1
                got = list(x.into_data().keys())
                want = [canon[cls_style](ws) for ws in names]
                if got != want:
                    out.violation('C20:into_data-keys', f'class rename={cls_style!r}: into_data() has keys {got}, expected {want}', {'class_style': cls_style})
    return n


def run(ctx, out):
    rng = random.Random(ctx['seed'])
    tier = ctx['tier']
    cases = []
    images = {s: {} for s in STYLES}
    wl = word_lists(tier, rng)
    for ws in wl:
        styled = check_name(ws, out, cases)
        n = '_'.join(ws)
        out.case(n, nontrivial=len(ws) > 1)
        for s, m in styled.items():
            if m is None:
                continue
            other = images[s].setdefault(m, n)
            if other != n:
                out.violation(f'C20:injective:{s}', f"{other!r} and {n!r} both rename to {m!r} under {s!r}",
                              {'names': [other, n], 'style': s, 'image': m})
    # style pairs (implementation only)
    for ws in wl[: (400 if tier == 'quick' else len(wl))]:
        n = '_'.join(ws)
        for s in STYLES:
            m = rename(n, s)
            if m is None:
                continue
            for s2 in STYLES:
                a, b = rename(m, s2), rename(n, s2)
                out.evaluations += 1
                if a != b:
                    out.violation(f'C20:pairs:{s}:{s2}', f"rename_field({m!r},{s2!r})={a!r} but rename_field({n!r},{s2!r})={b!r}",
                                  {'name': n, 'via': s, 'to': s2, 'got': a, 'want': b})
    out.evaluations += class_key_checks(out, rng)
    mal = malformed_names(tier)
    for n in mal:
        for s in STYLES:
            m = rename(n, s)
            cases.append((n, s, m))
            out.case('mal:' + n, nontrivial=len(n) > 1)
            if m is not None:
                out.violation(f'C20:refuses:{s}', f"rename_field({n!r}, {s!r}) returned {m!r} instead of raising ValueError",
                              {'name': n, 'style': s, 'got': m})
    # unexpected exception classes are violations too (rename() only catches ValueError)
    out.sample({'name': 'ab_ba', 'renamed': {s: rename('ab_ba', s) for s in STYLES}})
    out.sample({'name': '_ab', 'renamed': {s: rename('_ab', s) for s in STYLES}})
    out.rule = ("snake_case identifiers: all 1-2 word names and (thorough: all / quick: 300 sampled) 3-word names over words "
                "{a,b}^2..3, plus random a-z words; every style, re-application, back-conversion, injectivity per style, style "
                "pairs; all separator-malformed strings over {a,b,_,-} up to length 4 (quick) / 5 (thorough). Non-trivial = "
                "multi-word identifier or malformed name of length > 1; distinct by name.")
    out.exhaustive = tier == 'thorough'

    # ---- Tie 2: correspondence, evaluated inside Coq
    uniq = list(dict.fromkeys(cases))

    def render(c):
        n, s, m = c
        obs = 'None' if m is None else f'(Some {coq_str(m)})'
        return f'({coq_str(n)}, {COQ_STYLE[s]}, {obs})'
    ascii_ok = [c for c in uniq if all(ord(ch) < 128 for ch in c[0]) and (c[2] is None or all(32 <= ord(ch) < 127 for ch in c[2]))]
    if 'Run/AgreeRename.v' in ctx['failed_files'] or 'Model/Rename.v' in ctx['failed_files'] or 'GenRename' in ctx['broken_tables']:
        out.oblige('corr_rename', False, 'model does not build')
        return
    bad, errs = run_shards(PROP, 'rename', 'From Coq Require Import String List.\nImport ListNotations.\nRequire Import Base.Styles Run.AgreeRename.\nOpen Scope string_scope.',
                           ascii_ok, render, per=1500, final='rename_mismatches', ty='list (string * style * option string)')
    out.extra['correspondence_cases'] = len(ascii_ok)
    out.oblige('corr_rename: model rename_field = pane.field.rename_field on every generated (name, style)', not bad and not errs,
               f'{len(bad)} mismatches, {len(errs)} shard errors')
    for e in errs:
        out.violation('C20:corr:shard-error', 'correspondence shard failed: ' + e, {'correspondence': 'corr_rename', 'error': e}, no_input=True)
    if bad and not out.has_unlisted_input():
        i = bad[0]
        out.violation('C20:corr_rename', f'model and implementation disagree on {ascii_ok[i]!r} ({len(bad)} cases) but no property failure found',
                      {'correspondence': 'corr_rename', 'case': ascii_ok[i], 'n_mismatch': len(bad)}, no_input=True)


def replay(rep, out):
    r = rep['replay']
    print('replay', r)
    if 'name' in r and 'style' in r:
        print('rename_field ->', rename(r['name'], r['style']))
    return 0
