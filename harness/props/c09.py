"""C09 -- conversion never mutates its input."""
import copy
import warnings

import convcases
import convprop
import gen
import terms
from terms import term_head

PROP = 'C09'
COQ_TARGETS = ['Props/C09.vo'] + convprop.CONV_TARGETS
GEN = convprop.MODEL_TABLES + ['GenMut']

LOG = []


def _mut(name):
    def f(self, *a, **k):
        LOG.append((name, type(self).__name__, id(self)))
        return getattr(super(type(self), self), name)(*a, **k)
    f.__name__ = name
    return f


class IDict(dict):
    """a dict (every isinstance gate behaves identically) that records mutating method calls"""
    for _n in ('__setitem__', '__delitem__', 'pop', 'popitem', 'clear', 'update', 'setdefault', '__ior__'):
        locals()[_n] = _mut(_n)
    del _n


class IList(list):
    for _n in ('__setitem__', '__delitem__', 'append', 'extend', 'insert', 'pop', 'remove', 'clear', 'sort', 'reverse', '__iadd__', '__imul__'):
        locals()[_n] = _mut(_n)
    del _n


def instrument(v):
    if type(v) is dict:
        d = IDict()
        for k, x in v.items():
            dict.__setitem__(d, k, instrument(x))
        return d
    if type(v) is list:
        l = IList()
        for x in v:
            list.append(l, instrument(x))
        return l
    if type(v) is tuple:
        return tuple(instrument(x) for x in v)
    return v


def snapshot(v):
    """deep structural snapshot incl. container classes and bytearray contents"""
    if isinstance(v, dict):
        return ('dict', type(v).__name__, tuple((snapshot(k), snapshot(x)) for k, x in v.items()))
    if isinstance(v, (list, tuple)):
        return (type(v).__name__, tuple(snapshot(x) for x in v))
    if isinstance(v, (set, frozenset)):
        return (type(v).__name__, tuple(sorted(map(repr, v))))
    if isinstance(v, bytearray):
        return ('bytearray', bytes(v))
    if isinstance(v, float) and v != v:
        return 'nan'
    try:
        import pane
        if isinstance(v, pane.PaneBase):
            return ('inst', type(v).__name__, tuple((f.name, snapshot(getattr(v, f.name, None))) for f in type(v).__pane_info__.fields),
                    tuple(sorted(getattr(v, '__pane_set__', ()))))
    except Exception:
        pass
    return (type(v).__name__, repr(v))


def run_guarded(label, head, value, fn, out, what):
    """call fn(instrumented copy of value); report mutator calls on the input and snapshot differences"""
    iv = instrument(copy.deepcopy(value)) if not _has_inst(value) else value
    before = snapshot(iv)
    del LOG[:]
    with warnings.catch_warnings():
        warnings.simplefilter('ignore')
        try:
            fn(iv)
            verdict = 'ok'
        except Exception as e:
            verdict = type(e).__name__
    calls = list(LOG)
    del LOG[:]
    if calls:
        out.append((f'C09:{head}:{label}:mutator-called:{calls[0][0]}', f'{what}: {calls[0][0]} was called on a {calls[0][1]} of the input ({verdict}); value {value!r}', {'calls': [c[:2] for c in calls]}))
    after = snapshot(iv)
    if after != before:
        out.append((f'C09:{head}:{label}:input-changed', f'{what}: the input changed ({verdict}); before {before!r} after {after!r}', None))


def _has_inst(v):
    import pane
    if isinstance(v, pane.PaneBase):
        return True
    if isinstance(v, dict):
        return any(_has_inst(k) or _has_inst(x) for k, x in v.items())
    if isinstance(v, (list, tuple, set, frozenset)):
        return any(_has_inst(x) for x in v)
    return False


def monitor(c):
    import pane
    from pane.convert import make_converter
    out = []
    if c.try_obs is None or c.try_obs[0] == 'build-error':
        return out
    head = term_head(c.term)
    T = c.built.py
    conv = make_converter(T)
    run_guarded('from_data', head, c.value, lambda v: pane.from_data(v, T), out, f'from_data(v, {T!r})')
    run_guarded('collect_errors', head, c.value, lambda v: conv.collect_errors(v), out, f'collect_errors for {T!r}')
    run_guarded('convert', head, c.value, lambda v: pane.convert(v, T), out, f'convert(v, {T!r})')
    if c.fd_obs and c.fd_obs[0] == 'ok':
        x = c.fd_obs[1]
        run_guarded('into_data', head, x, lambda v: conv.into_data(v), out, f'into_data(x, {T!r})')
        run_guarded('convert-typed', head, x, lambda v: pane.convert(v, T), out, f'convert(x, {T!r})')
    if c.term[0] == 'class' and isinstance(c.value, dict) and all(isinstance(k, str) and k.isidentifier() for k in c.value):
        run_guarded('constructor', head, c.value, lambda v: T(**v), out, f'{T.__name__}(**v)')
    if c.term[0] == 'class' and isinstance(c.value, (list, tuple)):
        run_guarded('constructor', head, c.value, lambda v: T(*v), out, f'{T.__name__}(*v)')
    return out[:2]



def defaultdict_inputs(out):
    """mappings that create an entry when a missing key is INDEXED (collections.defaultdict is a dict): reading a key that may be
    absent must test for it first.  Every mapping-reading converter is given such inputs with the keys it looks for absent."""
    import collections
    import typing as t
    import pane
    from pane.annotations import Tagged
    n = 0

    class A(pane.PaneBase):
        kind: t.Literal['a'] = 'a'
        x: int = 0

    class B(pane.PaneBase):
        kind: t.Literal['b'] = 'b'

    class P(pane.PaneBase, allow_extra=True):
        x: int = 0
        name: str = 'n'
    types = [('internally tagged', t.Annotated[t.Union[A, B], Tagged('kind')]), ('externally tagged', t.Annotated[t.Union[A, B], Tagged('kind', external=True)]),
             ('adjacently tagged', t.Annotated[t.Union[A, B], Tagged('kind', external=('t', 'c'))]), ('dataclass', P), ('struct type', {'x': int, 'name': str}),
             ('Dict[str, int]', t.Dict[str, int]), ('Optional[dataclass]', t.Optional[P])]
    contents = [{}, {'p': 1}, {'p': 1, 'q': 2}, {'kind': 'zzz'}, {'x': 1}, {'t': 'a'}, {'c': {}, 'other': 1}, {'a': {}}, {'p': 1, 'q': 2, 'r': 3}]
    factories = [dict, list, int, lambda: 'a']
    for label, ty in types:
        for c in contents:
            for fac in factories:
                n += 1
                d = collections.defaultdict(fac, c)
                before = dict(d)
                for call in (lambda: pane.from_data(d, ty), lambda: pane.convert(d, ty) if False else None):
                    try:
                        with warnings.catch_warnings():
                            warnings.simplefilter('ignore')
                            call()
                    except Exception:
                        pass
                if dict(d) != before:
                    out.violation('C09:defaultdict-input-grew', f'from_data(defaultdict({getattr(fac, "__name__", "factory")}, {before!r}), {label}) left the input as {dict(d)!r}: '
                                  'a key was read by indexing without testing that it is present', {'type': label, 'input': repr(before)})
    return n


def instances_as_input(out):
    """a dataclass instance is the value passed in when it is serialised, copied, re-validated or handed to another constructor:
    into_data / dict (every option) / convert / copy / replace / use as a field value must leave its fields, its set-field record
    and the containers it holds as they were.  Classes with excluded, renamed, init=False and container fields."""
    import typing as t
    import pane
    n = 0

    class Inner(pane.PaneBase):
        tags: t.List[str] = pane.field(default_factory=list)
        meta: t.Dict[str, int] = pane.field(default_factory=dict)

    class Acct(pane.PaneBase, rename='camel'):
        user_name: str
        token: str = pane.field(default='', exclude=True)
        secret_parts: t.List[int] = pane.field(default_factory=list, exclude=True)
        inner: Inner = pane.field(default_factory=Inner)
        note: t.Optional[str] = None
        seq_no: int = pane.field(init=False, default=0)

    class Outer(pane.PaneBase, out_format='tuple', in_format=('tuple', 'struct')):
        acct: Acct
        accts: t.List[Acct] = pane.field(default_factory=list)

    def mk():
        a = Acct('u', token='s3cr3t', secret_parts=[1, 2], inner=Inner(tags=['x'], meta={'k': 1}))
        return [('set excluded fields', a), ('from data', Acct.from_data({'userName': 'v', 'token': 't', 'secretParts': [3]})),
                ('defaults only', Acct('w')), ('nested', Outer(a, [Acct('z', token='q')]))]
    calls = [
        ('dict()', lambda x: x.dict()), ('dict(set_only=True)', lambda x: x.dict(set_only=True)), ("dict(rename='snake')", lambda x: x.dict(rename='snake')),
        ("dict(set_only=True, rename='kebab')", lambda x: x.dict(set_only=True, rename='kebab')), ('into_data()', lambda x: x.into_data()),
        ('pane.into_data(x)', lambda x: pane.into_data(x)), ('pane.into_data(x, type(x))', lambda x: pane.into_data(x, type(x))),
        ('pane.convert(x, type(x))', lambda x: pane.convert(x, type(x))), ('copy.copy', lambda x: copy.copy(x)), ('copy.deepcopy', lambda x: copy.deepcopy(x)),
        ('__replace__()', lambda x: x.__replace__()), ('repr / == / hash', lambda x: (repr(x), x == x, hash(x))),
        ('as a field value of another instance', lambda x: Outer(x) if isinstance(x, Acct) else Outer(x.acct, list(x.accts))),
        ('pane.into_data([x, x])', lambda x: pane.into_data([x, x])),
    ]
    for label, x in mk():
        for cname, call in calls:
            n += 1
            before = snapshot(x)
            with warnings.catch_warnings():
                warnings.simplefilter('ignore')
                try:
                    call(x)
                    verdict = 'ok'
                except Exception as e:
                    verdict = f'{type(e).__name__}: {str(e)[:80]}'
            after = snapshot(x)
            if after != before:
                out.violation(f'C09:instance-changed:{cname}', f'{cname} on {x!r} ({label}; {verdict}) changed the instance: before {before!r}, after {after!r}',
                              {'call': cname, 'instance': repr(x), 'case': label})
                x = dict(mk())[label]
    return n


def run(ctx, out):
    import families as _famsm
    out.evaluations += _famsm.struct_mapping_family(out, PROP)
    out.evaluations += instances_as_input(out)
    out.rule = ('types x values, both verdicts; the value is deep-copied into instrumented dict/list subclasses (still dict/list for every '
                'isinstance gate) that record every mutating method call; from_data, collect_errors, convert, into_data (typed values), '
                'dataclass constructors (*args / **kwargs). Any mutator call on an input object, or a difference of the deep structural '
                'snapshot, is a violation. Tagged-union mappings (tag stripped), aliases, duplicates and extra keys are emphasised. '
                'Non-trivial = non-leaf type.')
    out.evaluations += defaultdict_inputs(out)
    convprop.run(ctx, out, PROP, monitor, cfg={'weights': {'tagged': 4.0, 'class': 3.0, 'dict': 2.0, 'struct': 1.5}}, extra_cases=lambda rng: convprop.cases_from_pairs(gen.tagged_shape_cases(rng), rng, 'tagged-shapes'))


def replay(rep, out):
    print(rep['what'])
    print(rep['replay'])
    return 0
