"""C11 -- untagged unions: the left-most accepting member wins."""
import warnings

import convprop
import terms
from terms import term_head, val_to_coq

PROP = 'C11'
COQ_TARGETS = ['Props/C11.vo'] + convprop.CONV_TARGETS
GEN = convprop.MODEL_TABLES


def same(a, b):
    try:
        return val_to_coq(a) == val_to_coq(b)
    except Exception:
        return a == b and type(a) is type(b)


def member_builds(c):
    ms = c.extra.get('members')
    if ms is None:
        ms = []
        with warnings.catch_warnings():
            warnings.simplefilter('ignore')
            for m in c.term[1]:
                ms.append(terms.build(m))
        c.extra['members'] = ms
    return ms


def monitor(c):
    import pane
    from pane.convert import make_converter
    from pane.errors import ConvertError, ParseInterrupt
    out = []
    if c.term[0] != 'union' or c.fd_obs is None:
        return out
    # the member types exactly as typing kept them in the union object
    import typing as t
    args = [type(None) if a is None else a for a in t.get_args(c.built.py)]
    first = None
    with warnings.catch_warnings():
        warnings.simplefilter('ignore')
        for i, a in enumerate(args):
            try:
                r = pane.from_data(c.value, a)
                first = (i, r)
                break
            except ConvertError:
                continue
            except Exception:
                return out      # an escaping exception is C04's business
    fd = c.fd_obs
    if first is None:
        if fd[0] == 'ok':
            out.append(('C11:accepted-without-member', f'from_data({c.value!r}, {c.built.py!r}) = {fd[1]!r} although no member accepts the value', None))
    else:
        i, r = first
        if fd[0] != 'ok':
            out.append(('C11:rejected-with-member', f'from_data({c.value!r}, {c.built.py!r}) failed although member #{i} {args[i]!r} accepts it', None))
        elif not same(fd[1], r):
            out.append(('C11:not-leftmost', f'from_data({c.value!r}, {c.built.py!r}) = {fd[1]!r} but the left-most accepting member #{i} {args[i]!r} alone gives {r!r}', None))
    # serialisation uses a member that accepts the value
    if fd[0] == 'ok':
        x = fd[1]
        with warnings.catch_warnings():
            warnings.simplefilter('ignore')
            try:
                d = pane.into_data(x, c.built.py)
            except Exception as e:
                out.append((f'C11:into_data:{type(e).__name__}', f'into_data({x!r}, {c.built.py!r}) raised {type(e).__name__}: {e}', None))
                return out
            ok = False
            accepting = 0
            for a in args:
                conv = make_converter(a)
                try:
                    conv.try_convert(x)
                except ParseInterrupt:
                    continue
                except Exception:
                    continue
                accepting += 1
                try:
                    if same(conv.into_data(x), d):
                        ok = True
                        break
                except Exception:
                    continue
            if accepting and not ok:
                out.append(('C11:serialise-non-accepting', f'into_data({x!r}, {c.built.py!r}) = {d!r} is not what any accepting member produces', None))
    return out


def run(ctx, out):
    out.rule = ('unions at top level and nested, 50% drawn from overlap families (int/float/bool/complex, list/tuple, str/Literal, '
                'dict/dataclass, dataclass/dataclass, conditions), x values (valid for a random member / near / arbitrary); the '
                'union result is compared with each member tried alone in declaration order; serialisation compared with the '
                'accepting members. Non-trivial = non-leaf type; distinct by (type term, value).')
    convprop.run(ctx, out, PROP, monitor, twins=True, cfg={'overlap': True, 'weights': {'union': 9.0}})


def replay(rep, out):
    print(rep['what'])
    print(rep['replay'])
    return 0
