"""C11 -- untagged unions: the left-most accepting member wins."""
import warnings

import convprop
import terms
from terms import term_head, val_to_coq

PROP = 'C11'
COQ_TARGETS = ['Props/C11.vo'] + convprop.CONV_TARGETS
GEN = convprop.MODEL_TABLES


def same(a, b):
    try:
        return val_to_coq(a) == val_to_coq(b)
    except Exception:
        return a == b and type(a) is type(b)


def member_builds(c):
    ms = c.extra.get('members')
    if ms is None:
        ms = []
        with warnings.catch_warnings():
            warnings.simplefilter('ignore')
            for m in c.term[1]:
                ms.append(terms.build(m))
        c.extra['members'] = ms
    return ms


def monitor(c):
    import pane
    from pane.convert import make_converter
    from pane.errors import ConvertError, ParseInterrupt
    out = []
    if c.term[0] != 'union' or c.fd_obs is None:
        return out
    # the member types exactly as typing kept them in the union object
    import typing as t
    args = [type(None) if a is None else a for a in t.get_args(c.built.py)]
    first = None
    with warnings.catch_warnings():
        warnings.simplefilter('ignore')
        for i, a in enumerate(args):
            try:
                r = pane.from_data(c.value, a)
                first = (i, r)
                break
            except ConvertError:
                continue
            except Exception:
                return out      # an escaping exception is C04's business
    fd = c.fd_obs
    if first is None:
        if fd[0] == 'ok':
            out.append(('C11:accepted-without-member', f'from_data({c.value!r}, {c.built.py!r}) = {fd[1]!r} although no member accepts the value', None))
    else:
        i, r = first
        if fd[0] != 'ok':
            out.append(('C11:rejected-with-member', f'from_data({c.value!r}, {c.built.py!r}) failed although member #{i} {args[i]!r} accepts it', None))
        elif not same(fd[1], r):
            out.append(('C11:not-leftmost', f'from_data({c.value!r}, {c.built.py!r}) = {fd[1]!r} but the left-most accepting member #{i} {args[i]!r} alone gives {r!r}', None))
    # serialisation uses a member that accepts the value
    if fd[0] == 'ok':
        x = fd[1]
        with warnings.catch_warnings():
            warnings.simplefilter('ignore')
            try:
                d = pane.into_data(x, c.built.py)
            except Exception as e:
                out.append((f'C11:into_data:{type(e).__name__}', f'into_data({x!r}, {c.built.py!r}) raised {type(e).__name__}: {e}', None))
                return out
            ok = False
            accepting = 0
            for a in args:
                conv = make_converter(a)
                try:
                    conv.try_convert(x)
                except ParseInterrupt:
                    continue
                except Exception:
                    continue
                accepting += 1
                try:
                    if same(conv.into_data(x), d):
                        ok = True
                        break
                except Exception:
                    continue
            if accepting and not ok:
                out.append(('C11:serialise-non-accepting', f'into_data({x!r}, {c.built.py!r}) = {d!r} is not what any accepting member produces', None))
    return out



def generic_union_members(out):
    """unions that mention type variables in generic dataclasses: after binding, the members are those of the written union with
    the variables replaced and nested unions flattened IN ORDER, a repeated member keeping its FIRST position; the left-most
    accepting member of that list wins"""
    import typing as t
    import pane
    T, U = t.TypeVar('T'), t.TypeVar('U')
    n = 0

    class A(pane.PaneBase):
        x: int

    class B(pane.PaneBase):
        x: int
        y: int = 0

    class G1(pane.PaneBase, t.Generic[T]):
        u: t.Union[T, int, float]

    class G2(pane.PaneBase, t.Generic[T, U]):
        u: t.Union[T, U]

    class G3(pane.PaneBase, t.Generic[T]):
        u: t.Union[T, B, A]
        us: t.List[t.Union[T, B, A]] = pane.field(default_factory=list)

    class G4(pane.PaneBase, t.Generic[T]):
        u: t.Union[int, T, str, T]
    cases = [
        ('Union[T, int, float][T=float]', G1[float], [float, int], [(3, 3.0), (True, 1.0), (2.5, 2.5)]),
        ('Union[T, int, float][T=int]', G1[int], [int, float], [(3, 3), (2.5, 2.5)]),
        ('Union[T, int, float][T=str]', G1[str], [str, int, float], [('a', 'a'), (3, 3)]),
        ('Union[T, U][T=float, U=Union[int, float]]', G2[float, t.Union[int, float]], [float, int], [(7, 7.0)]),
        ('Union[T, U][T=int, U=Union[float, int]]', G2[int, t.Union[float, int]], [int, float], [(7, 7), (1.5, 1.5)]),
        ('Union[T, B, A][T=A]', G3[A], [A, B], [({'x': 1}, A(1)), ({'x': 1, 'y': 2}, B(1, 2))]),
        ('Union[int, T, str, T][T=float]', G4[float], [int, float, str], [(3, 3), (2.5, 2.5), ('s', 's')]),
        ('Union[int, T, str, T][T=str]', G4[str], [int, str], [('s', 's'), (3, 3)]),
    ]
    class G5(pane.PaneBase, t.Generic[T]):
        u: T
        us: t.List[T] = pane.field(default_factory=list)
    # the same generic class parameterised with one union in two member orders, in one process: two different classes
    for first, second in ((t.Union[int, float], t.Union[float, int]), (t.Union[float, int], t.Union[int, float]),
                          (t.Optional[t.Union[bool, int]], t.Optional[t.Union[int, bool]])):
        for U_ in (first, second):
            ms = [a for a in t.get_args(U_)]
            v = True if bool in ms else 1
            want = next(m for m in ms if m is not type(None))(v)
            cases.append((f'G[{U_!r}] (created after G[{first!r}])', G5[U_], ms, [(v, want)]))
    with warnings.catch_warnings():
        warnings.simplefilter('ignore')
        for label, cls, members, probes in cases:
            n += 1
            fty = {f.name: f.type for f in cls.__pane_info__.fields}['u']
            got = [a for a in t.get_args(fty)] if t.get_origin(fty) in (t.Union, getattr(__import__('types'), 'UnionType', t.Union)) else [fty]
            if got != members:
                out.violation('C11:generic-union-member-order', f'{label}: the bound field has members {got}, expected {members} (first occurrence of each member, in order)', {'case': label})
            for v, want in probes:
                n += 1
                try:
                    r = cls.from_data({'u': v}).u
                except Exception as e:
                    out.violation(f'C11:generic-union:{type(e).__name__}', f'{label}: from_data({{"u": {v!r}}}) raised {type(e).__name__}: {str(e)[:150]}', {'case': label})
                    continue
                if type(r) is not type(want) or r != want:
                    out.violation('C11:generic-union-not-leftmost', f'{label}: {v!r} converts to {r!r}; the left-most accepting member of {members} gives {want!r}', {'case': label, 'value': repr(v)})
    return n


def members_left_of_none(out):
    """a union that lists None AFTER a member which itself accepts null: the left-most accepting member wins for None as for any
    other value (an enum with a None-valued member, Any, a nested Optional, a literal None, a user converter mapping null)"""
    import enum
    import typing as t
    import pane
    n = 0

    class Level(enum.Enum):
        UNSET = None
        LOW = 1

    class Box(pane.PaneBase):
        v: t.Optional[Level] = Level.LOW
        vs: t.List[t.Optional[Level]] = pane.field(default_factory=list)
    cases = [
        ('Optional[Level] (Level.UNSET = None)', t.Optional[Level], None, Level.UNSET), ('Union[Level, None, int]', t.Union[Level, None, int], None, Level.UNSET),
        ('Union[None, Level]', t.Union[None, Level], None, None), ('Optional[Level] with 1', t.Optional[Level], 1, Level.LOW),
        ('List[Optional[Level]]', t.List[t.Optional[Level]], [None, 1, None], [Level.UNSET, Level.LOW, Level.UNSET]),
        ('Dict[str, Optional[Level]]', t.Dict[str, t.Optional[Level]], {'k': None}, {'k': Level.UNSET}),
        ('dataclass field Optional[Level]', Box, {'v': None, 'vs': [None]}, Box(Level.UNSET, [Level.UNSET])),
        ('Union[Literal[None], None, int]', t.Union[t.Literal[None], None, int], None, None),
        ('Union[Any, None]', t.Union[t.Any, None], None, None),
    ]
    with warnings.catch_warnings():
        warnings.simplefilter('ignore')
        for label, ty, v, want in cases:
            n += 1
            try:
                r = pane.from_data(v, ty)
            except Exception as e:
                out.violation(f'C11:member-left-of-None:{type(e).__name__}', f'{label}: from_data({v!r}) raised {type(e).__name__}: {str(e)[:150]}', {'case': label})
                continue
            if r != want or type(r) is not type(want) or repr(r) != repr(want):
                out.violation('C11:member-left-of-None', f'{label}: from_data({v!r}) gave {r!r}; the left-most member that accepts the value gives {want!r}', {'case': label, 'value': repr(v)})
            # and back: the value is written by the left-most member that accepts it
            try:
                d = pane.into_data(want, ty)
                if pane.from_data(d, ty) != want:
                    out.violation('C11:member-left-of-None:serialised', f'{label}: {want!r} is written as {d!r}, which reads back as {pane.from_data(d, ty)!r}', {'case': label})
            except Exception as e:
                out.violation(f'C11:member-left-of-None:into_data:{type(e).__name__}', f'{label}: into_data({want!r}) raised {type(e).__name__}: {str(e)[:150]}', {'case': label})
    return n


def members_reading_other_kinds(out):
    """members that accept input of a kind their name does not suggest, listed BEFORE a member that also accepts it: an enum
    whose values are tuples reads sequences, an enum with a None / mapping-free value reads null, a dataclass in tuple layout
    reads sequences, a Decimal / Fraction / date member reads text, a float member reads ints.  Left-most accepting member wins."""
    import datetime
    import decimal
    import enum
    import fractions
    import typing as t
    import pane
    n = 0

    class Corner(enum.Enum):
        UNIT = (1, 1)
        ORIGIN = (0, 0)

    class Pt(pane.PaneBase, in_format=('tuple', 'struct')):
        x: int
        y: int = 0
    cases = [
        ('Union[Corner, List[int]]', t.Union[Corner, t.List[int]], [1, 1], Corner.UNIT), ('Union[Corner, List[int]] other', t.Union[Corner, t.List[int]], [1, 2], [1, 2]),
        ('Union[List[int], Corner]', t.Union[t.List[int], Corner], [1, 1], [1, 1]), ('Union[Corner, Tuple[int, int]] from a tuple', t.Union[Corner, t.Tuple[int, int]], (0, 0), Corner.ORIGIN),
        ('Optional[Union[Corner, List[int]]]', t.Optional[t.Union[Corner, t.List[int]]], [0, 0], Corner.ORIGIN),
        ('List[Union[Corner, List[int]]]', t.List[t.Union[Corner, t.List[int]]], [[1, 1], [2, 2]], [Corner.UNIT, [2, 2]]),
        ('Union[Pt, List[int]]', t.Union[Pt, t.List[int]], [1, 2], Pt(1, 2)), ('Union[List[int], Pt]', t.Union[t.List[int], Pt], [1, 2], [1, 2]),
        ('Union[Pt, List[int]] too long for Pt', t.Union[Pt, t.List[int]], [1, 2, 3], [1, 2, 3]),
        ('Union[Decimal, str]', t.Union[decimal.Decimal, str], '1.5', decimal.Decimal('1.5')), ('Union[Decimal, str] other', t.Union[decimal.Decimal, str], 'abc', 'abc'),
        ('Union[Fraction, str]', t.Union[fractions.Fraction, str], '1/2', fractions.Fraction(1, 2)), ('Union[date, str]', t.Union[datetime.date, str], '2020-01-02', datetime.date(2020, 1, 2)),
        ('Union[float, int]', t.Union[float, int], 3, 3.0), ('Union[complex, float]', t.Union[complex, float], 2.5, complex(2.5)),
        ('Union[Dict[str, int], Pt]', t.Union[t.Dict[str, int], Pt], {'x': 1}, {'x': 1}), ('Union[Pt, Dict[str, int]]', t.Union[Pt, t.Dict[str, int]], {'x': 1}, Pt(1)),
    ]
    with warnings.catch_warnings():
        warnings.simplefilter('ignore')
        for label, ty, v, want in cases:
            n += 1
            try:
                r = pane.from_data(v, ty)
            except Exception as e:
                out.violation(f'C11:member-reading-other-kind:{type(e).__name__}', f'{label}: from_data({v!r}) raised {type(e).__name__}: {str(e)[:150]}', {'case': label})
                continue
            if repr(r) != repr(want) or type(r) is not type(want):
                out.violation('C11:member-reading-other-kind', f'{label}: from_data({v!r}) gave {r!r}; the left-most member that accepts the value gives {want!r}', {'case': label, 'value': repr(v)})
    return n


def equal_looking_members(out):
    """members that are different types although their parts compare equal as Python values -- Literal[1] next to Literal[True],
    Literal[0] next to Literal[False], the same inside Tuple[...] and List[...] -- in both orders, and with a third member after
    them: the union succeeds exactly when some member accepts the value alone, with the result of the left-most one."""
    import typing as t
    import pane
    n = 0
    L = t.Literal
    unions = [[L[1], L[True]], [L[True], L[1]], [L[0], L[False]], [L[False], L[0], str], [L[1], L[True], L[1.0]], [L['a'], L['a', 'b']],
              [t.Tuple[L[1]], t.Tuple[L[True]]], [t.List[L[True]], t.List[L[1]]], [t.List[int], t.List[float]], [t.Dict[str, L[0]], t.Dict[str, L[False]]]]
    probes = [1, True, 0, False, 1.0, 0.0, 'a', 'b', [1], [True], [1, True], [1.5], (1,), (True,), {'k': 0}, {'k': False}, None]

    def alone(v, T):
        try:
            r = pane.from_data(v, T)
            return ('ok', type(r).__name__, repr(r))
        except pane.ConvertError:
            return ('error',)
        except Exception as e:
            return ('escape', type(e).__name__)
    with warnings.catch_warnings():
        warnings.simplefilter('ignore')
        for ms in unions:
            U = t.Union[tuple(ms)]
            if len(t.get_args(U)) != len(ms):
                continue
            for wrap_label, TT, mk, MT in (('top', U, lambda p: p, lambda m: m), ('list element', t.List[U], lambda p: [p], lambda m: t.List[m]),
                                           ('optional', t.Optional[U], lambda p: p, lambda m: m)):
                for p in probes:
                    n += 1
                    if wrap_label == 'optional' and p is None:
                        continue
                    singles = [alone(mk(p), MT(m)) for m in ms]
                    want = next((r for r in singles if r[0] == 'ok'), ('error',))
                    got = alone(mk(p), TT)
                    if got != want:
                        out.violation('C11:equal-looking-members', f'{wrap_label}: from_data({mk(p)!r}, {TT!r}) gives {got}; the members alone give {singles}, so the '
                                      f'left-most accepting member gives {want}', {'union': repr(TT), 'value': repr(mk(p))})
    return n


def run(ctx, out):
    out.evaluations += members_reading_other_kinds(out)
    out.evaluations += members_left_of_none(out)
    out.evaluations += equal_looking_members(out)
    import families as _famgp
    out.evaluations += _famgp.generic_parameter_twins(out, PROP)
    import families as _fam
    out.evaluations += _fam.same_class_union_serialisation(out, PROP)
    out.rule = ('unions at top level and nested, 50% drawn from overlap families (int/float/bool/complex, list/tuple, str/Literal, '
                'dict/dataclass, dataclass/dataclass, conditions), x values (valid for a random member / near / arbitrary); the '
                'union result is compared with each member tried alone in declaration order; serialisation compared with the '
                'accepting members. Non-trivial = non-leaf type; distinct by (type term, value).')
    out.evaluations += generic_union_members(out)
    convprop.run(ctx, out, PROP, monitor, twins=True, cfg={'overlap': True, 'weights': {'union': 9.0}})


def replay(rep, out):
    print(rep['what'])
    print(rep['replay'])
    return 0
