"""C13 -- conditions restrict exactly by their predicate."""
import warnings

import convcases
import convprop
import gen
import terms
from terms import term_head
from props.c05 import canon

PROP = 'C13'
COQ_TARGETS = ['Props/C13.vo'] + convprop.CONV_TARGETS
GEN = convprop.MODEL_TABLES


def raises(c, v):
    """does evaluating the (Python-level) predicate raise?  independent reading of the condition term"""
    import math
    k = c[0]
    try:
        if k == 'adj':
            {'positive': lambda: v > 0, 'negative': lambda: v < 0, 'nonpositive': lambda: v <= 0, 'nonnegative': lambda: v >= 0,
             'finite': lambda: math.isfinite(v), 'empty': lambda: len(v) == 0, 'nonempty': lambda: len(v) != 0}[c[1]]()
            return False
        if k == 'valrange':
            if c[1] is not None and not (v >= c[1]):
                return False
            if c[2] is not None:
                v <= c[2]
            return False
        if k == 'lenrange':
            if c[1] is not None and not (len(v) >= c[1]):
                return False
            if c[2] is not None:
                len(v) <= c[2]
            return False
        if k == 'all':
            for x in c[1]:
                if raises(x, v):
                    return True
                if not gen.cond_holds(x, v):
                    return False
            return False
        if k == 'any':
            for x in c[1]:
                if raises(x, v):
                    return True
                if gen.cond_holds(x, v):
                    return False
            return False
        if k == 'not':
            return raises(c[1], v)
        if k == 'raise':
            return True
        return False
    except Exception:
        return True


def monitor(c):
    import pane
    from pane.errors import ConvertError
    out = []
    if c.term[0] != 'cond' or c.fd_obs is None:
        return out
    inner_term, cond = c.term[1], c.term[2]
    with warnings.catch_warnings():
        warnings.simplefilter('ignore')
        inner = c.extra.get('inner')
        if inner is None:
            import typing as t
            inner = t.get_args(c.built.py)[0]
        try:
            x = pane.from_data(c.value, inner)
            inner_ok = True
        except ConvertError:
            inner_ok = False
        except Exception:
            return out
    fd = c.fd_obs
    if not inner_ok:
        if fd[0] == 'ok':
            out.append(('C13:accepts-what-inner-rejects', f'from_data({c.value!r}, {c.built.py!r}) succeeded but the inner type rejects the value', None))
        return out
    r = raises(cond, x)
    want = (not r) and gen.cond_holds(cond, x)
    if want and fd[0] != 'ok':
        out.append(('C13:rejects-satisfying-value', f'from_data({c.value!r}, {c.built.py!r}) failed although the inner type accepts and the condition {cond!r} holds on {x!r}', None))
    if not want and fd[0] == 'ok':
        out.append(('C13:accepts-violating-value', f'from_data({c.value!r}, {c.built.py!r}) = {fd[1]!r} although the condition {cond!r} does not hold on {x!r}', None))
    if want and fd[0] == 'ok' and canon(fd[1]) != canon(x) and 'FNan' not in canon(x):
        out.append(('C13:value-changed', f'conditioned conversion returned {fd[1]!r}, inner type alone returns {x!r}', None))
    if r and fd[0] == 'error':
        node = fd[1].tree
        if getattr(node, 'cause', None) is None or 'predicate failed' not in str(fd[1]) and cond[0] == 'raise':
            out.append(('C13:raising-predicate-without-cause', f'predicate raised on {x!r} but the ConvertError does not carry the cause: {str(fd[1])[:200]}', None))
    if fd[0] == 'ok':
        with warnings.catch_warnings():
            warnings.simplefilter('ignore')
            try:
                a = pane.into_data(fd[1], c.built.py)
                b = pane.into_data(fd[1], inner)
                if canon(a) != canon(b):
                    out.append(('C13:serialisation-not-ignoring-condition', f'into_data with the condition {a!r} != without {b!r}', None))
            except TypeError:
                pass
    return out


def boundary_cases(rng):
    """every stock condition x inner type at boundary -1 / 0 / +1"""
    out = []
    num_inner = [('scalar', 'int'), ('scalar', 'float')]
    conds = [('adj', a) for a in ('positive', 'negative', 'nonpositive', 'nonnegative', 'finite')]
    conds += [('valrange', lo, hi) for lo, hi in ((0, None), (None, 3), (1, 3), (-2, 2), (2, 2))]
    vals = [-3, -2, -1, 0, 1, 2, 3, 4, -0.5, 0.0, 0.5, 1.0, 2.0, 2.5, 3.0, 3.5, float('inf'), float('-inf'), float('nan'), True, False, 10**400]
    for it in num_inner:
        for cd in conds:
            term = ('cond', it, cd)
            b = terms.build(term, rng)
            for v in vals:
                out.append(convcases.Case(term, b, v, 'boundary'))
    len_inner = [('seq', 'list', ('scalar', 'int')), ('scalar', 'str'), ('dict', ('scalar', 'str'), ('scalar', 'int')), ('seq', 'set', ('scalar', 'int'))]
    lconds = [('adj', 'empty'), ('adj', 'nonempty')] + [('lenrange', lo, hi) for lo, hi in ((1, None), (None, 2), (1, 2), (0, 0), (2, 2))]
    for it in len_inner:
        for cd in lconds:
            term = ('cond', it, cd)
            b = terms.build(term, rng)
            for n in range(0, 4):
                if it[0] == 'seq':
                    v = list(range(n))
                elif it[0] == 'scalar':
                    v = 'abcd'[:n]
                else:
                    v = {str(i): i for i in range(n)}
                out.append(convcases.Case(term, b, v, 'boundary'))
    # combinators over sign conditions at the boundary, incl. raising members
    combos = [('all', [('adj', 'nonnegative'), ('valrange', None, 2)]), ('any', [('adj', 'negative'), ('valrange', 2, None)]),
              ('not', ('adj', 'positive')), ('all', [('adj', 'positive'), ('raise', 'boomA')]), ('any', [('adj', 'positive'), ('raise', 'boomB')]),
              ('not', ('raise', 'boomC')), ('all', [('const', 'kT', True), ('not', ('const', 'kF', False))])]
    import gen as _gen
    out += convprop.cases_from_pairs(_gen.raising_predicate_cases(rng), rng, 'raising-predicates')
    out += convprop.cases_from_pairs(_gen.cond_on_converted_cases(rng), rng, 'conditions-on-converted-values')
    for cd in combos:
        term = ('cond', ('scalar', 'int'), cd)
        b = terms.build(term, rng)
        for v in (-1, 0, 1, 2, 3):
            out.append(convcases.Case(term, b, v, 'boundary'))
    # the negation of EVERY stock condition is the negation of its predicate -- not "the opposite condition": on NaN neither
    # `> 0` nor `<= 0` holds, so `~Positive` accepts NaN and `NonPositive` does not; likewise ranges, double negation, and
    # negations under any / all; float inner type with -0.0, the infinities and NaN
    negs = [('not', ('adj', a)) for a in ('positive', 'negative', 'nonpositive', 'nonnegative', 'finite')]
    negs += [('not', ('valrange', 0, None)), ('not', ('valrange', None, 0)), ('not', ('valrange', -1, 1)), ('not', ('not', ('adj', 'positive'))),
             ('any', [('not', ('adj', 'positive')), ('not', ('adj', 'negative'))]), ('all', [('not', ('adj', 'positive')), ('not', ('adj', 'negative'))]),
             ('not', ('any', [('adj', 'positive'), ('adj', 'negative')])), ('not', ('all', [('adj', 'nonnegative'), ('adj', 'nonpositive')]))]
    for cd in negs:
        for it in num_inner:
            term = ('cond', it, cd)
            b = terms.build(term, rng)
            for v in (-1, 0, 1, 2, -0.0, 0.0, 0.5, -0.5, float('inf'), float('-inf'), float('nan'), True):
                out.append(convcases.Case(term, b, v, 'boundary'))
    lnegs = [('not', ('adj', 'empty')), ('not', ('adj', 'nonempty')), ('not', ('lenrange', 1, 2)), ('not', ('lenrange', 0, 0))]
    for cd in lnegs:
        for it in len_inner[:2]:
            term = ('cond', it, cd)
            b = terms.build(term, rng)
            for n in range(0, 4):
                out.append(convcases.Case(term, b, list(range(n)) if it[0] == 'seq' else 'abcd'[:n], 'boundary'))
    return out



def same_name_conditions(out):
    """condition expressions that READ the same but are different predicates (the description does not parenthesise), used on the
    same inner type in one process, in both orders of first use: each restricts by its own predicate"""
    import typing as t
    import pane
    from pane.annotations import Condition, Positive, Negative, val_range
    n = 0

    def families():
        a, b = Positive, val_range(max=5)
        yield ('~(positive & v<=5)', lambda: ~(Positive & val_range(max=5)), lambda v: not (v > 0 and v <= 5),
               '~positive & v<=5', lambda: ~Positive & val_range(max=5), lambda v: (not v > 0) and v <= 5, [6, 100, 0, -2, 3])
        yield ('positive | (v>=10 & v<=20)', lambda: Positive | (val_range(min=10) & val_range(max=20)), lambda v: v > 0 or (10 <= v <= 20),
               '(positive | v>=10) & v<=20', lambda: (Positive | val_range(min=10)) & val_range(max=20), lambda v: (v > 0 or v >= 10) and v <= 20, [25, 15, 5, 0, -3])
        yield ('user "small" = v < 3', lambda: Condition(lambda v: v < 3, 'small'), lambda v: v < 3,
               'user "small" = v < 30', lambda: Condition(lambda v: v < 30, 'small'), lambda v: v < 30, [1, 10, 50])
        yield ('~(negative | v>=7)', lambda: ~(Negative | val_range(min=7)), lambda v: not (v < 0 or v >= 7),
               '~negative | v>=7', lambda: ~Negative | val_range(min=7), lambda v: (not v < 0) or v >= 7, [-1, 3, 8])
    for order in (0, 1):
        for la, mka, pa, lb, mkb, pb, vals in families():
            pairs = [(la, mka, pa), (lb, mkb, pb)]
            if order:
                pairs.reverse()
            built = [(lab, t.Annotated[int, mk()], pred) for lab, mk, pred in pairs]      # both types exist before either is used
            for lab, ty, pred in built:
                for wrap, wv in ((lambda T: T, lambda v: v), (lambda T: t.List[T], lambda v: [v])):
                    for v in vals:
                        n += 1
                        try:
                            pane.from_data(wv(v), wrap(ty))
                            ok = True
                        except pane.ConvertError:
                            ok = False
                        if ok != bool(pred(v)):
                            out.violation('C13:same-name-conditions', f'{lab} on {v!r}: {"accepted" if ok else "rejected"}, its predicate says '
                                          f'{"accept" if pred(v) else "reject"} (another condition with the same description {pairs[0][0]!r} / {pairs[1][0]!r} is in use)',
                                          {'condition': lab, 'value': repr(v), 'order': order})
    return n


def operand_order_conditions(out):
    """`a | b` / `b | a`, `a & b` / `b & a`, built one after the other in one process, both orders: operands are evaluated left
    to right and an operand that raises fails the whole condition, so on values where one operand raises the two orders differ"""
    import typing as t
    import pane
    from pane import annotations as A
    n = 0

    def verdict(ty, v):
        try:
            pane.from_data(v, ty)
            return True
        except pane.ConvertError:
            return False
    inner = t.Union[int, str]
    # Positive raises on a str ('abc' > 0), NonEmpty raises on an int (len(5))
    table = [
        ('Positive | NonEmpty', lambda: A.Positive | A.NonEmpty, {5: True, -5: False, 'abc': False, '': False}),
        ('NonEmpty | Positive', lambda: A.NonEmpty | A.Positive, {5: False, 'abc': True, '': False, -5: False}),
        ('Positive & NonEmpty', lambda: A.Positive & A.NonEmpty, {5: False, 'abc': False}),
        ('NonEmpty & Positive', lambda: A.NonEmpty & A.Positive, {5: False, 'abc': False}),
    ]
    with warnings.catch_warnings():
        warnings.simplefilter('ignore')
        for order in (table, table[::-1]):
            built = [(label, mk(), want) for label, mk, want in order]
            for label, cond, want in built:
                for v, w in want.items():
                    n += 1
                    got = verdict(t.Annotated[inner, cond], v)
                    if got != w:
                        out.violation('C13:operand-order', f'{label} (built {"first" if built[0][0] == label else "after " + built[0][0]}) on {v!r}: '
                                      f'{"accepted" if got else "rejected"}; evaluated left to right it {"holds" if w else "does not hold (an operand raises or is false)"}', {'condition': label, 'value': repr(v)})
    return n


def shape_conditions(out):
    """the stock conditions on a value's `shape` attribute: `shape(S)` holds exactly when value.shape equals S -- same rank, same
    extents -- alone and under ~ / & / |; `broadcastable(S)` on the cases where its reading is beyond doubt.  The values are
    dataclass instances with a `shape` field (numpy is not needed)."""
    import typing as t
    import pane
    from pane import annotations as A
    n = 0

    class Arr(pane.PaneBase):
        shape: t.Tuple[int, ...]
    S22 = A.shape((2, 2))
    rows = [
        ('shape((2, 2))', S22, {(2, 2): True, (2, 2, 3): False, (2, 2, 1): False, (2,): False, (): False, (2, 3): False, (3, 2): False, (1, 2, 2): False}),
        ('~shape((2, 2))', ~S22, {(2, 2): False, (2, 2, 3): True, (2,): True, (): True}),
        ('shape((2, 2)) | shape((3,))', S22 | A.shape((3,)), {(2, 2): True, (3,): True, (3, 3): False, (2, 2, 2): False, (3, 1): False}),
        ('shape(())', A.shape(()), {(): True, (1,): False, (0,): False}),
        ('shape((0,))', A.shape((0,)), {(0,): True, (): False, (0, 0): False}),
        ('broadcastable((2, 2))', A.broadcastable((2, 2)), {(2, 2): True, (1, 2): True, (2, 1): True, (2,): True, (1,): True, (3, 2): False, (3,): False, (2, 3): False}),
    ]
    with warnings.catch_warnings():
        warnings.simplefilter('ignore')
        for label, cond, table in rows:
            ty = t.Annotated[Arr, cond]
            for shp, want in table.items():
                for ctx_label, T, data, pick in (('top', ty, {'shape': list(shp)}, lambda r: r), ('list element', t.List[ty], [{'shape': list(shp)}], lambda r: r[0])):
                    n += 1
                    try:
                        r = pick(pane.from_data(data, T))
                        got = True
                    except pane.ConvertError:
                        got = False
                    except Exception as e:
                        out.violation(f'C13:shape-condition:{type(e).__name__}', f'{label} on a value of shape {shp} ({ctx_label}) raised {type(e).__name__}: {str(e)[:120]}', {'condition': label, 'shape': list(shp)})
                        continue
                    if got != want:
                        out.violation('C13:shape-condition', f'{label}: a value of shape {shp} ({ctx_label}) is {"accepted" if got else "rejected"}; the condition {"holds" if want else "does not hold"} for it',
                                      {'condition': label, 'shape': list(shp), 'context': ctx_label})
                    elif got and r.shape != shp:
                        out.violation('C13:shape-condition:value-changed', f'{label}: result has shape {r.shape}, the input {shp}', {'condition': label, 'shape': list(shp)})
    return n


def run(ctx, out):
    out.evaluations += shape_conditions(out)
    out.evaluations += operand_order_conditions(out)
    out.rule = ('(a) exhaustive boundary stream: every stock condition (sign conditions, finite, val_range, len_range, empty / '
                'non-empty) x inner types x values at boundary -1/0/+1 (ints, floats, inf, nan, bool, 10**400), combinators '
                'with raising members; (b) random condition expressions (and/or/not/all/any, raising and constant user '
                'predicates) x inner types x values. The verdict is compared with an independent Boolean reading of the '
                'condition term. Non-trivial = non-leaf type; distinct by (type term, value).')
    out.evaluations += same_name_conditions(out)
    convprop.run(ctx, out, PROP, monitor, cfg={'weights': {'cond': 9.0}}, extra_cases=boundary_cases)


def replay(rep, out):
    print(rep['what'])
    print(rep['replay'])
    return 0
