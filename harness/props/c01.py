"""C01 -- conversion accepts exactly the members of the type and returns the deep, exactly-typed image."""
import enum
import random
import warnings

import convprop
import terms
from terms import term_head
from props.c05 import canon

PROP = 'C01'
COQ_TARGETS = ['Props/C01.vo'] + convprop.CONV_TARGETS
GEN = convprop.MODEL_TABLES

SCALAR_PY = {'bool': bool, 'int': int, 'float': float, 'complex': complex, 'str': str, 'bytes': bytes, 'bytearray': bytearray}


def _r(x):
    try:
        return repr(x)
    except Exception as e:
        return f'<a {type(x).__name__} whose repr raises {type(e).__name__}: {e}>'


def typed_ok(term, x, v=None):
    """is x the deep, exactly-typed image for the type term?  returns None or a description of the defect"""
    import pane
    k = term[0]
    if k == 'any':
        return None
    if k == 'none':
        return None if x is None else f'{_r(x)} is not None'
    if k == 'scalar':
        return None if type(x) is SCALAR_PY[term[1]] else f'{_r(x)} has class {type(x).__name__}, expected {term[1]}'
    if k == 'std':
        return None
    if k == 'seq':
        want = {'list': list, 'tuple': tuple, 'set': set, 'frozenset': frozenset}[term[1]]
        if type(x) is not want:
            return f'{_r(x)} has class {type(x).__name__}, expected {want.__name__}'
        for e in x:
            r = typed_ok(term[2], e)
            if r:
                return r
        return None
    if k == 'tuple':
        if type(x) is not tuple or len(x) != len(term[1]):
            return f'{_r(x)} is not a tuple of length {len(term[1])}'
        for t, e in zip(term[1], x):
            r = typed_ok(t, e)
            if r:
                return r
        return None
    if k == 'dict':
        if type(x) is not dict:
            return f'{_r(x)} has class {type(x).__name__}, expected dict'
        for kk, vv in x.items():
            r = typed_ok(term[1], kk) or typed_ok(term[2], vv)
            if r:
                return r
        return None
    if k == 'struct':
        if type(x) is not dict or set(x) != {n for n, _ in term[1]}:
            return f'{_r(x)} is not a dict with exactly the declared keys'
        for n, t in term[1]:
            r = typed_ok(t, x[n])
            if r:
                return r
        return None
    if k == 'union':
        rs = [typed_ok(m, x) for m in term[1]]
        return None if any(r is None for r in rs) else f'{_r(x)} is not typed as any member: {rs[0]}'
    if k == 'literal':
        return None if any(x == l for l in term[1]) else f'{_r(x)} is not one of the literal values'
    if k == 'enum':
        if not isinstance(x, enum.Enum) or type(x).__name__ != term[1]:
            return f'{_r(x)} is not a member of enum {term[1]}'
        return None
    if k == 'cond':
        return typed_ok(term[1], x)
    if k == 'tagged':
        rs = [typed_ok(vt, x) for _, vt in term[3]]
        return None if any(r is None for r in rs) else f'{_r(x)} is not an instance of a variant'
    if k == 'class':
        cls = term[1].get('_cls')
        if type(x) is not cls:
            return f'{_r(x)} is not an instance of {cls.__name__}'
        from pane.field import _MISSING
        spec, sp = {}, term[1]
        while sp is not None:
            for f in sp['fields']:
                if not f.get('kw_marker'):
                    spec.setdefault(f['name'], f)
            sp = sp.get('_parent_spec')
        for f in cls.__pane_info__.fields:
            if not f.init:
                continue
            if not hasattr(x, f.name):
                return f'field {f.name} is not set'
            val = getattr(x, f.name)
            if callable(val) and not isinstance(val, type) and f.default_factory is not None and val is f.default_factory:
                return f'field {f.name} holds the default factory itself'
            if f.name in x.__pane_set__:
                r = typed_ok(spec[f.name]['ty'], val)
                if r:
                    return f'field {f.name}: {r}'
        return None
    return None


def _lit_member(vals, v):
    """the documented rule for Literal: v is listed -- an equal value of the same type (1.0 and True are not Literal[1])"""
    return any(type(v) is type(l) and v == l for l in vals)


def literal_expectation(term, value):
    """verdict the literal rule gives for the shapes of gen.literal_boundary_cases (None: another shape)"""
    k = term[0]
    if k == 'literal':
        return _lit_member(term[1], value)
    if k == 'seq' and term[1] == 'list' and term[2][0] == 'literal' and type(value) is list:
        return all(_lit_member(term[2][1], x) for x in value)
    if k == 'dict' and term[1] == ('scalar', 'str') and term[2][0] == 'literal' and type(value) is dict and all(type(x) is str for x in value):
        return all(_lit_member(term[2][1], x) for x in value.values())
    if k == 'union' and len(term[1]) == 2 and term[1][0][0] == 'literal' and term[1][1] == ('scalar', 'str'):
        return _lit_member(term[1][0][1], value) or type(value) is str
    if k == 'class' and str(term[1].get('name', '')).startswith('Lit') and type(value) is dict and set(value) == {'v'}:
        f = [f for f in term[1]['fields'] if f['name'] == 'v']
        if f and f[0]['ty'][0] == 'literal':
            return _lit_member(f[0]['ty'][1], value['v'])
    return None


def monitor(c):
    import pane
    from pane.errors import ConvertError
    out = []
    if c.fd_obs is None:
        return out
    head = term_head(c.term)
    want = literal_expectation(c.term, c.value)
    if want is not None and c.fd_obs[0] in ('ok', 'error') and (c.fd_obs[0] == 'ok') != want:
        out.append((f'C01:{head}:literal-membership', f'from_data({c.value!r}, {c.built.py!r}) is {"accepted" if c.fd_obs[0] == "ok" else "refused"}; '
                    f'a Literal is matched exactly by a listed value: an equal value of the same type, so it must be {"accepted" if want else "refused"}', None))
    if c.fd_obs[0] == 'escape':
        # "in every other case it raises ConvertError": anything else leaving from_data is neither verdict
        e = c.fd_obs[1]
        out.append((f'C01:{head}:neither-value-nor-ConvertError:{type(e).__name__}',
                    f'from_data({c.value!r}, {c.built.py!r}) raised {type(e).__name__}: {str(e)[:120]!r} instead of returning a value or raising ConvertError', None))
    if c.fd_obs[0] == 'ok':
        r = typed_ok(c.term, c.fd_obs[1])
        if r:
            out.append((f'C01:{head}:not-exactly-typed', f'from_data({c.value!r}, {c.built.py!r}) = {_r(c.fd_obs[1])}: {r}', None))
    # verdict and value depend on nothing but T and v: re-evaluation, and an equivalent re-spelling of T
    with warnings.catch_warnings():
        warnings.simplefilter('ignore')
        for label, T in (('re-evaluation', c.built.py), ('re-spelling', None)):
            if T is None:
                if any(n[0] in ('class', 'enum', 'tagged') for n in __import__('props.c05', fromlist=['walk']).walk(c.term)):
                    # classes / enums are nominal: the same objects are reused by build(), only the generic spellings change
                    pass
                try:
                    terms.clear_typing_caches()
                    b2 = terms.build(c.term, random.Random(hash(repr(c.value)) & 0xffff))
                    terms.verify(c.term, b2.py)
                    T = b2.py
                except terms.Unsupported:
                    continue
            try:
                y = ('ok', pane.from_data(c.value, T))
            except ConvertError as e:
                y = ('error', e)
            except Exception as e:
                y = ('escape', e)
            if y[0] != c.fd_obs[0]:
                out.append((f'C01:{head}:verdict-changes:{label}', f'{label}: from_data({c.value!r}, {T!r}) gives {y[0]}, first evaluation gave {c.fd_obs[0]} for {c.built.py!r}', None))
            elif y[0] == 'ok' and canon(y[1]) != canon(c.fd_obs[1]) and 'FNan' not in canon(y[1]):
                out.append((f'C01:{head}:value-changes:{label}', f'{label}: {y[1]!r} vs {c.fd_obs[1]!r}', None))
    return out


def run(ctx, out):
    import families as _famsm
    out.evaluations += _famsm.struct_mapping_family(out, PROP)
    import families as _fam2
    out.evaluations += _fam2.scalar_subclass_family(out, PROP)
    import families as _fam
    out.evaluations += _fam.construction_paths_family(out, PROP)
    import families, random as _random
    out.evaluations += families.noninit_tuple_family(out, PROP, _random.Random(ctx['seed']))
    out.rule = ('types (all constructors of the grammar, equivalent spellings chosen at random: List/list/MutableSequence, Tuple[T,...]/'
                'Sequence, Optional/Union/|, typing vs collections.abc ...) x values (valid / near-valid / arbitrary). Checks on pane: '
                'the result is the deep exactly-typed image (runtime classes at every depth, enum members, instances with converted '
                'fields, factories called), verdict and value are stable under re-evaluation and under re-spelling of the type; '
                'accept/reject itself is decided against the Coq model by corr_convert. Non-trivial = non-leaf type.')
    import gen
    convprop.run(ctx, out, PROP, monitor, twins=True, cfg={'weights': {'class': 2.0, 'std': 0.8}},
                 extra_cases=lambda rng: (convprop.cases_from_pairs(gen.std_kind_cases(rng), rng, 'library-types')
                                          + convprop.cases_from_pairs(gen.literal_boundary_cases(rng), rng, 'literal-boundaries')
                                          + convprop.cases_from_pairs(gen.degenerate_class_cases(rng), rng, 'degenerate-classes')))


def replay(rep, out):
    print(rep['what'])
    print(rep['replay'])
    return 0
