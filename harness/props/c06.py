"""C06 -- typed values are fixed points of convert."""
import collections
import datetime
import decimal
import enum
import fractions
import pathlib
import re
import typing as t
import warnings

import convcases
import convprop
import gen
from common import run_shards
from terms import term_head, val_to_coq, tree_to_coq, exn_to_coq, Unsupported
from props.c05 import walk, canon, overlapping_union, class_issues

PROP = 'C06'
COQ_TARGETS = ['Props/C06.vo', 'Run/AgreeInto.vo'] + convprop.CONV_TARGETS
GEN = convprop.MODEL_TABLES


SKIP = {'out-layout-not-enabled', 'excluded-field', 'explicit-asymmetric-out_name', 'explicit-asymmetric-rename',
        'explicit-asymmetric-in_names', 'tuple-out-with-noninit-field'}


def cause_of(term, issues, x=None):
    from props.c05 import known_cause
    return known_cause(term, issues, wrapped=False, x=x)


def has_wrapped_tag(term):
    return any(n[0] == 'tagged' and n[2] != 'internal' for n in walk(term))


def render_convobj(c, x, obs):
    if not c.built.coq or '%NOCOQ%' in c.built.coq:
        return None
    try:
        if obs[0] == 'ok':
            o = f'(COk {val_to_coq(obs[1])})'
        elif obs[0] == 'error':
            xs = val_to_coq(x)
            if 'VSet' in xs or 'VFrozenSet' in xs:
                return None     # the tree records the serialised data, and a serialised set is a list in hash order
            o = f'(CErr {tree_to_coq(obs[1].tree)})'
        else:
            o = f'(CThrow {exn_to_coq(obs[1])})'
        return f'({c.built.coq}, {val_to_coq(x)}, {o})'
    except (Unsupported, RecursionError):
        return None


def monitor_factory(items):
    def monitor(c):
        import pane
        from pane.errors import ConvertError
        out = []
        if c.fd_obs is None or c.fd_obs[0] != 'ok' or has_wrapped_tag(c.term):
            return out
        head = term_head(c.term)
        x, T = c.fd_obs[1], c.built.py
        with warnings.catch_warnings():
            warnings.simplefilter('ignore')
            try:
                y = pane.convert(x, T)
                obs = ('ok', y)
            except ConvertError as e:
                obs = ('error', e)
            except Exception as e:
                obs = ('escape', e)
        items.append((c, x, obs, render_convobj(c, x, obs)))
        issues = class_issues(c.term)
        if issues & SKIP:
            return out
        cause = cause_of(c.term, issues, x)
        if obs[0] != 'ok':
            out.append((f'C06:convert-rejects-own-value:{cause or head}', f'convert({x!r}, {T!r}) failed: {str(obs[1])[:200]}', None))
        elif canon(obs[1]) != canon(x) and 'FNan' not in canon(x):
            out.append((f'C06:convert-changes-value:{cause or head}', f'convert({x!r}, {T!r}) = {obs[1]!r}', None))
        return out
    return monitor


def native_cases():
    """natively built typed values, alone and nested in containers"""
    import pane
    from pane.types import Range, ValueOrList

    class Color(enum.Enum):
        RED = 'red'
        BLUE = 'blue'

    class Mode(str, enum.Enum):            # members ARE strings
        FAST = 'fast'
        SLOW = 'slow'

    class Prio(enum.IntEnum):              # members ARE ints
        LOW = 1
        HIGH = 2

    class Ratio(float, enum.Enum):
        HALF = 0.5

    class Level(enum.Enum):                # a member whose VALUE is None / falsy: the member is not None, 0 or ''
        UNSET = None
        LOW = 1

    class Zero(enum.Enum):
        OFF = 0
        ON = 1

    class Blank(enum.Enum):
        NONE = ''
        A = 'a'

    class Task(pane.PaneBase):
        mode: Mode = Mode.FAST
        prio: Prio = Prio.LOW
        modes: t.List[Mode] = pane.field(default_factory=list)
        by_prio: t.Dict[str, Prio] = pane.field(default_factory=dict)

    class P(pane.PaneBase):
        x: int
        y: t.List[float] = pane.field(default_factory=list)
        c: Color = Color.RED

    class Shape(pane.PaneBase):
        name: str

    class Circle(Shape):
        radius: float

    class Acc(pane.PaneBase):
        user_id: int = pane.field(in_names=['uid'])           # written under the Python name, which is always read back
        quota: float = 1.0

    class Ev(pane.PaneBase, in_rename=('camel', 'kebab')):    # input styles only: the output stays the Python name
        event_id: int
        label_text: str = 'l'
    base = [
        # typed values as KEYS of typed mappings (the key is serialised by the key type and read back by it)
        (t.Dict[decimal.Decimal, str], {decimal.Decimal('0.1'): 'reduced', decimal.Decimal('0.25'): 'full', decimal.Decimal('2.675'): 'x'}, 'Decimal keys'),
        (t.Dict[fractions.Fraction, int], {fractions.Fraction(1, 3): 1, fractions.Fraction(2): 2}, 'Fraction keys'),
        (t.Dict[t.Union[int, str], int], {'10': 1, 10: 2, 'true': 3, '1.5': 4, 'null': 5}, 'int|str keys'),
        (t.Dict[t.Union[str, int], int], {'10': 1, 10: 2}, 'str|int keys'), (t.Dict[float, int], {0.1: 1, 2.5: 2}, 'float keys'),
        (t.Dict[t.Optional[int], int], {None: 0, 1: 1}, 'optional-int keys'), (t.Dict[bool, int], {True: 1, False: 0}, 'bool keys'),
        (t.Dict[datetime.date, int], {datetime.date(2020, 1, 2): 1}, 'date keys'), (t.Dict[t.Tuple[int, int], str], {(1, 2): 'p'}, 'tuple keys'),
        (t.Dict[str, t.Dict[decimal.Decimal, int]], {'k': {decimal.Decimal('0.1'): 1}}, 'nested Decimal keys'),
        (Level, Level.UNSET, 'enum member valued None'), (t.Optional[Level], Level.UNSET, 'optional enum, member valued None'), (t.Optional[Level], Level.LOW, 'optional enum with a None-valued member'),
        (t.Union[Level, str], Level.UNSET, 'enum|str, member valued None'), (Zero, Zero.OFF, 'enum member valued 0'), (t.Optional[Zero], Zero.OFF, 'optional enum, member valued 0'),
        (t.Union[Zero, str], Zero.OFF, 'enum|str, member valued 0'), (Blank, Blank.NONE, "enum member valued ''"), (t.Optional[Blank], Blank.NONE, "optional enum, member valued ''"),
        (Mode, Mode.SLOW, 'str-enum'), (Prio, Prio.HIGH, 'int-enum'), (Ratio, Ratio.HALF, 'float-enum'), (t.Optional[Mode], Mode.FAST, 'optional str-enum'),
        (t.Union[Mode, str], Mode.FAST, 'str-enum|str'), (Task, Task.make_unchecked(Mode.SLOW, Prio.HIGH, [Mode.FAST], {'k': Prio.LOW}), 'dataclass with mixin-enum fields'),
        (Acc, Acc(7), 'in_names without the Python name'), (Ev, Ev(3), 'in_rename only'),
        (fractions.Fraction, fractions.Fraction(1, 3), 'Fraction'), (decimal.Decimal, decimal.Decimal('1.50'), 'Decimal'),
        (datetime.datetime, datetime.datetime(2020, 1, 2, 3, 4, 5), 'datetime'), (datetime.date, datetime.date(2020, 1, 2), 'date'),
        (datetime.time, datetime.time(3, 4, 5), 'time'), (pathlib.PurePosixPath, pathlib.PurePosixPath('a/b'), 'path'),
        (re.Pattern, re.compile('a+b'), 'pattern'), (re.Pattern, re.compile('a+b', re.IGNORECASE | re.MULTILINE), 'pattern-with-flags'), (t.Pattern[str], re.compile('x*'), 'pattern[str]'),
        (t.Set[int], {1, 2, 3}, 'set'), (t.FrozenSet[str], frozenset({'a', 'b'}), 'frozenset'),
        (t.Deque[int], collections.deque([1, 2]), 'deque'), (Color, Color.BLUE, 'enum'), (P, P(1, [2.0], Color.BLUE), 'dataclass'),
        (t.Tuple[int, str], (1, 'a'), 'tuple'), (t.Dict[str, t.Tuple[int, ...]], {'a': (1, 2)}, 'dict-of-tuples'),
        (t.Optional[P], P(2), 'optional-dataclass'), (t.Optional[P], None, 'optional-none'),
        (Range[int], Range(start=0, end=10, n=6), 'Range'), (ValueOrList[int], ValueOrList.from_val(3), 'ValueOrList'),
        (complex, 1 + 2j, 'complex'), (bytes, b'ab', 'bytes'),
    ]
    # dataclass fields typed as unions whose members overlap on *typed* values: the serialiser must not narrow the value
    # (values whose serialised form is read by an *earlier* member are the recorded overlapping-union finding and are left out)
    union_fields = [
        (t.Union[datetime.date, datetime.datetime], [datetime.datetime(2020, 1, 2, 3, 4, 5), datetime.date(2020, 1, 2)], 'date|datetime'),
        (t.Union[datetime.time, datetime.datetime], [datetime.datetime(2020, 1, 2, 3, 4, 5), datetime.time(3, 4)], 'time|datetime'),
        (t.Union[int, float], [1, 1.5, 2.0], 'int|float'), (t.Union[float, int], [1.5], 'float|int'),
        (t.Union[fractions.Fraction, decimal.Decimal], [fractions.Fraction(1, 3)], 'Fraction|Decimal'),
        (t.Union[t.Tuple[int, ...], t.List[int]], [(1, 2)], 'tuple|list'),
        (t.Union[t.FrozenSet[int], t.Set[int]], [frozenset({3})], 'frozenset|set'),
        (t.Optional[Level], [Level.UNSET, Level.LOW], 'optional enum with a None-valued member'), (t.Optional[Zero], [Zero.OFF, None], 'optional enum with a 0-valued member'),
        (t.Union[Color, str], [Color.RED, 'other'], 'enum|str'), (t.Union[bool, int], [True, 1, 0], 'bool|int'),
        (t.Optional[t.Union[int, P]], [P(1), 3, None], 'optional int|dataclass'),
        (t.Union[Shape, Circle], [Circle('c', 2.0), Shape('s')], 'base|subclass'), (t.Union[Circle, Shape], [Circle('c', 2.0), Shape('s')], 'subclass|base'),
        (t.Optional[t.Union[Shape, Circle]], [Circle('c', 2.0), None], 'optional base|subclass'),
    ]
    for uty, vals, label in union_fields:
        import types as _types
        F = _types.new_class('F_' + ''.join(ch for ch in label if ch.isalnum()), (pane.PaneBase,), {},
                             lambda d, uty=uty: d.update({'__annotations__': {'u': uty, 'many': t.List[uty]}, 'many': pane.field(default_factory=list)}))
        for v in vals:
            try:
                inst = F.make_unchecked(u=v, many=[v])
            except Exception:
                continue
            base.append((F, inst, f'field {label} = {type(v).__name__}'))
    out = list(base)
    for ty, v, label in base:
        if label in ('Range', 'ValueOrList'):
            continue
        out.append((t.List[ty], [v, v], 'list-of-' + label))
        out.append((t.Dict[str, ty], {'k': v}, 'dict-of-' + label))
        try:
            hash(v)
            out.append((t.Tuple[ty, ...], (v,), 'tuple-of-' + label))
        except TypeError:
            pass
    return out


def run(ctx, out):
    import families as _fameq
    out.evaluations += _fameq.equal_but_distinct_family(out, PROP)
    import families as _famni
    out.evaluations += _famni.noninit_roundtrip_family(out, PROP)
    import pane
    from pane.errors import ConvertError
    out.rule = ('(a) types x values produced by conversion: convert(x, T) == x with the same runtime classes; (b) natively built '
                'values (Fraction, Decimal, datetime/date/time, path, compiled pattern, set, frozenset, deque, enum member, dataclass '
                'instance, Range, ValueOrList) alone and nested in list/dict/tuple; (c) idempotence; (d) constructors given typed '
                'arguments. Types with externally/adjacently tagged unions are outside the property. Non-trivial = non-leaf type.')
    items = []
    cases = convprop.run(ctx, out, PROP, monitor_factory(items), cfg={'overlap': True, 'weights': {'class': 3.0, 'enum': 1.2, 'seq': 2.0, 'std': 1.5, 'union': 2.5}},
                         extra_cases=lambda rng: convprop.cases_from_pairs(gen.subclass_union_cases(rng), rng, 'subclass-union') + convprop.cases_from_pairs(gen.std_kind_cases(rng), rng, 'library-types'))
    # (b) native values
    n = 0
    for T, x, label in native_cases():
        n += 1
        with warnings.catch_warnings():
            warnings.simplefilter('ignore')
            try:
                y = pane.convert(x, T)
            except Exception as e:
                out.violation(f'C06:native:{label}:{type(e).__name__}', f'convert({x!r}, {T!r}) raised {type(e).__name__}: {str(e)[:200]}',
                              {'type': repr(T), 'value': repr(x)})
                continue
            if not (y == x and type(y) is type(x)):
                out.violation(f'C06:native:{label}:changed', f'convert({x!r}, {T!r}) = {y!r}', {'type': repr(T), 'value': repr(x)})
            # idempotence
            try:
                z = pane.convert(y, T)
                if not (z == y and type(z) is type(y)):
                    out.violation(f'C06:native:{label}:not-idempotent', f'convert(convert(x)) = {z!r} != {y!r}', {'type': repr(T)})
            except Exception as e:
                out.violation(f'C06:native:{label}:second-convert:{type(e).__name__}', f'second convert raised {e}', {'type': repr(T)})
    # (d) constructors accept already-typed arguments unchanged
    for c in cases:
        if c.term[0] == 'class' and c.fd_obs and c.fd_obs[0] == 'ok':
            x = c.fd_obs[1]
            issues = class_issues(c.term)
            if has_wrapped_tag(c.term) or issues & SKIP:
                continue
            info = type(x).__pane_info__
            kw = {f.name: getattr(x, f.name) for f in info.fields if f.init and f.name in x.__pane_set__}
            n += 1
            with warnings.catch_warnings():
                warnings.simplefilter('ignore')
                try:
                    y = type(x)(**kw)
                except Exception as e:
                    cause = cause_of(c.term, issues, x) or 'class'
                    out.violation(f'C06:ctor-rejects-typed-args:{cause}', f'{type(x).__name__}(**{kw!r}) raised {type(e).__name__}: {str(e)[:200]}', c.describe())
                    continue
                if canon(y) != canon(x) and 'FNan' not in canon(x):
                    cause = cause_of(c.term, issues, x) or 'class'
                    out.violation(f'C06:ctor-changes-typed-args:{cause}', f'{type(x).__name__}(**{kw!r}) = {y!r} != {x!r}', c.describe())
    out.evaluations += n
    out.extra['native_and_ctor_cases'] = n
    if any(f in ctx['failed_files'] for f in ('Model/Into.v', 'Run/AgreeInto.v')):
        out.oblige('corr_convobj', False, 'serialiser model does not build')
        return
    rendered = [it for it in items if it[3]]
    bad, errs = run_shards(PROP, 'convobj', convcases.HEADER_INTO, rendered, lambda it: it[3], per=250,
                           final='convobj_mismatches', ty='list convobj_case')
    out.extra['convobj_correspondence_cases'] = len(rendered)
    out.oblige('corr_convobj: model from_data(into_data(x)) = pane.convert(x, T) on every accepted value', not bad and not errs,
               f'{len(bad)} mismatches over {len(rendered)}, {len(errs)} shard errors')
    for e in errs[:2]:
        out.violation('C06:corr_convobj:shard-error', 'shard failed: ' + e[:500], {'correspondence': 'corr_convobj', 'error': e[:1500]}, no_input=True)
    if bad and not out.has_unlisted_input():
        c, x, obs, coq = rendered[bad[0]]
        out.violation('C06:corr_convobj', f'model and pane disagree on convert({x!r}, {c.built.py!r}) ({len(bad)} cases)',
                      {'correspondence': 'corr_convobj', 'type': repr(c.built.py), 'value': repr(x), 'observed': convcases.obs_repr(obs) if obs[0] != 'error' else str(obs[1])[:300]}, no_input=True)


def replay(rep, out):
    print(rep['what'])
    print(rep['replay'])
    return 0
