"""C04 -- only ConvertError escapes a conversion of interchange data; converter build totality."""
import enum
import io
import json
import typing as t
import warnings

import convprop
import gen
from terms import term_head

PROP = 'C04'
COQ_TARGETS = ['Props/C04.vo'] + convprop.CONV_TARGETS
GEN = convprop.MODEL_TABLES


def jsonable(v):
    if v is None or isinstance(v, (bool, str)):
        return True
    if isinstance(v, int):
        return abs(v) < 10**300
    if isinstance(v, float):
        return v == v and abs(v) != float('inf')
    if isinstance(v, (list, tuple)):
        return all(jsonable(x) for x in v)
    if isinstance(v, dict):
        return all(isinstance(k, str) and jsonable(x) for k, x in v.items())
    return False


def monitor(c):
    import pane
    from pane.errors import ConvertError
    out = []
    head = term_head(c.term)
    if c.try_obs[0] == 'build-error':
        out.append((f'C04:{head}:build-failed', f'make_converter({c.built.py!r}) failed for a documented type: {c.try_obs[1]!r}', None))
        return out
    for nm, o in (('try_convert', c.try_obs), ('collect_errors', c.col_obs), ('from_data', c.fd_obs)):
        if o and o[0] == 'escape':
            e = o[1]
            out.append((f'C04:{head}:{nm}:{type(e).__name__}',
                        f'{nm} of {c.value!r} for {c.built.py!r} raised {type(e).__name__}: {e}', {'exception': repr(e)}))
    # the other entry points: convert, Cls.from_data, from_json on a stream
    with warnings.catch_warnings():
        warnings.simplefilter('ignore')
        try:
            pane.convert(c.value, c.built.py)
        except ConvertError:
            pass
        except Exception as e:
            out.append((f'C04:{head}:convert:{type(e).__name__}', f'convert({c.value!r}, {c.built.py!r}) raised {type(e).__name__}: {e}', None))
        if c.term[0] == 'class':
            try:
                c.built.py.from_data(c.value)
            except ConvertError:
                pass
            except Exception as e:
                out.append((f'C04:{head}:Cls.from_data:{type(e).__name__}', f'{c.built.py!r}.from_data({c.value!r}) raised {type(e).__name__}: {e}', None))
        if jsonable(c.value):
            try:
                pane.io.from_json(io.StringIO(json.dumps(c.value)), c.built.py)
            except ConvertError:
                pass
            except Exception as e:
                out.append((f'C04:{head}:from_json:{type(e).__name__}', f'from_json of {c.value!r} as {c.built.py!r} raised {type(e).__name__}: {e}', None))
            try:
                import yaml
                pane.io.from_yaml(io.StringIO(yaml.safe_dump(json.loads(json.dumps(c.value)))), c.built.py)
            except ConvertError:
                pass
            except Exception as e:
                out.append((f'C04:{head}:from_yaml:{type(e).__name__}', f'from_yaml of {c.value!r} as {c.built.py!r} raised {type(e).__name__}: {e}', None))
    return out


def unsupported_types():
    import collections.abc
    import pane

    class Fl(enum.Flag):
        A = 1
        B = 2

    class Plain:
        pass
    return [
        ('ForwardRef', t.ForwardRef('Nope')), ('str forward reference', 'Nope'), ('Callable', t.Callable[[int], int]),
        ('Flag enum', Fl), ('abstract Collection', t.Collection[int]), ('abstract Iterable', t.Iterable[int]),
        ('unknown annotation', t.Annotated[int, 'junk']), ('plain class', Plain), ('object', object),
        ('Tagged around a non-union', t.Annotated[int, pane.annotations.Tagged('k')]),
        ('Type[int]', t.Type[int]), ('ClassVar', t.ClassVar[int]),
    ]


def foreign_mappings(out):
    """every collections.abc.Mapping is accepted as input: mappingproxy, a hand-written read-only Mapping, ChainMap, OrderedDict,
    a dict subclass -- through every converter that reads mappings (three tagged layouts, dataclass, struct literal, Dict,
    TypedDict-like struct): the outcome is a value or ConvertError, and the same as for the equal plain dict"""
    import collections
    import collections.abc
    import types as pytypes
    import typing as t
    import pane
    from pane.annotations import Tagged
    n = 0

    class RO(collections.abc.Mapping):
        def __init__(self, d):
            self._d = dict(d)

        def __getitem__(self, k):
            return self._d[k]

        def __iter__(self):
            return iter(self._d)

        def __len__(self):
            return len(self._d)

    class A(pane.PaneBase):
        kind: t.Literal['a'] = 'a'
        x: int = 0

    class B(pane.PaneBase):
        kind: t.Literal['b'] = 'b'
    targets = [('internally tagged', t.Annotated[t.Union[A, B], Tagged('kind')]), ('externally tagged', t.Annotated[t.Union[A, B], Tagged('kind', external=True)]),
               ('adjacently tagged', t.Annotated[t.Union[A, B], Tagged('kind', external=('t', 'c'))]), ('dataclass', A), ('struct literal', {'x': int}),
               ('Dict[str, int]', t.Dict[str, int]), ('Optional[dataclass]', t.Optional[A]), ('List[tagged]', t.List[t.Annotated[t.Union[A, B], Tagged('kind')]])]
    contents = [{'kind': 'a', 'x': 1}, {'kind': 'b'}, {'kind': 'zzz'}, {'x': 1}, {'a': {'x': 1}}, {'t': 'a', 'c': {'x': 2}}, {}, {'x': 'no'}, {'kind': 'a', 'x': 'no'}]
    makers = [('mappingproxy', pytypes.MappingProxyType), ('read-only Mapping', RO), ('ChainMap', lambda d: collections.ChainMap(dict(d))),
              ('OrderedDict', collections.OrderedDict), ('UserDict', collections.UserDict)]
    with warnings.catch_warnings():
        warnings.simplefilter('ignore')
        for label, ty in targets:
            for c in contents:
                data0 = [c] if label == 'List[tagged]' else c
                try:
                    want = ('ok', repr(pane.from_data(data0, ty)))
                except pane.ConvertError:
                    want = ('error',)
                except Exception as e:
                    want = ('escape', type(e).__name__)
                for mname, mk in makers:
                    n += 1
                    m = mk(c)
                    data = [m] if label == 'List[tagged]' else m
                    try:
                        got = ('ok', repr(pane.from_data(data, ty)))
                    except pane.ConvertError:
                        got = ('error',)
                    except Exception as e:
                        out.violation(f'C04:foreign-mapping:{type(e).__name__}', f'from_data({mname}({c!r}), {label}) raised {type(e).__name__}: {str(e)[:120]}; the plain dict gives {want[0]}',
                                      {'mapping': mname, 'content': repr(c), 'target': label})
                        continue
                    if got != want and want[0] != 'escape':
                        out.violation('C04:foreign-mapping:differs', f'from_data({mname}({c!r}), {label}) gives {got}, the equal plain dict gives {want}', {'mapping': mname, 'content': repr(c), 'target': label})
    return n


def run(ctx, out):
    out.evaluations += foreign_mappings(out)
    from pane.convert import make_converter
    from pane.errors import UnsupportedAnnotation
    out.rule = ('types from the grammar x values with adversarial leaves (unhashable / odd tags and keys, strings that make '
                'constructors raise, 10**400, NaN/inf, raising predicates and hooks) at any depth; entry points try_convert, '
                'collect_errors, from_data, convert, Cls.from_data, from_json/from_yaml on streams; plus a fixed list of '
                'unsupported annotations that must fail at build time with TypeError/UnsupportedAnnotation. '
                'Non-trivial = non-leaf type; distinct by (type term, value).')
    convprop.run(ctx, out, PROP, monitor, cfg={'weights': {'tagged': 1.6, 'cond': 1.8, 'dict': 1.8, 'class': 2.0, 'enum': 1.0, 'std': 2.5}, 'enum_tuple': True}, extra_cases=lambda rng: convprop.cases_from_pairs(gen.tagged_shape_cases(rng), rng, 'tagged-shapes') + convprop.cases_from_pairs(gen.std_kind_cases(rng), rng, 'library-types') + convprop.cases_from_pairs(gen.raising_predicate_cases(rng), rng, 'raising-predicates') + convprop.cases_from_pairs(gen.cond_on_converted_cases(rng), rng, 'conditions-on-converted-values') + convprop.cases_from_pairs(gen.degenerate_class_cases(rng), rng, 'degenerate-classes'))
    # ints beyond the interpreter's int -> str digit limit (sys.get_int_max_str_digits(), 4300 by default) are interchange data too
    import sys
    import typing as _t
    import pane
    lim = sys.get_int_max_str_digits() if hasattr(sys, 'get_int_max_str_digits') else 0
    if lim:
        big = 10 ** (lim + 100)
        probes = [('mapping key', _t.Dict[int, int], {big: 'x'}), ('mapping value', _t.Dict[str, int], {'a': 'x', 'b': big}),
                  ('list element', _t.List[str], [big]), ('scalar', str, big), ('float target', float, big), ('accepted', int, big),
                  ('dataclass field', None, {'x': big})]

        class _Big(pane.PaneBase):
            x: str
        for label, ty, v in probes:
            out.evaluations += 1
            try:
                pane.from_data(v, ty if ty is not None else _Big)
            except pane.ConvertError:
                pass
            except Exception as e:
                out.violation(f'C04:int-beyond-str-digit-limit:{label}:{type(e).__name__}',
                              f'from_data of an int of {lim + 101} digits ({label}, target {ty!r}) raised {type(e).__name__} instead of ConvertError',
                              {'value': f'10 ** {lim + 100}', 'position': label, 'type': repr(ty)})
    n = 0
    for label, ty in unsupported_types():
        n += 1
        try:
            with warnings.catch_warnings():
                warnings.simplefilter('ignore')
                make_converter(ty)
            out.violation(f'C04:unsupported-accepted:{label}', f'make_converter accepted the unsupported annotation {label}', {'type': label})
        except (TypeError, UnsupportedAnnotation):
            pass
        except Exception as e:
            out.violation(f'C04:unsupported:{label}:{type(e).__name__}',
                          f'make_converter({label}) raised {type(e).__name__}: {e} (expected TypeError or UnsupportedAnnotation)', {'type': label})
    out.extra['unsupported_annotations_checked'] = n
    out.evaluations += n


def replay(rep, out):
    print(rep['what'])
    print(rep['replay'])
    return 0
