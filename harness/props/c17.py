"""C17 -- inheritance and generics resolve fields, order and types correctly."""
import inspect
import random
import types as pytypes
import typing as t
import warnings

import terms
from common import run_shards, coq_str

PROP = 'C17'
COQ_TARGETS = ['Props/C17.vo', 'Run/AgreeProcess.vo']
GEN = ['GenHash']

NAMES = ['a', 'b', 'c', 'd', 'e']


def gen_level(rng, inherited_has_default):
    """items of one class body: ('field', name, kw_only_flag, has_default) | ('kw',)"""
    items = []
    for nm in rng.sample(NAMES, rng.randint(0, 3)):
        if rng.random() < 0.15:
            items.append(('kw',))
        items.append(('field', nm, rng.random() < 0.12, rng.random() < 0.55))
    return items


def build_hierarchy(rng, depth):
    """a chain of pane classes; returns (list of (cls, items, class kw_only option)) or None when pane refuses the definition"""
    import pane
    chain = []
    base = pane.PaneBase
    for lvl in range(depth):
        items = gen_level(rng, None)
        opt_kw = rng.choice([None, None, None, True, False])
        ann, ns = {}, {}
        k = 0
        for it in items:
            if it[0] == 'kw':
                ann[f'_kw{lvl}_{k}'] = pane.KW_ONLY
                k += 1
                continue
            _, nm, kwf, dflt = it
            ann[nm] = int
            kw = {}
            if kwf:
                kw['kw_only'] = True
            if dflt:
                kw['default'] = lvl
            if kw:
                ns[nm] = pane.field(**kw)
        ns['__annotations__'] = ann
        opts = {} if opt_kw is None else {'kw_only': opt_kw}
        try:
            cls = pytypes.new_class(terms.fresh_name('H'), (base,), opts, lambda d: d.update(ns))
        except TypeError:
            return None
        terms.KEEP.append(cls)
        chain.append((cls, items, opt_kw))
        base = cls
    return chain


def render_case(chain):
    levels = []
    for cls, items, _ in chain:
        its = []
        for it in items:
            if it[0] == 'kw':
                its.append('AKwMarker')
            else:
                its.append(f'(AField {coq_str(it[1])} {"true" if it[2] else "false"} {"true" if it[3] else "false"} (EConst "int"))')
        eff_kw = cls.__pane_info__.opts.kw_only
        levels.append(f'(mkLevel {"true" if eff_kw else "false"} [' + '; '.join(its) + '] [])')
    top = chain[-1][0]
    info = top.__pane_info__
    obs = '[' + '; '.join(f'({coq_str(f.name)}, {"true" if f.kw_only else "false"}, {"true" if f.has_default() else "false"})' for f in info.fields) + ']'
    return f'([' + '; '.join(levels) + f'], {obs}, ({info.pos_args[0]}, {info.pos_args[1]}))'


def expected_fields(chain):
    """independent reading of the property: bases in MRO order, redeclared fields override in place, then own, kw-only last"""
    order, desc = [], {}
    for cls, items, _ in chain:
        kw = bool(cls.__pane_info__.opts.kw_only)
        for it in items:
            if it[0] == 'kw':
                kw = True
                continue
            _, nm, kwf, dflt = it
            if nm not in desc:
                order.append(nm)
            desc[nm] = (kwf or kw, dflt)
    return [n for n in order if not desc[n][0]] + [n for n in order if desc[n][0]], desc


def monitor_chain(chain, out):
    top = chain[-1][0]
    info = top.__pane_info__
    want, desc = expected_fields(chain)
    got = [f.name for f in info.fields]
    label = ' <- '.join(c.__name__ for c, _, _ in chain)
    if got != want:
        out.violation('C17:field-order', f'{label}: fields {got}, expected {want} (bases first, overriding in place, keyword-only last)', {'classes': label})
        return
    sig = [p for p in inspect.signature(top).parameters]
    if sig != want:
        out.violation('C17:signature-order', f'{label}: constructor signature {sig}, fields {want}', {'classes': label})
    kinds = [inspect.signature(top).parameters[n].kind.name for n in want]
    for n, kd in zip(want, kinds):
        if (kd == 'KEYWORD_ONLY') != desc[n][0]:
            out.violation('C17:signature-kind', f'{label}: parameter {n} is {kd}, keyword-only should be {desc[n][0]}', {'classes': label})
    # repr and tuple layout follow the same order
    kw = {n: i for i, n in enumerate(want)}
    try:
        x = top(**kw)
    except Exception as e:
        out.violation(f'C17:construct:{type(e).__name__}', f'{label}: {top.__name__}(**{kw}) raised {e}', {'classes': label})
        return
    want_repr = f'{top.__name__}(' + ', '.join(f'{n}={i}' for n, i in kw.items()) + ')'
    if repr(x) != want_repr:
        out.violation('C17:repr-order', f'{label}: repr {repr(x)!r}, expected {want_repr!r}', {'classes': label})


def ty_equiv(a, b):
    """equality of type expressions up to spelling (typing.List[int] vs list[int], Optional vs Union)"""
    oa, ob = t.get_origin(a) or a, t.get_origin(b) or b
    if oa in (t.Union, pytypes.UnionType) and ob in (t.Union, pytypes.UnionType):
        return set(map(repr, t.get_args(a))) == set(map(repr, t.get_args(b))) or all(any(ty_equiv(x, y) for y in t.get_args(b)) for x in t.get_args(a))
    if oa is not ob:
        return False
    aa, ab = t.get_args(a), t.get_args(b)
    return len(aa) == len(ab) and all(ty_equiv(x, y) for x, y in zip(aa, ab))


def nesting_depth_checks(out):
    """"through any depth": a type variable under every chain of 1-3 wrappers (4 for the generic dataclasses alone) drawn from
    two generic dataclasses, List, Optional, Tuple[_, int] and Dict[str, _] -- e.g. Mid[Inner[T]], Box[List[G[T]]] -- as the
    type of a field of a generic dataclass N.  For N[int], for Sub(N[T], Generic[T])[int] and for a plain subclass of N[int]:
    the field type is the chain over int, data with an int at the leaf is accepted and data with a str there is refused."""
    import itertools
    import types as _types
    import typing as t
    import pane
    T = t.TypeVar('T')
    n = 0

    class G(pane.PaneBase, t.Generic[T]):
        x: T

    class Box(pane.PaneBase, t.Generic[T]):
        held: T
    W = {
        'G': (lambda a: G[a], lambda d: {'x': d}), 'Box': (lambda a: Box[a], lambda d: {'held': d}),
        'List': (lambda a: t.List[a], lambda d: [d]), 'Opt': (lambda a: t.Optional[a], lambda d: d),
        'Tup': (lambda a: t.Tuple[a, int], lambda d: [d, 0]), 'Dict': (lambda a: t.Dict[str, a], lambda d: {'k': d}),
    }
    chains = [c for k in (1, 2, 3) for c in itertools.product(W, repeat=k)] + list(itertools.product(('G', 'Box'), repeat=4))

    def over(chain, leaf):
        ty = leaf
        for w in reversed(chain):
            ty = W[w][0](ty)
        return ty

    def data(chain, leaf):
        d = leaf
        for w in reversed(chain):
            d = W[w][1](d)
        return d
    with warnings.catch_warnings():
        warnings.simplefilter('ignore')
        for chain in chains:
            label = '['.join(chain) + '[T' + ']' * len(chain)
            try:
                ann = over(chain, T)
                N = _types.new_class('N', (pane.PaneBase, t.Generic[T]), {}, lambda ns: ns.update({'__annotations__': {'f': ann}, '__module__': __name__}))
                S = _types.new_class('S', (N[T], t.Generic[T]), {}, lambda ns: ns.update({'__annotations__': {}, '__module__': __name__}))
                C = _types.new_class('C', (N[int],), {}, lambda ns: ns.update({'__annotations__': {}, '__module__': __name__}))
                targets = [('N[int]', N[int]), ('Sub(N[T], Generic[T])[int]', S[int]), ('a subclass of N[int]', C)]
            except Exception as e:
                out.violation(f'C17:nesting-depth:{type(e).__name__}', f'a generic dataclass with a field typed {label}: declaring / subscripting raised {type(e).__name__}: {str(e)[:160]}', {'chain': list(chain)})
                continue
            want = over(chain, int)
            good, bad = {'f': data(chain, 1)}, {'f': data(chain, 'not an int')}
            for how, cls in targets:
                n += 1
                got = {f.name: f.type for f in cls.__pane_info__.fields}.get('f')
                if not ty_equiv(got, want) and repr(got).replace('typing.', '').lower() != repr(want).replace('typing.', '').lower():
                    out.violation('C17:nesting-depth:field-type', f'field f: {label} of N; in {how} it has type {got!r}, expected {want!r}', {'chain': list(chain), 'how': how})
                    continue
                try:
                    cls.from_data(good)
                except Exception as e:
                    out.violation('C17:nesting-depth:rejects-valid', f'field f: {label}; {how}.from_data({good!r}) raised {type(e).__name__}: {str(e)[:160]}', {'chain': list(chain), 'how': how})
                    continue
                try:
                    x = cls.from_data(bad)
                    out.violation('C17:nesting-depth:not-enforced', f'field f: {label}; {how}.from_data({bad!r}) accepted a str where the substituted type has int: {x!r}', {'chain': list(chain), 'how': how})
                except pane.ConvertError:
                    pass
    return n



def subst_cases(rng, n):
    """(bindings, expression, observed, py_expression, py_bindings, py_observed) for random type expressions over int/str/float,
    List, Dict[str, _], Tuple[_, _] and two generic dataclasses G[_], G2[_, _], nested up to depth 4; random bindings of a subset
    of four type variables to expressions that may mention type variables themselves (the substitution is simultaneous)."""
    import pane
    from pane.util import replace_typevars
    TV = [t.TypeVar(f'T{i}') for i in range(4)]
    CONST = {'int': int, 'str': str, 'float': float}
    ns = {}
    exec('import typing as t, pane\n'
         'class G(pane.PaneBase, t.Generic[A]):\n    x: A\n'
         'class G2(pane.PaneBase, t.Generic[A, B]):\n    x: A\n    y: B\n', {'A': TV[0], 'B': TV[1], '__name__': __name__}, ns)
    G, G2 = ns['G'], ns['G2']

    def g_exp(depth):
        r = rng.random()
        if depth <= 0 or r < 0.25:
            return ('var', rng.randrange(4)) if rng.random() < 0.6 else ('const', rng.choice(list(CONST)))
        k = rng.choice(['list', 'dict', 'tuple', 'G', 'G', 'G2'])
        if k in ('list', 'G'):
            return ('app', k, [g_exp(depth - 1)])
        if k == 'dict':
            return ('app', k, [('const', 'str'), g_exp(depth - 1)])
        return ('app', k, [g_exp(depth - 1), g_exp(depth - 1)])

    def to_py(e):
        if e[0] == 'var':
            return TV[e[1]]
        if e[0] == 'const':
            return CONST[e[1]]
        a = [to_py(x) for x in e[2]]
        return {'list': lambda: t.List[a[0]], 'dict': lambda: t.Dict[a[0], a[1]], 'tuple': lambda: t.Tuple[a[0], a[1]],
                'G': lambda: G[a[0]], 'G2': lambda: G2[a[0], a[1]]}[e[1]]()

    def to_exp(ty):
        if isinstance(ty, t.TypeVar):
            return ('var', TV.index(ty))
        for k, v in CONST.items():
            if ty is v:
                return ('const', k)
        o = t.get_origin(ty)
        if o in (list, dict, tuple):
            return ('app', o.__name__, [to_exp(x) for x in t.get_args(ty)])
        if isinstance(ty, type) and ty.__dict__.get('__pane_boundvars__'):
            return ('app', ty.__dict__['__origin__'].__name__, [to_exp(x) for x in ty.__dict__['__pane_boundvars__'].values()])
        raise ValueError(f'not an expression of the grammar: {ty!r}')

    out = []
    # the shapes "through any depth" is about, deterministically: a variable under 1-4 generic dataclasses / containers
    fixed = []
    for chain in [['G'], ['G', 'G'], ['G', 'G', 'G'], ['G', 'list', 'G'], ['list', 'G', 'G'], ['G', 'G', 'G', 'G'], ['G2'], ['G', 'G2'], ['G2', 'G'], ['tuple', 'G', 'G2']]:
        e = ('var', 0)
        for k in reversed(chain):
            e = ('app', k, [e]) if k in ('G', 'list') else ('app', k, [e, ('var', 1)])
        fixed.append((e, {0: ('const', 'int')}))
        fixed.append((e, {0: ('const', 'int'), 1: ('app', 'list', [('var', 0)])}))
        fixed.append((e, {1: ('const', 'str')}))
    with warnings.catch_warnings():
        warnings.simplefilter('ignore')
        for i in range(n):
            if i < len(fixed):
                e, b = fixed[i]
            else:
                e = g_exp(rng.randint(1, 4))
                b = {v: g_exp(rng.randint(0, 2)) for v in rng.sample(range(4), rng.randint(0, 4))}
            try:
                py = to_py(e)
                if to_exp(py) != e:
                    continue
                pyb = {TV[v]: to_py(x) for v, x in b.items()}
                if any(to_exp(pyb[TV[v]]) != x for v, x in b.items()):
                    continue
            except Exception:
                continue
            try:
                got = replace_typevars(py, pyb)
                obs = to_exp(got)
            except Exception as ex:
                out.append((b, e, None, py, pyb, ex))
                continue
            out.append((b, e, obs, py, pyb, got))
    return out


def exp_vars(e):
    if e[0] == 'var':
        return {e[1]}
    if e[0] == 'const':
        return set()
    return set().union(*[exp_vars(x) for x in e[2]]) if e[2] else set()


def exp_to_coq(e):
    if e[0] == 'var':
        return f'(EVar {e[1]})'
    if e[0] == 'const':
        return f'(EConst "{e[1]}")'
    return f'(EApp "{e[1]}" [' + '; '.join(exp_to_coq(x) for x in e[2]) + '])'


def render_subst_case(c):
    b, e, obs = c[0], c[1], c[2]
    return '([' + '; '.join(f'({v}, {exp_to_coq(x)})' for v, x in sorted(b.items())) + f'], {exp_to_coq(e)}, {exp_to_coq(obs)})'


GENERIC_CASES = '''
T = t.TypeVar('T'); U = t.TypeVar('U'); V = t.TypeVar('V'); W = t.TypeVar('W')
class G(pane.PaneBase, t.Generic[T, U]):
    a: T
    b: t.List[U]
    c: t.Dict[str, t.Tuple[T, U]] = pane.field(default_factory=dict)
class Bound(G[int, str]):
    d: float = 0.0
class Fwd(G[int, V]):
    e: t.Optional[V] = None
class Redecl(G[int, V], t.Generic[V]):
    e: t.Optional[V] = None
class Deep(Fwd[W], t.Generic[W]):
    f: t.List[W] = pane.field(default_factory=list)
class Swap(G[U, T], t.Generic[T, U]):
    pass
class Partial(G[T, str], t.Generic[T]):
    g: T = None
'''



def shared_typevar_checks(out):
    """one module-level TypeVar used by several generic classes (the usual style): a variable bound by one base is not bound in
    the class's own fields or in the fields of an unrelated base; re-declared parameters are subscripted in their declared order;
    a field annotated with a BARE generic class stays bare when the enclosing class is subscripted"""
    import typing as t
    import pane
    T, U, V, W = t.TypeVar('T'), t.TypeVar('U'), t.TypeVar('V'), t.TypeVar('W')
    n = 0

    class G(pane.PaneBase, t.Generic[T]):
        x: T

    class G2(pane.PaneBase, t.Generic[T, U]):
        x: T
        y: U

    class A(pane.PaneBase, t.Generic[T]):
        a: T

    class B(pane.PaneBase, t.Generic[T]):
        b: T

    class Box(pane.PaneBase, t.Generic[T]):
        held: T

    def mk():
        class C1(G[int], t.Generic[T]):
            z: T

        class H(G[t.List[T]], t.Generic[T]):
            y: T

        class AB3(A[int], B):
            pass

        class H2(G2[int, V], t.Generic[W, V]):
            w: W

        class H3(G2[int, V], t.Generic[V]):
            pass

        class Swap(G2[U, T], t.Generic[T, U]):
            pass

        class Triple(G2[int, V], t.Generic[W]):
            c: W

        class Crate(pane.PaneBase, t.Generic[T]):
            item: T
            anything: Box = None
            boxes: t.List[Box] = pane.field(default_factory=list)

        class Sub(G[int]):
            extra: Box = None

        class Nest(pane.PaneBase, t.Generic[T]):
            g: G[T]
            gs: t.List[G[T]] = pane.field(default_factory=list)
            deep: t.Optional[G[t.List[T]]] = None
            pair: t.Optional[G2[T, int]] = None

        class NestSub(Nest[str]):
            pass
        return [
            ('Nest[int] with fields typed G[T], List[G[T]], G[List[T]], G2[T, int]', lambda: Nest[int], {'g': G[int], 'gs': t.List[G[int]], 'deep': t.Optional[G[t.List[int]]], 'pair': t.Optional[G2[int, int]]},
             {'g': {'x': 1}, 'gs': [{'x': 2}], 'deep': {'x': [3]}, 'pair': {'x': 4, 'y': 5}},
             [{'g': {'x': 's'}}, {'g': {'x': 1}, 'gs': [{'x': 's'}]}, {'g': {'x': 1}, 'deep': {'x': ['s']}}, {'g': {'x': 1}, 'pair': {'x': 's', 'y': 1}}]),
            ('NestSub(Nest[str])', lambda: NestSub, {'g': G[str], 'gs': t.List[G[str]]}, {'g': {'x': 's'}, 'gs': [{'x': 't'}]}, [{'g': {'x': 1}}, {'g': {'x': 's'}, 'gs': [{'x': 1}]}]),
            ('C1(G[int], Generic[T]) z: T', lambda: C1, {'x': int, 'z': T}, None, None),
            ('C1[str]', lambda: C1[str], {'x': int, 'z': str}, {'x': 1, 'z': 's'}, [{'x': 1, 'z': 2}, {'x': 's', 'z': 's'}]),
            ('H(G[List[T]], Generic[T])[int]', lambda: H[int], {'x': t.List[int], 'y': int}, {'x': [1], 'y': 2}, [{'x': [[1]], 'y': 2}, {'x': [1], 'y': [2]}, {'x': 1, 'y': 2}]),
            ('AB3(A[int], B) with bare B', lambda: AB3, {'a': int, 'b': T}, {'a': 1, 'b': 'anything'}, [{'a': 's'}]),
            ('H2(G2[int, V], Generic[W, V])[str, float]', lambda: H2[str, float], {'x': int, 'y': float, 'w': str}, {'x': 1, 'y': 2.5, 'w': 's'}, [{'x': 1, 'y': 's', 'w': 's'}, {'x': 1, 'y': 2.5, 'w': 2.5}]),
            ('H3(G2[int, V], Generic[V])[str]', lambda: H3[str], {'x': int, 'y': str}, {'x': 1, 'y': 's'}, [{'x': 1, 'y': 2}]),
            ('Swap(G2[U, T], Generic[T, U])[int, str]', lambda: Swap[int, str], {'x': str, 'y': int}, {'x': 's', 'y': 1}, [{'x': 1, 'y': 1}, {'x': 's', 'y': 's'}]),
            ('Triple(G2[int, V], Generic[W])[str, float]: forwarded parameters first', lambda: Triple[str, float], {'x': int, 'y': str, 'c': float},
             {'x': 1, 'y': 's', 'c': 2.5}, [{'x': 1, 'y': 2.5, 'c': 2.5}, {'x': 1, 'y': 's', 'c': 's'}]),
            ('Crate[str] with a bare Box field', lambda: Crate[str], {'item': str, 'anything': Box, 'boxes': t.List[Box]},
             {'item': 's', 'anything': {'held': 5}, 'boxes': [{'held': 1.5}, {'held': 's'}]}, [{'item': 1}]),
            ('Sub(G[int]) with a bare Box field', lambda: Sub, {'x': int, 'extra': Box}, {'x': 1, 'extra': {'held': 's'}}, [{'x': 's'}]),
        ]
    with warnings.catch_warnings():
        warnings.simplefilter('ignore')
        try:
            rows = mk()
        except Exception as e:
            out.violation(f'C17:shared-typevar:{type(e).__name__}', f'declaring the classes raised {type(e).__name__}: {str(e)[:200]}', {'case': 'declaration'})
            return 1
        for label, get, types, good, bads in rows:
            n += 1
            try:
                cls = get()
            except Exception as e:
                out.violation(f'C17:shared-typevar:{type(e).__name__}', f'{label}: raised {type(e).__name__}: {str(e)[:200]}', {'case': label})
                continue
            got = {f.name: f.type for f in cls.__pane_info__.fields}
            for k, want in types.items():
                if repr(got.get(k)).replace('typing.', '').lower() != repr(want).replace('typing.', '').lower():
                    out.violation('C17:shared-typevar:field-type', f'{label}: field {k} has type {got.get(k)!r}, expected {want!r}', {'case': label, 'field': k})
            if good is not None:
                try:
                    cls.from_data(good)
                except Exception as e:
                    out.violation('C17:shared-typevar:rejects-valid', f'{label}.from_data({good!r}) raised {type(e).__name__}: {str(e)[:160]}', {'case': label})
            for bad in bads or []:
                n += 1
                try:
                    x = cls.from_data(bad)
                    out.violation('C17:shared-typevar:not-enforced', f'{label}.from_data({bad!r}) accepted: {x!r}', {'case': label})
                except pane.ConvertError:
                    pass
    return n


def diamond_checks(rng, out, rounds):
    """multiple inheritance: every field is the one of the LAST declaration in base-first MRO order (type, default, position)"""
    import pane
    tys = [int, float, str, bytes, bool, complex]
    n = 0
    for _ in range(rounds):
        decls = {}

        def mk(name, bases, fields):
            ann = {nm: ty for nm, (ty, _) in fields.items()}
            ns = {'__annotations__': ann}
            for nm, (ty, dflt) in fields.items():
                ns[nm] = dflt
            cls = pytypes.new_class(terms.fresh_name(name), bases, {}, lambda d: d.update(ns))
            terms.KEEP.append(cls)
            decls[cls] = fields
            return cls

        def fields_for(names, lvl):
            out_f = {}
            for nm in names:
                ty = rng.choice(tys)
                out_f[nm] = (ty, {int: lvl, float: lvl + 0.5, str: f's{lvl}', bytes: bytes([65 + lvl]), bool: bool(lvl % 2), complex: complex(lvl, 1)}[ty])
            return out_f
        try:
            A = mk('DA', (pane.PaneBase,), fields_for(rng.sample(NAMES, rng.randint(1, 3)), 0))
            B = mk('DB', (A,), fields_for(rng.sample(NAMES, rng.randint(0, 2)), 1))
            C = mk('DC', (A,), fields_for(rng.sample(NAMES, rng.randint(0, 2)), 2))
            order = rng.choice([(B, C), (C, B)])
            D = mk('DD', order, fields_for(rng.sample(NAMES, rng.randint(0, 1)), 3))
            tops = [D]
            if rng.random() < 0.5:
                E = mk('DE', (D,), fields_for(rng.sample(NAMES, rng.randint(0, 1)), 4))
                tops.append(E)
        except TypeError:
            continue
        for top in tops:
            n += 1
            want_order, win = [], {}
            for cls in reversed(top.__mro__):
                for nm, decl in decls.get(cls, {}).items():
                    if nm not in win:
                        want_order.append(nm)
                    win[nm] = (cls, decl)
            label = f'{top.__name__}({", ".join(b.__name__ for b in top.__bases__)}) over ' + ' '.join(c.__name__ for c in top.__mro__[1:-3])
            got = [(f.name, f.type, f.default) for f in top.__pane_info__.fields]
            if [g[0] for g in got] != want_order:
                out.violation('C17:diamond:field-order', f'{label}: fields {[g[0] for g in got]}, expected {want_order}', {'classes': label})
                continue
            for (nm, ty, dflt) in got:
                wcls, (wty, wdflt) = win[nm]
                if ty is not wty or type(dflt) is not type(wdflt) or dflt != wdflt:
                    out.violation('C17:diamond:wrong-declaration-wins', f'{label}: field {nm} is ({ty.__name__} = {dflt!r}); the last declaration in '
                                  f'base-first MRO order is {wcls.__name__}\'s ({wty.__name__} = {wdflt!r})', {'classes': label, 'field': nm})
            x = top()
            for nm in want_order:
                wcls, (wty, wdflt) = win[nm]
                if type(getattr(x, nm)) is not type(wdflt) or getattr(x, nm) != wdflt:
                    out.violation('C17:diamond:default', f'{label}: {top.__name__}().{nm} = {getattr(x, nm)!r}, expected {wdflt!r}', {'classes': label})
    return n


def generic_checks(out):
    import pane
    ns = {'t': t, 'pane': pane}
    with warnings.catch_warnings():
        warnings.simplefilter('ignore')
        exec(GENERIC_CASES, ns)
    n = 0
    table = [
        ('Bound', ns['Bound'], {'a': int, 'b': t.List[str], 'c': t.Dict[str, t.Tuple[int, str]], 'd': float},
         {'a': 1, 'b': ['x'], 'c': {'k': (1, 'y')}}, [{'a': 'x', 'b': []}, {'a': 1, 'b': [2]}, {'a': 1, 'b': [], 'c': {'k': ('q', 'y')}}]),
        ('Fwd[str]', ns['Fwd'][str], {'a': int, 'b': t.List[str], 'e': t.Optional[str]}, {'a': 1, 'b': ['x'], 'e': 's'},
         [{'a': 1, 'b': [1]}, {'a': 1, 'b': [], 'e': 5}]),
        ('Redecl[str]', ns['Redecl'][str], {'a': int, 'b': t.List[str], 'e': t.Optional[str]}, {'a': 1, 'b': ['x'], 'e': 's'},
         [{'a': 1, 'b': [1]}, {'a': 1, 'b': [], 'e': 5}]),
        ('Deep[bytes]', ns['Deep'][bytes], {'a': int, 'b': t.List[bytes], 'e': t.Optional[bytes], 'f': t.List[bytes]}, {'a': 1, 'b': [b'x'], 'f': [b'y']},
         [{'a': 1, 'b': ['x']}, {'a': 1, 'b': [], 'f': ['s']}]),
        ('Swap[int, str]', ns['Swap'][int, str], {'a': str, 'b': t.List[int]}, {'a': 's', 'b': [1]}, [{'a': 1, 'b': [1]}, {'a': 's', 'b': ['x']}]),
        ('Partial[float]', ns['Partial'][float], {'a': float, 'b': t.List[str], 'g': float}, {'a': 1.5, 'b': ['x'], 'g': 2.5}, [{'a': 's', 'b': []}, {'a': 1.0, 'b': [1]}]),
        ('G[int, G[str, int]]', ns['G'][int, ns['G'][str, int]], {'a': int}, {'a': 1, 'b': [{'a': 's', 'b': [1]}]}, [{'a': 1, 'b': [{'a': 1, 'b': [1]}]}]),
        # a generic re-parameterised with its own type variables in other positions, then bound
        ('G[U, T][int, str]', ns['G'][ns['U'], ns['T']][int, str], {'a': int, 'b': t.List[str], 'c': t.Dict[str, t.Tuple[int, str]]},
         {'a': 1, 'b': ['x']}, [{'a': 'x', 'b': []}, {'a': 1, 'b': [2]}]),
        ('G[U, int][str]', ns['G'][ns['U'], int][str], {'a': str, 'b': t.List[int]}, {'a': 's', 'b': [1]}, [{'a': 1, 'b': [1]}, {'a': 's', 'b': ['x']}]),
        ('G[T, T][bytes]', ns['G'][ns['T'], ns['T']][bytes], {'a': bytes, 'b': t.List[bytes]}, {'a': b'x', 'b': [b'y']}, [{'a': 'x', 'b': []}, {'a': b'x', 'b': ['y']}]),
        ('G[V, W][int, str]', ns['G'][ns['V'], ns['W']][int, str], {'a': int, 'b': t.List[str]}, {'a': 1, 'b': ['x']}, [{'a': 'x', 'b': []}]),
    ]
    for label, cls, types, good, bads in table:
        n += 1
        got = {f.name: f.type for f in cls.__pane_info__.fields}
        for name, ty in types.items():
            if name not in got or not ty_equiv(got[name], ty):
                out.violation(f'C17:generic-substitution:{label}', f'{label}: field {name} has type {got.get(name)!r}, expected {ty!r}', {'class': label})
        if cls.__parameters__ != ():
            out.violation(f'C17:generic-parameters-left:{label}', f'{label}: still has parameters {cls.__parameters__}', {'class': label})
        with warnings.catch_warnings():
            warnings.simplefilter('ignore')
            try:
                cls.from_data(good)
            except Exception as e:
                out.violation(f'C17:generic-rejects-valid:{label}', f'{label}.from_data({good!r}) raised {type(e).__name__}: {str(e)[:150]}', {'class': label})
            for bad in bads:
                n += 1
                try:
                    x = cls.from_data(bad)
                    out.violation(f'C17:generic-not-enforced:{label}', f'{label}.from_data({bad!r}) accepted: {x!r} (substituted types not enforced)', {'class': label})
                except pane.ConvertError:
                    pass
                except Exception as e:
                    out.violation(f'C17:generic-escape:{label}', f'{label}.from_data({bad!r}) raised {type(e).__name__}', {'class': label})
    for label, cls, params in (('Fwd', ns['Fwd'], 1), ('Redecl', ns['Redecl'], 1), ('Deep', ns['Deep'], 1), ('Swap', ns['Swap'], 2), ('Partial', ns['Partial'], 1), ('Bound', ns['Bound'], 0)):
        n += 1
        if len(cls.__parameters__) != params or len(set(cls.__parameters__)) != params:
            out.violation(f'C17:generic-parameters:{label}', f'{label}.__parameters__ = {cls.__parameters__}, expected {params} distinct', {'class': label})
    return n


def options_checks(rng, out):
    """class options are inherited unless overridden, through several levels"""
    import pane
    from pane.converters import Converter

    class Mark(Converter):
        def __init__(self, tag):
            self.tag = tag

        def expected(self, plural=False):
            return 'marked'

        def try_convert(self, val):
            return (self.tag, val)

        def collect_errors(self, val):
            return None

        def into_data(self, val):
            return val
    space = {
        'out_format': ['struct', 'tuple'], 'in_format': [('struct',), ('tuple', 'struct'), ('struct', 'tuple')], 'allow_extra': [True, False],
        'kw_only': [True, False], 'frozen': [True, False], 'eq': [True, False], 'order': [True, False], 'unsafe_hash': [True, False],
        'rename': ['camel', 'pascal', 'kebab'], 'custom': [{str: Mark('lvl')}],
    }
    n = 0
    for _ in range(60):
        eff = {}
        base = pane.PaneBase
        chain = []
        ok = True
        for lvl in range(rng.randint(2, 4)):
            given = {k: rng.choice(v) for k, v in space.items() if rng.random() < 0.25}
            if 'custom' in given:
                given['custom'] = {str: Mark(f'lvl{lvl}')}
            ann = {f'my_f{lvl}': str}
            ns = {'__annotations__': ann, f'my_f{lvl}': 'd'}
            try:
                cls = pytypes.new_class(terms.fresh_name('O'), (base,), dict(given), lambda d: d.update(ns))
            except (TypeError, ValueError):
                ok = False
                break
            terms.KEEP.append(cls)
            eff.update(given)
            chain.append(cls)
            base = cls
            n += 1
            o = cls.__pane_info__.opts
            want = {
                'out_format': eff.get('out_format', 'struct'), 'in_format': tuple(eff.get('in_format', ('struct',))), 'allow_extra': eff.get('allow_extra', False),
                'kw_only': eff.get('kw_only', False), 'frozen': eff.get('frozen', True), 'eq': eff.get('eq', True), 'order': eff.get('order', True),
                'unsafe_hash': eff.get('unsafe_hash', False), 'out_rename': eff.get('rename'),
            }
            for k, v in want.items():
                g = getattr(o, k)
                if (tuple(g) if isinstance(g, (list, tuple)) else g) != v:
                    out.violation(f'C17:option-not-inherited:{k}', f'{" <- ".join(c.__name__ for c in chain)}: option {k} = {g!r}, expected {v!r} (given so far: { {a: b for a, b in eff.items() if a != "custom"} })', {'option': k})
            if 'custom' in eff:
                tag = eff['custom'][str].tag
                key = o.out_rename and {'camel': f'myF{lvl}', 'pascal': f'MyF{lvl}', 'kebab': f'my-f{lvl}'}[o.out_rename] or f'my_f{lvl}'
                try:
                    data = {key: 'v'} if 'struct' in o.in_format else None
                    if data is not None:
                        x = cls.from_data(data)
                        if getattr(x, f'my_f{lvl}') != (tag, 'v'):
                            out.violation('C17:option-not-inherited:custom', f'{cls.__name__}: class-level custom handler {tag} not applied: {x!r}', {'option': 'custom'})
                except Exception as e:
                    out.violation(f'C17:option-custom:{type(e).__name__}', f'{cls.__name__}.from_data({data!r}) raised {e}', {'option': 'custom'})
        if not ok:
            continue
    return n


def run(ctx, out):
    out.evaluations += shared_typevar_checks(out)
    out.evaluations += nesting_depth_checks(out)
    import families as _famgp
    out.evaluations += _famgp.generic_parameter_twins(out, PROP)
    rng = random.Random(ctx['seed'])
    thorough = ctx['tier'] == 'thorough'
    out.rule = ('(1) random single-inheritance hierarchies (depth 1-3 quick / 1-5 thorough; field names drawn from 5 so that fields are redeclared, '
                'KW_ONLY markers, per-field kw_only, per-level kw_only option, defaults): effective fields, keyword-only flags, defaults and '
                'positional bounds compared with the Coq model of _process inside coqc and with an independent reading (bases first, '
                'override in place, keyword-only last); constructor signature, parameter kinds and repr follow that order; (2) generic '
                'hierarchies: bound, forwarded, re-declared, deep, swapped and partially bound parameters - substituted field types, remaining '
                'parameters, valid data accepted, ill-typed data rejected; (3) 60 random option assignments per level for 2-4 levels: every '
                'option inherited unless overridden. Non-trivial = hierarchy of depth > 1.')
    items = []
    n_h = 300 if not thorough else 4000
    tries = 0
    while len(items) < n_h and tries < n_h * 5:
        tries += 1
        chain = build_hierarchy(rng, rng.randint(1, 3 if not thorough else 5))
        if chain is None:
            continue
        monitor_chain(chain, out)
        items.append((chain, render_case(chain)))
        out.case(render_case(chain), nontrivial=len(chain) > 1)
    c0 = items[3][0]
    out.sample({'levels': [[list(it) for it in its] for _, its, _ in c0], 'fields': [f.name for f in c0[-1][0].__pane_info__.fields],
                'pos_args': list(c0[-1][0].__pane_info__.pos_args)})
    out.evaluations += generic_checks(out)
    out.evaluations += diamond_checks(rng, out, 150 if ctx['tier'] == 'quick' else 3000)
    out.evaluations += options_checks(rng, out)
    # type-variable substitution: util.replace_typevars against the model's tsubst (the function the C17 substitution theorems are about)
    scases = subst_cases(random.Random(ctx['seed'] + 17), 600 if not thorough else 6000)
    out.evaluations += len(scases)
    usable = []
    for c in scases:
        b, e, obs, py, pyb, got = c
        what = f'replace_typevars({py!r}, {pyb!r})'
        if obs is None:
            out.violation(f'C17:substitution:{type(got).__name__}', f'{what} raised {type(got).__name__}: {str(got)[:160]}', {'expression': exp_to_coq(e), 'bindings': {str(k): exp_to_coq(v) for k, v in b.items()}})
            continue
        usable.append(c)
        brought = set().union(*[exp_vars(x) for x in b.values()]) if b else set()
        left = exp_vars(obs) & (set(b) - brought)
        if left:
            out.violation('C17:substitution:variable-survives', f'{what} = {got!r} with arguments {[exp_to_coq(x) for x in obs[2]] if obs[0] == "app" else obs}: the type '
                          f'variable(s) {sorted("T%d" % v for v in left)} still occur; the arguments are substituted in every occurrence through any depth',
                          {'expression': exp_to_coq(e), 'bindings': {str(k): exp_to_coq(v) for k, v in b.items()}, 'result': exp_to_coq(obs)})
    if 'Run/AgreeProcess.v' in ctx['failed_files'] or 'Model/Process.v' in ctx['failed_files']:
        out.oblige('corr_subst', False, 'model does not build')
    else:
        sbad, serrs = run_shards(PROP, 'subst', 'From Coq Require Import List String.\nImport ListNotations.\nRequire Import Model.Process Run.AgreeProcess.\nOpen Scope string_scope.\n',
                                 usable, render_subst_case, per=300, final='subst_mismatches', ty='list subst_case')
        out.oblige('corr_subst: model tsubst = pane util.replace_typevars on every generated (bindings, type expression)', not sbad and not serrs,
                   f'{len(sbad)} mismatches over {len(usable)}, {len(serrs)} shard errors')
        for e in serrs[:1]:
            out.violation('C17:corr_subst:shard-error', 'shard failed: ' + e[:400], {'correspondence': 'corr_subst', 'error': e[:1500]}, no_input=True)
        if sbad and not out.has_unlisted_input():
            c = usable[sbad[0]]
            out.violation('C17:corr_subst', f'model and pane disagree on replace_typevars({c[3]!r}, {c[4]!r}): pane gives {c[5]!r}', {'correspondence': 'corr_subst', 'case': render_subst_case(c)}, no_input=True)
    if any(f in ctx['failed_files'] for f in ('Model/Process.v', 'Run/AgreeProcess.v')):
        out.oblige('corr_process', False, 'model does not build')
        return
    bad, errs = run_shards(PROP, 'proc', 'From Coq Require Import List String.\nImport ListNotations.\nRequire Import Model.Process Run.AgreeProcess.\nOpen Scope string_scope.\n',
                           items, lambda it: it[1], per=200, final='proc_mismatches', ty='list proc_case')
    out.oblige('corr_process: model fields_of / pos_range = pane _process on every generated hierarchy', not bad and not errs,
               f'{len(bad)} mismatches over {len(items)}, {len(errs)} shard errors')
    for e in errs[:1]:
        out.violation('C17:corr_process:shard-error', 'shard failed: ' + e[:400], {'correspondence': 'corr_process', 'error': e[:1500]}, no_input=True)
    if bad and not out.has_unlisted_input():
        chain = items[bad[0]][0]
        out.violation('C17:corr_process', f'model and pane disagree on the fields of {" <- ".join(c.__name__ for c, _, _ in chain)}: pane has '
                      f'{[(f.name, f.kw_only) for f in chain[-1][0].__pane_info__.fields]}', {'correspondence': 'corr_process', 'levels': [[list(i) for i in its] for _, its, _ in chain]}, no_input=True)


def replay(rep, out):
    print(rep['what'])
    print(rep['replay'])
    return 0
