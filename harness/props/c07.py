"""C07 -- error trees localise failures compositionally."""
import warnings

import convprop
import gen
import terms
from terms import term_head, tree_to_coq, val_to_coq

PROP = 'C07'
COQ_TARGETS = ['Props/C07.vo'] + convprop.CONV_TARGETS
GEN = convprop.MODEL_TABLES


def T(n):
    try:
        return tree_to_coq(n)
    except Exception:
        return repr(n)


def check_node(conv, v, node, out, path='$'):
    """node = conv.collect_errors(v) (not None). Verify its shape against the element converters run alone."""
    from pane import converters as C
    from pane import classes as K
    from pane import errors as E
    head = type(conv).__name__

    def bad(kind, msg):
        out.append((f'C07:{head}:{kind}', f'at {path}: {msg}', None))
    if isinstance(node, E.WrongTypeError) and isinstance(conv, (C.ScalarConverter, C.NoneConverter, C.LiteralConverter, C.SequenceConverter,
                                                                 C.TupleConverter, C.DictConverter, C.StructConverter, K.PaneConverter)):
        if node.actual is not v and not (node.actual == v and type(node.actual) is type(v)):
            bad('leaf-records-other-value', f'leaf records {node.actual!r}, the offending value is {v!r}')
        return
    if isinstance(conv, C.EnumConverter) and isinstance(node, E.WrongTypeError):
        if node.actual is not v and not (node.actual == v and type(node.actual) is type(v)):
            bad('leaf-records-converted-value', f'enum leaf records {node.actual!r}, the offending value is {v!r}')
        return
    if isinstance(conv, C.TaggedUnionConverter) or not isinstance(conv, (C.UnionConverter, C.SequenceConverter, C.TupleConverter,
                                                                           C.DictConverter, C.StructConverter, K.PaneConverter)):
        return      # tagged unions: C12; conditions / delegates: the inner converter's node is reported as is
    if type(conv) is C.UnionConverter and isinstance(node, E.SumErrorNode):
        if len(node.children) != len(conv.converters):
            bad('child-count', f'{len(node.children)} children for {len(conv.converters)} members')
            return
        for i, (m, ch) in enumerate(zip(conv.converters, node.children)):
            alone = m.collect_errors(v)
            if T(alone) != T(ch):
                bad('child-differs', f'child #{i} {ch!r} is not what member #{i} reports alone: {alone!r}')
            elif alone is not None:
                check_node(m, v, ch, out, path)
        return
    if not isinstance(node, E.ProductErrorNode):
        return
    if node.actual is not v and not (node.actual == v and type(node.actual) is type(v)):
        bad('node-records-other-value', f'product node records {node.actual!r} instead of {v!r}')
    expected_children = {}
    missing, extra = set(), set()
    if isinstance(conv, C.SequenceConverter) and C.data_is_sequence(v):
        for i, x in enumerate(v):
            n = conv.v_conv.collect_errors(x)
            if n is not None:
                expected_children[i] = (conv.v_conv, x, n)
    elif isinstance(conv, C.TupleConverter) and C.data_is_sequence(v):
        for i, (m, x) in enumerate(zip(conv.converters, v)):
            n = m.collect_errors(x)
            if n is not None:
                expected_children[i] = (m, x, n)
    elif isinstance(conv, C.DictConverter) and C.data_is_mapping(v):
        for k, x in v.items():
            nk = conv.k_conv.collect_errors(k)
            nv = conv.v_conv.collect_errors(x)
            if nv is not None:
                expected_children[k] = (conv.v_conv, x, nv)
            elif nk is not None:
                expected_children[k] = (conv.k_conv, k, nk)
            if nk is not None and nv is not None:
                bad('key-error-overwritten', f'key {k!r} and its value are both rejected; only one child can be stored under str(k)')
    elif isinstance(conv, C.StructConverter) and C.data_is_mapping(v):
        for k, x in v.items():
            if k in conv.fields:
                n = conv.field_converters[k].collect_errors(x)
                if n is not None:
                    expected_children[k] = (conv.field_converters[k], x, n)
            else:
                extra.add(k)
        missing = {k for k in conv.fields if k not in v}
    elif isinstance(conv, K.PaneConverter) and C.data_is_mapping(v):
        seen = set()
        for k, x in v.items():
            if k not in conv.field_map:
                if not conv.opts.allow_extra:
                    extra.add(k)
                continue
            i = conv.field_map[k]
            f = conv.fields[i]
            if f.name in seen:
                expected_children[k] = ('dup', None, None)
                continue
            seen.add(f.name)
            n = conv.field_converters[i].collect_errors(x)
            if n is not None:
                expected_children[k] = (conv.field_converters[i], x, n)
        missing = {f.name for f in conv.fields if f.init and f.name not in seen and not f.has_default()}
    elif isinstance(conv, K.PaneConverter) and C.data_is_sequence(v):
        convs = [cv for f, cv in zip(conv.fields, conv.field_converters) if f.init]
        for i, (m, x) in enumerate(zip(convs, v)):
            n = m.collect_errors(x)
            if n is not None:
                expected_children[i] = (m, x, n)
    else:
        return
    got_keys = list(node.children.keys())
    if isinstance(conv, C.DictConverter):
        want_keys = list(expected_children.keys())
        if [str(k) for k in want_keys] != [str(k) for k in got_keys] and len({str(k) for k in want_keys}) == len(want_keys):
            bad('children-keys', f'children keyed {got_keys!r}, rejected keys are {want_keys!r}')
        elif any(type(g) is not type(w) or g != w for g, w in zip(got_keys, want_keys)) and len(got_keys) == len(want_keys):
            bad('children-keyed-by-str-of-key', f'children keyed by str(key): {got_keys!r} for the rejected keys {want_keys!r}')
        lookup = {str(k): v2 for k, v2 in expected_children.items()}
        for gk, ch in node.children.items():
            w = lookup.get(str(gk))
            if w and w[0] != 'dup' and T(w[2]) != T(ch):
                bad('child-differs', f'child {gk!r} is not the tree the element reports alone')
    else:
        if set(map(repr, got_keys)) != set(map(repr, expected_children.keys())):
            bad('children-keys', f'children keyed {got_keys!r}, positions/keys rejected on their own: {list(expected_children)!r}')
        else:
            for k, ch in node.children.items():
                w = expected_children[k]
                if w[0] == 'dup':
                    if not isinstance(ch, E.DuplicateKeyError):
                        bad('duplicate-not-reported', f'key {k!r} duplicates a field but the child is {ch!r}')
                    continue
                if T(w[2]) != T(ch):
                    bad('child-differs', f'child {k!r} = {ch!r} differs from the element alone: {w[2]!r}')
                else:
                    check_node(w[0], w[1], ch, out, f'{path}.{k}')
    if isinstance(conv, (C.StructConverter, K.PaneConverter)) and C.data_is_mapping(v):
        if set(node.missing) != missing:
            bad('missing', f'missing = {set(node.missing)!r}, absent required fields = {missing!r}')
        if set(node.extra) != extra:
            bad('extra', f'extra = {set(node.extra)!r}, unknown keys = {extra!r}')
    elif node.missing or node.extra:
        bad('missing-extra-on-non-struct', f'missing={node.missing!r} extra={node.extra!r}')


def monitor(c):
    from pane.convert import make_converter
    out = []
    if c.col_obs is None or c.col_obs[0] != 'tree':
        return out
    with warnings.catch_warnings():
        warnings.simplefilter('ignore')
        conv = make_converter(c.built.py)
        try:
            check_node(conv, c.value, c.col_obs[1], out)
        except Exception as e:
            out.append((f'C07:monitor-error:{type(e).__name__}', f'walking the tree raised {e!r}', None))
    return out[:3]


def run(ctx, out):
    import families as _famsm
    out.evaluations += _famsm.struct_mapping_family(out, PROP)
    out.rule = ('rejected (type, value) pairs; the error tree is walked top-down and every product / sum node is compared with the '
                'element converters run alone on the sub-values: children keys = positions or keys rejected on their own, each child '
                'equal to the element tree, missing / extra exact, one union child per member in order, leaves record the sub-value. '
                'Non-trivial = non-leaf type; distinct by (type term, value).')
    convprop.run(ctx, out, PROP, monitor, cfg={'weights': {'class': 2.5, 'dict': 2.0, 'seq': 2.0, 'union': 2.0, 'struct': 1.5, 'enum': 1.0}}, extra_cases=lambda rng: convprop.cases_from_pairs(gen.tagged_shape_cases(rng), rng, 'tagged-shapes') + convprop.cases_from_pairs(gen.degenerate_class_cases(rng), rng, 'degenerate-classes'))


def replay(rep, out):
    print(rep['what'])
    print(rep['replay'])
    return 0
