"""C12 -- tagged unions dispatch on the tag alone; layouts are symmetric."""
import typing as t
import warnings

import convcases
import convprop
import gen
import terms
from terms import term_head
from props.c05 import canon, class_issues

PROP = 'C12'
COQ_TARGETS = ['Props/C12.vo', 'Run/AgreeInto.vo'] + convprop.CONV_TARGETS
GEN = convprop.MODEL_TABLES
SKIP = {'out-layout-not-enabled', 'excluded-field', 'explicit-asymmetric-out_name', 'explicit-asymmetric-rename',
        'explicit-asymmetric-in_names', 'tuple-out-with-noninit-field'}


def same_outcome(a, b):
    if a[0] != b[0]:
        return False
    if a[0] == 'ok':
        return canon(a[1]) == canon(b[1])
    if a[0] == 'error':
        try:
            return terms.tree_to_coq(a[1].tree) == terms.tree_to_coq(b[1].tree)
        except Exception:
            return str(a[1]) == str(b[1])
    return type(a[1]) is type(b[1])


def fd(v, T):
    import pane
    from pane.errors import ConvertError
    with warnings.catch_warnings():
        warnings.simplefilter('ignore')
        try:
            return ('ok', pane.from_data(v, T))
        except ConvertError as e:
            return ('error', e)
        except Exception as e:
            return ('escape', e)


def monitor(c):
    import pane
    out = []
    if c.term[0] != 'tagged' or c.fd_obs is None:
        return out
    tag, lay, variants = c.term[1], c.term[2], c.term[3]
    v = c.value
    members = t.get_args(t.get_args(c.built.py)[0])
    declared = {}
    for (tv, _), cls in zip(variants, members):
        declared[tv] = cls
    got = c.fd_obs
    if got[0] == 'escape' and not isinstance(v, dict):
        return out      # an escape on a non-mapping is C04's business; on a mapping with a bad tag it is decided below
    tagname_in_msg = None
    if not isinstance(v, dict):
        if got[0] == 'ok':
            out.append(('C12:non-mapping-accepted', f'non-mapping {v!r} accepted as {c.built.py!r}', None))
        return out
    # read tag and body the way the layout is documented
    tagv = body = None
    present = False
    if lay == 'internal':
        if tag in v:
            present, tagv, body = True, v[tag], {k: x for k, x in v.items() if k != tag}
        names = [tag]
    elif lay == 'external':
        if len(v) == 1:
            present = True
            (tagv, body), = v.items()
        names = []
    else:
        if len(v) == 2 and lay[1] in v and lay[2] in v:
            present, tagv, body = True, v[lay[1]], v[lay[2]]
        names = [lay[1], lay[2]]
    known = False
    if present:
        try:
            # the declared tag that EQUALS the tag in the data and has its type (an ill-kinded tag -- True or 1.0 for the
            # declared tag 1 -- is not a known tag: the property asks for a ConvertError that names it)
            keys = [k for k in declared if type(k) is type(tagv) and k == tagv]
            hash(tagv)
            known = bool(keys)
            if known:
                key = keys[0]
        except TypeError:
            known = False
    if present and known:
        if got[0] == 'escape':
            return out
        cls = declared[key]
        alone = fd(body, cls)
        if alone[0] == 'escape':
            return out
        if alone[0] != got[0]:
            out.append(('C12:verdict-differs-from-variant', f'{v!r} as {c.built.py!r}: {got[0]}, but variant {cls.__name__} alone on the body {body!r}: {alone[0]}', None))
        elif got[0] == 'ok':
            if type(got[1]) is not cls:
                out.append(('C12:wrong-variant', f'{v!r} gave an instance of {type(got[1]).__name__}, the tag {tagv!r} declares {cls.__name__}', None))
            elif canon(got[1]) != canon(alone[1]):
                out.append(('C12:result-differs-from-variant', f'{got[1]!r} != variant alone {alone[1]!r}', None))
        elif not same_outcome(got, alone):
            out.append(('C12:body-error-not-local', f'error for {v!r} is not the error of variant {cls.__name__} alone: {str(got[1])[:200]} vs {str(alone[1])[:200]}', None))
    else:
        if got[0] == 'ok':
            out.append(('C12:accepted-without-valid-tag', f'{v!r} accepted as {c.built.py!r} although the tag is absent/unknown/ill-kinded', None))
        elif got[0] == 'error':
            msg = str(got[1])
            if present and lay != 'external' or (present and lay == 'external'):
                if f"tag '{tag}'" not in msg:
                    out.append(('C12:error-does-not-name-tag', f'unknown/ill-kinded tag {tagv!r}: message does not name the tag {tag!r}: {msg[:200]}', None))
            elif not present and names and not all(n in msg for n in names):
                out.append(('C12:error-does-not-name-tag-key', f'absent tag: message does not name {names}: {msg[:200]}', None))
        elif got[0] == 'escape':
            # an absent, unknown or ill-kinded tag is a ConvertError that names the tag -- not another exception
            out.append((f'C12:bad-tag-escapes:{type(got[1]).__name__}', f'{v!r} as {c.built.py!r}: the {"absent" if not present else "unknown or ill-kinded"} tag '
                        f'{tagv!r} made from_data raise {type(got[1]).__name__}: {got[1]} instead of a ConvertError naming the tag', None))
    # symmetry
    if got[0] == 'ok':
        issues = class_issues(c.term)
        if not (issues & SKIP):
            x = got[1]
            with warnings.catch_warnings():
                warnings.simplefilter('ignore')
                try:
                    d = pane.into_data(x, c.built.py)
                except Exception as e:
                    out.append((f'C12:into_data:{type(e).__name__}', f'into_data({x!r}) raised {e}', None))
                    return out
            tv = getattr(x, tag)
            from props.c05 import known_cause
            cause = known_cause(c.term, issues)
            if lay == 'internal':
                shape_ok = isinstance(d, dict) and any(k == tag or True for k in d)
            elif lay == 'external':
                shape_ok = isinstance(d, dict) and len(d) == 1 and list(d)[0] == tv
            else:
                shape_ok = isinstance(d, dict) and list(d) == [lay[1], lay[2]] and d[lay[1]] == tv
            if not shape_ok and cause is None:
                out.append(('C12:written-layout-wrong', f'into_data({x!r}) = {d!r} is not the {lay!r} layout', None))
            back = fd(d, c.built.py)
            if back[0] != 'ok' or canon(back[1]) != canon(x):
                if 'FNan' in canon(x):
                    return out
                cz = cause or 'tagged'
                out.append((f'C12:not-symmetric:{cz}', f'from_data(into_data(x)) != x for x={x!r}, data={d!r}: {str(back[1])[:200]}', None))
    return out


def dup_tag_check(out):
    import pane
    from pane.annotations import Tagged
    from pane.convert import make_converter

    class A(pane.PaneBase):
        kind: t.Literal['a'] = 'a'

    class B(pane.PaneBase):
        kind: t.Literal['a'] = 'a'
        y: int = 0
    for ext in (False, True, ('t', 'c')):
        out.evaluations += 1
        try:
            make_converter(t.Annotated[t.Union[A, B], Tagged('kind', external=ext)])
            out.violation('C12:duplicate-tags-accepted', f'two variants with tag "a" accepted at build time (external={ext!r})', {'external': repr(ext)})
        except TypeError:
            pass



def serialised_values_are_independent(out):
    """several values of one tagged union serialised through the same converter (containers, successive calls, a variant nesting the
    union): every result is the layout of ITS value and stays so after later calls; the whole parses back"""
    import copy
    import typing as t
    import pane
    from pane.annotations import Tagged
    n = 0
    for lay_name, ext in (('internal', False), ('external', True), ('adjacent', ('t', 'c'))):
        class Circle(pane.PaneBase):
            kind: t.Literal['circle'] = 'circle'
            r: float = 1.0

        class Rect(pane.PaneBase):
            kind: t.Literal['rect'] = 'rect'
            w: int = 1
            h: int = 1
        Shape = t.Annotated[t.Union[Circle, Rect], Tagged('kind', external=ext)]

        def one(x):
            body = x.into_data()
            if ext is False:
                return body
            if ext is True:
                return {x.kind: body}
            return {'t': x.kind, 'c': body}
        xs = [Circle(r=2.0), Rect(w=2, h=3), Circle(r=5.0), Rect()]
        want = [one(x) for x in xs]
        for label, ty, val, wanted in (('list', t.List[Shape], xs, want), ('tuple', t.Tuple[Shape, Shape], (xs[0], xs[1]), (want[0], want[1])),
                                       ('mapping', t.Dict[str, Shape], {'a': xs[0], 'b': xs[1]}, {'a': want[0], 'b': want[1]})):
            n += 1
            try:
                d = pane.into_data(val, ty)
                back = pane.from_data(d, ty)
            except Exception as e:
                out.violation(f'C12:serialise-many:{type(e).__name__}', f'{lay_name} layout, {label} of variants: {type(e).__name__}: {str(e)[:200]}', {'layout': lay_name})
                continue
            if d != wanted or back != val:
                out.violation('C12:serialise-many', f'{lay_name} layout: into_data of a {label} of variants gave {d!r}, expected {wanted!r}; parsed back as {back!r}',
                              {'layout': lay_name, 'container': label})
        n += 1
        d1 = pane.into_data(xs[0], Shape)
        snap = copy.deepcopy(d1)
        d2 = pane.into_data(xs[1], Shape)
        if d1 != snap or d1 is d2:
            out.violation('C12:serialised-result-changed-by-later-call', f'{lay_name} layout: into_data({xs[0]!r}) was {snap!r} and became {d1!r} after into_data({xs[1]!r})',
                          {'layout': lay_name})
    return n


def tag_twins_in_sequence(out):
    """one tagged-union type object (one memoised converter), all three layouts: documents with the declared int tag, then with
    True / 1.0 / (1+0j) in its place -- in later calls and later in one list.  The ill-kinded tags are refused every time."""
    import typing as t
    import pane
    from pane.annotations import Tagged
    n = 0

    class V1(pane.PaneBase):
        version: t.Literal[1] = 1
        name: str = 'a'

    class V2(pane.PaneBase):
        version: t.Literal[2] = 2
        name: str = 'b'
    for lay_label, ext in (('internal', False), ('external', True), ('adjacent', ('t', 'c'))):
        T = t.Annotated[t.Union[V1, V2], Tagged('version', external=ext)]

        def doc(tag):
            if ext is False:
                return {'version': tag, 'name': 'a'}
            if ext is True:
                return {tag: {'name': 'a'}}
            return {'t': tag, 'c': {'name': 'a'}}
        with warnings.catch_warnings():
            warnings.simplefilter('ignore')
            for round_ in range(2):
                for tag, want in ((1, True), (True, False), (1.0, False), (2, True), (2.0, False), ((1 + 0j), False), (1, True)):
                    n += 1
                    try:
                        r = pane.from_data(doc(tag), T)
                        got = True
                    except pane.ConvertError as e:
                        got, msg = False, str(e)
                    except Exception as e:
                        out.violation(f'C12:tag-twins:{type(e).__name__}', f'{lay_label}: tag {tag!r} raised {type(e).__name__}: {str(e)[:120]}', {'layout': lay_label, 'tag': repr(tag)})
                        continue
                    if got != want:
                        out.violation('C12:tag-twins', f'{lay_label}, after a good document through the same converter: the tag {tag!r} ({type(tag).__name__}) is '
                                      f'{"accepted -> " + repr(r) if got else "refused"}; declared tags are the ints 1 and 2', {'layout': lay_label, 'tag': repr(tag)})
                n += 1
                try:
                    r = pane.from_data([doc(1), doc(True)], t.List[T])
                    out.violation('C12:tag-twins', f'{lay_label}: [tag 1, tag True] in one list was accepted -> {r!r}', {'layout': lay_label, 'tag': 'True'})
                except pane.ConvertError:
                    pass
    return n


def wrapped_layouts_write_the_variant_as_it_is(out):
    """external and adjacent layouts keep the tag OUTSIDE the body: the body written is exactly what the variant's own class writes
    -- also when that class writes its tag field under another name (class-level or field-level renaming), leaves it out
    (exclude=True), or is written in the tuple layout -- and the whole reads back to an equal instance"""
    import typing as t
    import pane
    from pane.annotations import Tagged
    n = 0

    class Ka(pane.PaneBase, rename='kebab'):
        node_type: t.Literal['a'] = 'a'
        x_val: int = 0

    class Kb(pane.PaneBase, rename='kebab'):
        node_type: t.Literal['b'] = 'b'

    class Fa(pane.PaneBase):
        node_type: t.Literal['a'] = pane.field(default='a', rename='kind')
        x: int = 0

    class Fb(pane.PaneBase):
        node_type: t.Literal['b'] = pane.field(default='b', rename='kind')

    class Ea(pane.PaneBase):
        node_type: t.Literal['a'] = pane.field(default='a', exclude=True)
        x: int = 0

    class Eb(pane.PaneBase):
        node_type: t.Literal['b'] = pane.field(default='b', exclude=True)

    class Pa(pane.PaneBase):
        node_type: t.Literal['a'] = 'a'
        x: int = 0

    class Pb(pane.PaneBase):
        node_type: t.Literal['b'] = 'b'
    with warnings.catch_warnings():
        warnings.simplefilter('ignore')
        for label, (A, B) in (('class rename=kebab', (Ka, Kb)), ('field rename', (Fa, Fb)), ('excluded tag field', (Ea, Eb)), ('plain', (Pa, Pb))):
            for lay_label, ext in (('external', True), ('adjacent', ('t', 'c'))):
                T = t.Annotated[t.Union[A, B], Tagged('node_type', external=ext)]
                for x in (A(), B(), A(**{[f.name for f in A.__pane_info__.fields if f.name.startswith('x')][0]: 5})):
                    n += 1
                    try:
                        own = pane.into_data(x, type(x))
                        d = pane.into_data(x, T)
                        want = {x.node_type: own} if ext is True else {'t': x.node_type, 'c': own}
                        if d != want:
                            out.violation('C12:wrapped-layout-body', f'{label}, {lay_label}: {x!r} is written as {d!r}; the layout is {want!r} (the body is what {type(x).__name__} itself writes)',
                                          {'variant': label, 'layout': lay_label})
                            continue
                        y = pane.from_data(d, T)
                        if not (y == x) or type(y) is not type(x):
                            out.violation('C12:wrapped-layout-roundtrip', f'{label}, {lay_label}: {x!r} written as {d!r} reads back as {y!r}', {'variant': label, 'layout': lay_label})
                    except Exception as e:
                        out.violation(f'C12:wrapped-layout:{type(e).__name__}', f'{label}, {lay_label}: {x!r}: {type(e).__name__}: {str(e)[:160]}', {'variant': label, 'layout': lay_label})
    return n


def run(ctx, out):
    out.evaluations += wrapped_layouts_write_the_variant_as_it_is(out)
    out.evaluations += tag_twins_in_sequence(out)
    out.rule = ('tagged unions (2-3 variant dataclasses, tags str/int, three layouts) at top level and nested x values: valid per layout, '
                'edited (tag changed / removed / replaced by list, dict, None, float; keys added), arbitrary. The result or error is compared '
                'with the declared variant run alone on the body; absent/unknown/ill-kinded tags must give a ConvertError naming the tag; '
                'into_data must write the layout and parse back. Duplicate tags must be refused at build time.')
    convprop.run(ctx, out, PROP, monitor, cfg={'weights': {'tagged': 12.0}}, extra_cases=lambda rng: convprop.cases_from_pairs(gen.tagged_shape_cases(rng), rng, 'tagged-shapes'))
    dup_tag_check(out)
    out.evaluations += serialised_values_are_independent(out)


def replay(rep, out):
    print(rep['what'])
    print(rep['replay'])
    return 0
