"""C05 -- serialise / parse round trip."""
import typing as t
import warnings

import convcases
import convprop
import gen
import terms
from terms import term_head, val_to_coq

PROP = 'C05'
COQ_TARGETS = ['Props/C05.vo', 'Run/AgreeInto.vo'] + convprop.CONV_TARGETS
GEN = convprop.MODEL_TABLES

DATA_SCALARS = (type(None), bool, int, float, complex, str, bytes, bytearray)


def is_data(d):
    if type(d) in DATA_SCALARS:
        return True
    if type(d) in (list, tuple):
        return all(is_data(x) for x in d)
    if type(d) is dict:
        return all(is_data(k) and is_data(v) for k, v in d.items())
    return False


def canon(v):
    try:
        return val_to_coq(v, with_set=False)
    except Exception:
        return repr(v)


def data_equal_mod_sets(a, b):
    """equality of serialised data up to the order of lists (a serialised set has no order)"""
    if type(a) is list and type(b) is list:
        if len(a) != len(b):
            return False
        rest = list(b)
        for x in a:
            for i, y in enumerate(rest):
                if data_equal_mod_sets(x, y):
                    del rest[i]
                    break
            else:
                return False
        return True
    if type(a) is tuple and type(b) is tuple:
        return len(a) == len(b) and all(data_equal_mod_sets(x, y) for x, y in zip(a, b))
    if type(a) is dict and type(b) is dict:
        return len(a) == len(b) and all(k in b and data_equal_mod_sets(v, b[k]) for k, v in a.items())
    return canon(a) == canon(b)


# ---- static description of a type term

def walk(term):
    yield term
    k = term[0]
    if k in ('seq',):
        yield from walk(term[2])
    elif k == 'tuple':
        for x in term[1]:
            yield from walk(x)
    elif k == 'dict':
        yield from walk(term[1])
        yield from walk(term[2])
    elif k == 'struct':
        for _, x in term[1]:
            yield from walk(x)
    elif k == 'union':
        for x in term[1]:
            yield from walk(x)
    elif k == 'cond':
        yield from walk(term[1])
    elif k == 'tagged':
        for _, x in term[3]:
            yield from walk(x)
    elif k == 'class':
        for f in term[1]['fields']:
            if not f.get('kw_marker'):
                yield from walk(f['ty'])


def in_kinds(term):
    """top-level data kinds a member may accept (coarse, over-approximate)"""
    k = term[0]
    if k == 'any':
        return {'*'}
    if k == 'none':
        return {'none'}
    if k == 'scalar':
        return {'bool': {'bool'}, 'int': {'int', 'bool'}, 'float': {'float', 'int', 'bool'},
                'complex': {'complex', 'float', 'int', 'bool'}, 'str': {'str'}, 'bytes': {'bytes'}, 'bytearray': {'bytes'}}[term[1]]
    if k == 'std':
        return {'str', 'int', 'float', 'bool'}
    if k in ('seq', 'tuple'):
        return {'seq'}
    if k in ('dict', 'struct', 'tagged'):
        return {'map'}
    if k == 'class':
        fm = (term[1].get('opts') or {}).get('in_format', ('struct',))
        return {'map' if f == 'struct' else 'seq' for f in fm}
    if k == 'union':
        s = set()
        for m in term[1]:
            s |= in_kinds(m)
        return s
    if k == 'cond':
        return in_kinds(term[1])
    if k == 'literal':
        s = set()
        for v in term[1]:
            s |= {'none'} if v is None else {'bool', 'int', 'float', 'complex'} if isinstance(v, (bool, int)) else {'str'} if isinstance(v, str) else {'bytes'}
        return s
    if k == 'enum':
        s = set()
        for _, v in term[2]:
            s |= {'none'} if v is None else {'bool', 'int'} if isinstance(v, (bool, int)) else {'str'}
        return s
    return {'*'}


def out_kinds(term):
    k = term[0]
    if k == 'scalar':
        return {term[1] if term[1] != 'bytearray' else 'bytes'}
    if k == 'class':
        return {'seq' if (term[1].get('opts') or {}).get('out_format') == 'tuple' else 'map'}
    if k == 'std':
        return {'str'}
    return in_kinds(term)


def overlapping_union(term):
    """some union in the type has a member whose serialised form an earlier-or-other member also reads"""
    for node in walk(term):
        if node[0] == 'union':
            ms = node[1]
            for i, a in enumerate(ms):
                oa = out_kinds(a)
                for j, b in enumerate(ms):
                    if i != j:
                        ib = in_kinds(b)
                        if '*' in ib or '*' in oa or (oa & ib):
                            return True
    return False



def union_sites(term, x):
    """(members, sub-value) for every untagged-union node of the type together with the part of the typed value x it types"""
    from props.c01 import typed_ok
    k = term[0]
    try:
        if k == 'seq':
            for e in x:
                yield from union_sites(term[2], e)
        elif k == 'tuple':
            for t, e in zip(term[1], x):
                yield from union_sites(t, e)
        elif k == 'dict':
            for kk, vv in x.items():
                yield from union_sites(term[1], kk)
                yield from union_sites(term[2], vv)
        elif k == 'struct':
            for n, t in term[1]:
                if n in x:
                    yield from union_sites(t, x[n])
        elif k == 'cond':
            yield from union_sites(term[1], x)
        elif k == 'class':
            for f in term[1]['fields']:
                if not f.get('kw_marker') and hasattr(x, f['name']):
                    yield from union_sites(f['ty'], getattr(x, f['name']))
            s = term[1].get('_parent_spec')
            while s is not None:
                for f in s['fields']:
                    if not f.get('kw_marker') and hasattr(x, f['name']):
                        yield from union_sites(f['ty'], getattr(x, f['name']))
                s = s.get('_parent_spec')
        elif k == 'tagged':
            for _, vt in term[3]:
                if vt[0] == 'class' and type(x) is vt[1].get('_cls'):
                    yield from union_sites(vt, x)
        elif k == 'union':
            yield term[1], x
            for m in term[1]:
                if typed_ok(m, x) is None:
                    yield from union_sites(m, x)
                    break
    except Exception:
        return


def dynamic_overlap(term, x):
    """Does some untagged union inside the type really confuse its members on (a part of) the typed value x?  Either another
    member reads the typed value itself as data before its own member does (that is how the serialiser picks a member), or the
    serialised form written by the value's own member is read by an earlier member.  Decided by running the members'
    converters, so that a failure on a union whose members do NOT overlap on this value is not blamed on overlap."""
    import pane
    from pane.convert import make_converter
    from pane.converters import ParseInterrupt
    from props.c01 import typed_ok
    for ms, sx in union_sites(term, x):
        own = next((i for i, m in enumerate(ms) if typed_ok(m, sx) is None), None)
        if own is None:
            return True              # the value is not typed for any member: nothing can be concluded, keep the coarse answer
        convs = []
        for m in ms:
            try:
                with warnings.catch_warnings():
                    warnings.simplefilter('ignore')
                    convs.append(make_converter(m[1]['_cls'] if m[0] == 'class' and '_cls' in m[1] else terms.build(m).py))
            except Exception:
                convs.append(None)
        picked = None
        for j, cv in enumerate(convs):
            if cv is None:
                continue
            try:
                cv.try_convert(sx)
                picked = j
                break
            except ParseInterrupt:
                continue
            except Exception:
                picked = j
                break
        if picked is not None and picked != own:
            return True              # (a) another member reads the typed value as data first
        try:
            d_own = convs[own].into_data(sx)
        except Exception:
            continue
        for j in range(own):
            if convs[j] is None:
                continue
            try:
                convs[j].try_convert(d_own)
                return True          # (b) an earlier member reads what the value's own member writes
            except ParseInterrupt:
                pass
            except Exception:
                return True
    return False


def class_issues(term):
    """configuration facts of the dataclasses inside the type"""
    issues = set()
    for node in walk(term):
        if node[0] != 'class':
            continue
        cls = node[1].get('_cls')
        if cls is None:
            continue
        info = cls.__pane_info__
        opts = info.opts
        spec_fields = {f['name']: f for f in node[1]['fields'] if not f.get('kw_marker')}
        if opts.out_format not in opts.in_format:
            issues.add('out-layout-not-enabled')
        for f in info.fields:
            if f.exclude:
                issues.add('excluded-field')
            sf = spec_fields.get(f.name, {})
            if opts.out_format == 'struct' and not f.exclude and f.init and f.out_name != f.name and f.out_name not in f.in_names:
                if sf.get('out_name') is not None:
                    issues.add('explicit-asymmetric-out_name')
                elif sf.get('in_names') is not None:
                    issues.add('explicit-asymmetric-in_names')     # the user listed the complete set of input names
                elif opts.out_rename is not None and (opts.in_rename is None or opts.out_rename not in opts.in_rename):
                    issues.add('explicit-asymmetric-rename')
                else:
                    issues.add('out_name-not-accepted')
            if opts.out_format == 'tuple' and f.kw_only and f.init and not f.exclude:
                issues.add('D9:tuple-out-with-kw-only-field')
            if opts.out_format == 'tuple' and not f.init and not f.exclude:
                issues.add('tuple-out-with-noninit-field')
    for node in walk(term):
        if node[0] == 'tagged' and node[2] == 'internal':
            for _, vt in node[3]:
                if vt[0] == 'class' and (vt[1].get('opts') or {}).get('out_format') == 'tuple':
                    issues.add('internal-tag-with-tuple-out-variant')
                cls = vt[1].get('_cls') if vt[0] == 'class' else None
                if cls is not None:
                    for f in cls.__pane_info__.fields:
                        if f.name == node[1] and f.out_name != node[1]:
                            issues.add('internal-tag-field-renamed')
        if node[0] == 'union':
            # at any depth inside a member: the serialiser falls back to the runtime class of the member's value, which
            # writes the variants without their wrapper
            for m in node[1]:
                if any(n[0] == 'tagged' and n[2] != 'internal' for n in walk(m)):
                    issues.add('wrapped-tagged-inside-untagged-union')
    return issues


CAUSES = ['internal-tag-with-tuple-out-variant', 'internal-tag-field-renamed', 'wrapped-tagged-inside-untagged-union',
          'D9:tuple-out-with-kw-only-field', 'out_name-not-accepted']


def holds_full_range(x, depth=0):
    """does the typed value hold a pane.types.Range with BOTH n and step filled in (what Range.__post_init__ leaves behind)?"""
    import pane
    from pane.types import Range, ValueOrList
    if isinstance(x, Range):
        return getattr(x, 'n', None) is not None and getattr(x, 'step', None) is not None
    if depth > 6:
        return False
    if isinstance(x, ValueOrList):
        return any(holds_full_range(e, depth + 1) for e in x)
    if isinstance(x, pane.PaneBase):
        return any(holds_full_range(getattr(x, f.name, None), depth + 1) for f in type(x).__pane_info__.fields)
    if isinstance(x, dict):
        return any(holds_full_range(e, depth + 1) for e in x.values())
    if isinstance(x, (list, tuple, set, frozenset)):
        return any(holds_full_range(e, depth + 1) for e in x)
    return False


def known_cause(term, issues=None, wrapped=True, x=None):
    """the recorded cause that explains a failure on this type (and, when the typed value x is given, on this value)"""
    if x is not None and holds_full_range(x):
        # the recorded Range defect: __post_init__ fills both n and step, both are written, and the reader refuses a value
        # that specifies both -- decided on the value, so that nothing else about the library types is excused
        return 'range-holds-both-n-and-step'
    issues = class_issues(term) if issues is None else issues
    for k in CAUSES:
        if k in issues and (wrapped or k != 'wrapped-tagged-inside-untagged-union'):
            return k.split(':')[-1]
    if overlapping_union(term) and (x is None or dynamic_overlap(term, x)):
        return 'overlapping-union'
    return None


def monitor_factory(into_items):
    def monitor(c):
        import pane
        from pane.errors import ConvertError
        out = []
        if c.fd_obs is None or c.fd_obs[0] != 'ok':
            return out
        head = term_head(c.term)
        x = c.fd_obs[1]
        T = c.built.py
        obs = convcases.observe_into(c, x)
        into_items.append((c, x, obs, convcases.render_into(c, x, obs)))
        with warnings.catch_warnings():
            warnings.simplefilter('ignore')
            try:
                d = pane.into_data(x, T)
            except Exception as e:
                if isinstance(e, TypeError) and "Can't convert type" in str(e) and c.term[0] in ('any', 'none', 'literal'):
                    out.append((f'C05:into_data:top-level-{c.term[0]}', f'into_data({x!r}, {T!r}) raised TypeError: {e}', None))
                elif isinstance(e, AssertionError) and overlapping_union(c.term) and dynamic_overlap(c.term, x):
                    out.append(('C05:into_data-raises:overlapping-union', f'into_data({x!r}, {T!r}) raised {type(e).__name__}: a union member that '
                                'is not the value\'s own reads the typed value as data (the serialiser picks the member by a trial conversion)', None))
                else:
                    out.append((f'C05:{head}:into_data:{type(e).__name__}', f'into_data({x!r}, {T!r}) raised {type(e).__name__}: {e}', None))
                return out
            if not is_data(d):
                out.append((f'C05:{head}:not-interchange', f'into_data({x!r}, {T!r}) = {d!r} contains non-interchange values', None))
                return out
            issues = class_issues(c.term)
            skip = issues & {'out-layout-not-enabled', 'excluded-field', 'explicit-asymmetric-out_name', 'explicit-asymmetric-rename',
                             'explicit-asymmetric-in_names', 'tuple-out-with-noninit-field'}
            if skip:
                return out
            sig_extra = known_cause(c.term, issues, x=x)
            try:
                y = pane.from_data(d, T)
            except ConvertError as e:
                out.append((f'C05:roundtrip-rejected:{sig_extra or head}', f'from_data(into_data(x, T), T) failed for x={x!r}, T={T!r}, data={d!r}: {str(e)[:200]}', {'data': repr(d)}))
                return out
            except Exception as e:
                out.append((f'C05:{head}:reparse:{type(e).__name__}', f'from_data({d!r}, {T!r}) raised {type(e).__name__}: {e}', None))
                return out
            opaque_differs = False
            if 'VOpaque' in canon(x) and 'FNan' not in canon(x) and 'nan' not in repr(x).lower():     # (no NaN of any library type: it is unequal to itself and reorders sets)
                # library values the term language does not spell out (ValueOrList, ...): their own equality decides
                try:
                    opaque_differs = type(y) is not type(x) or (not (y == x) and repr(y) != repr(x))     # (Decimal('NaN') != itself)
                except Exception:
                    opaque_differs = False
            if opaque_differs or (canon(y) != canon(x) and not (y == x and type(y) is type(x) and 'FNan' in canon(x))):
                if 'FNan' in canon(x):
                    return out      # NaN != NaN: equality of the round trip is not defined for it
                out.append((f'C05:roundtrip-differs:{sig_extra or head}', f'from_data(into_data(x, T), T) = {y!r} differs from x = {x!r} (T = {T!r}, data = {d!r})', {'data': repr(d)}))
                return out
            try:
                d2 = pane.into_data(y, T)
                if not data_equal_mod_sets(d, d2):
                    out.append((f'C05:{head}:reserialise-differs', f'second serialisation {d2!r} differs from the first {d!r}', None))
            except Exception as e:
                out.append((f'C05:{head}:reserialise:{type(e).__name__}', f'into_data raised on the re-parsed value: {e}', None))
        return out
    return monitor




def native_union_roundtrips(out):
    """unions whose members are told apart by the written form although an earlier member would read the TYPED value (a date member
    reads a datetime instance, the datetime member alone reads its ISO text): the round trip holds for these on every tree on
    which each member writes what it reads, so no recorded cause applies"""
    import datetime
    import pane
    n = 0
    D, DT, TM = datetime.date, datetime.datetime, datetime.time
    cases = [
        (t.Union[D, DT], ['2024-02-29T23:59:58', '2024-02-29', '2024-02-29T00:00:00']),
        (t.Union[TM, DT], ['2024-02-29T13:45:10', '13:45:10']),
        (t.Union[DT, D], ['2024-02-29T23:59:58', '2024-02-29']),
        (t.Optional[t.Union[D, DT]], ['2024-02-29T23:59:58', None]),
        (t.List[t.Union[D, DT]], [['2024-02-29T23:59:58', '2024-02-29']]),
        (t.Dict[str, t.Union[TM, DT]], [{'a': '2024-02-29T13:45:10', 'b': '13:45:10'}]),
    ]

    import enum

    class Color(str, enum.Enum):          # members are strings: a later str member reads the member itself, but not as a Color
        RED = 'red'
        BLUE = 'blue'

    class Level(enum.IntEnum):
        LOW = 1
        HIGH = 2

    class Paint(pane.PaneBase):
        c: t.Union[Color, str] = 'none'
        levels: t.List[t.Union[Level, float]] = pane.field(default_factory=list)
    cases += [(t.Union[Color, str], ['red', 'other', 'blue']), (t.Union[Level, int], [1, 5]), (t.List[t.Union[Color, str]], [['red', 'x', 'blue']]),
              (t.Dict[str, t.Union[Color, int]], [{'a': 'red', 'b': 3}]), (t.Optional[t.Union[Color, str]], ['red', None]), (t.Union[Level, float], [2, 2.5]),
              (Paint, [{'c': 'red', 'levels': [1, 1.5]}, {'c': 'grey'}])]

    class Event(pane.PaneBase):
        name: str
        when: t.Union[D, DT]
        alarms: t.List[t.Union[TM, DT]] = pane.field(default_factory=list)
    cases.append((Event, [{'name': 'launch', 'when': '2024-02-29T13:45:10', 'alarms': ['2024-02-29T13:45:10', '07:00:00']}, {'name': 'day', 'when': '2024-02-29'}]))
    with warnings.catch_warnings():
        warnings.simplefilter('ignore')
        for T, datas in cases:
            for data in datas:
                n += 1
                try:
                    x = pane.from_data(data, T)
                    d = pane.into_data(x, T)
                    y = pane.from_data(d, T)
                except Exception as e:
                    out.violation(f'C05:native-union-roundtrip:{type(e).__name__}', f'{T!r} from {data!r}: {type(e).__name__}: {str(e)[:200]}', {'type': repr(T), 'data': repr(data)})
                    continue
                if canon(y) != canon(x) or repr(y) != repr(x):
                    out.violation('C05:native-union-roundtrip', f'{T!r}: x = {x!r} is written as {d!r}, which reads back as {y!r}', {'type': repr(T), 'data': repr(data)})
    return n


def custom_converter_roundtrips(out):
    """dataclasses whose fields are written and read by a user converter with a non-identity serialised form (an int number of
    cents written as '12.34'), attached to the field, to the class (both layouts) and at the call: the round trip must hold and the
    serialised form must be the converter's"""
    import re
    import pane
    from pane.converters import Converter
    from pane.errors import ParseInterrupt, WrongTypeError

    class Cents(Converter):
        def expected(self, plural=False):
            return 'amounts' if plural else 'an amount'

        def try_convert(self, val):
            if isinstance(val, str) and re.fullmatch(r'\d+\.\d\d', val):
                return int(val.replace('.', ''))
            raise ParseInterrupt()

        def collect_errors(self, val):
            try:
                self.try_convert(val)
                return None
            except ParseInterrupt:
                return WrongTypeError(self.expected(), val)

        def into_data(self, val):
            return f'{val // 100}.{val % 100:02d}'
    n = 0
    cases = []

    class Inv(pane.PaneBase):
        customer: str
        total: int = pane.field(converter=Cents())
        paid: bool = False
    cases.append(('field converter', Inv, {'customer': 'ACME', 'total': '12.34'}, {'customer': 'ACME', 'total': '12.34', 'paid': False}, {}))

    class InvC(pane.PaneBase, custom={int: Cents()}):
        customer: str
        total: int
    cases.append(('class-level custom', InvC, {'customer': 'ACME', 'total': '0.05'}, {'customer': 'ACME', 'total': '0.05'}, {}))

    class InvT(pane.PaneBase, custom={int: Cents()}, out_format='tuple', in_format=('tuple', 'struct')):
        customer: str
        total: int
    cases.append(('class-level custom, tuple layout', InvT, ['ACME', '7.00'], ('ACME', '7.00'), {}))

    class Line(pane.PaneBase):
        total: int

    class Outer(pane.PaneBase, custom={int: Cents()}):
        lines: t.List[Line]
        best: t.Optional[Line] = None
    cases.append(('custom reaching nested classes', Outer, {'lines': [{'total': '1.00'}, {'total': '2.50'}], 'best': {'total': '2.50'}},
                  {'lines': [{'total': '1.00'}, {'total': '2.50'}], 'best': {'total': '2.50'}}, {}))
    cases.append(('call-level custom', Line, {'total': '3.21'}, {'total': '3.21'}, {'custom': {int: Cents()}}))
    for label, cls, data, want_data, kw in cases:
        n += 1
        try:
            x = pane.from_data(data, cls, **kw)
            d = pane.into_data(x, cls, **kw)
            y = pane.from_data(d, cls, **kw)
        except Exception as e:
            out.violation(f'C05:custom-converter-roundtrip:{type(e).__name__}', f'{label}: {cls.__name__} from {data!r}: {type(e).__name__}: {str(e)[:300]}', {'case': label})
            continue
        if d != want_data or y != x:
            out.violation('C05:custom-converter-roundtrip', f'{label}: x = {x!r} serialises to {d!r} (the converter writes {want_data!r}) and reads back as {y!r}', {'case': label})
    return n


def run(ctx, out):
    import families as _fameq
    out.evaluations += _fameq.equal_but_distinct_family(out, PROP)
    import families as _famni
    out.evaluations += _famni.noninit_roundtrip_family(out, PROP)
    out.rule = ('types x values accepted by them (x = from_data(v, T)); checks: into_data(x, T) is interchange data only, '
                'from_data(into_data(x, T), T) == x with identical runtime classes, second serialisation equal up to list order; '
                'dataclass configurations: layouts (struct/tuple in/out), class rename styles, aliases, in_names, rename, out_name, '
                'kw-only, excluded fields (skipped when the output form is not enabled on input). Non-trivial = non-leaf type.')
    out.evaluations += custom_converter_roundtrips(out)
    out.evaluations += native_union_roundtrips(out)
    into_items = []
    cases = convprop.run(ctx, out, PROP, monitor_factory(into_items), cfg={'naming_density': 2.5, 'weights': {'class': 4.5, 'union': 1.5, 'tagged': 1.2, 'std': 1.0}},
                         extra_cases=lambda rng: convprop.cases_from_pairs(gen.subclass_union_cases(rng), rng, 'subclass-union') + convprop.cases_from_pairs(gen.std_kind_cases(rng), rng, 'library-types'))
    if any(f in ctx['failed_files'] for f in ('Model/Into.v', 'Run/AgreeInto.v')):
        out.oblige('corr_into', False, 'serialiser model does not build')
        return
    nr, bad, errs = convcases.correspond_into(PROP, into_items)
    out.extra['into_correspondence_cases'] = nr
    out.oblige('corr_into: model into_data = Converter.into_data on every accepted (type, typed value)', not bad and not errs,
               f'{len(bad)} mismatches over {nr}, {len(errs)} shard errors')
    for e in errs[:2]:
        out.violation('C05:corr_into:shard-error', 'serialiser correspondence shard failed: ' + e[:500], {'correspondence': 'corr_into', 'error': e[:1500]}, no_input=True)
    if bad and not out.has_unlisted_input():
        c, x, obs, coq = bad[0]
        out.violation('C05:corr_into', f'serialiser model and pane disagree on {len(bad)} case(s), e.g. T={c.built.py!r}, x={x!r}, pane: {convcases.obs_repr(obs)}',
                      {'correspondence': 'corr_into', 'type': repr(c.built.py), 'value': repr(x), 'observed': convcases.obs_repr(obs)}, no_input=True)


def replay(rep, out):
    print(rep['what'])
    print(rep['replay'])
    return 0
