"""C08 -- error messages are total and complete."""
import warnings

import convcases
import convprop
import terms
from common import run_shards, coq_eval
from terms import term_head, tree_to_coq, Unsupported

PROP = 'C08'
COQ_TARGETS = ['Props/C08.vo', 'Run/AgreeRender.vo'] + convprop.CONV_TARGETS
GEN = convprop.MODEL_TABLES
HEADER = ('From Coq Require Import ZArith List String.\nImport ListNotations.\n'
          'Require Import Base.PyNum Base.Outcome Model.Values Model.Vocab Model.Types Model.Conv Model.Render Run.AgreeRender.\n'
          'Open Scope string_scope.\nOpen Scope Z_scope.\n')


def coq_text(s):
    if not all((32 <= ord(ch) < 127) or ch == '\n' for ch in s):
        raise Unsupported('non-ascii text')
    return '"' + s.replace('"', '""') + '"'


def expected_mentions(node, inside_sum=False):
    """the strings the message must contain, in nesting order (depth-first), for a tree"""
    from pane import errors as E
    out = []
    if isinstance(node, E.ProductErrorNode):
        # (the expectation of inner product nodes is dropped when chains are fused: only leaves are required)
        for k, ch in node.children.items():
            out.append(('key', str(k)))
            out += expected_mentions(ch)
        for m in node.missing:
            out.append(('unordered', m if isinstance(m, str) else '/'.join(m)))
        for x in node.extra:
            out.append(('unordered', str(x)))
        if not inside_sum and not node.children and not node.missing and not node.extra:
            pass
    elif isinstance(node, E.SumErrorNode):
        for ch in node.children:
            if isinstance(ch, E.SumErrorNode):
                for c2 in ch.children:
                    out += expected_mentions(c2, True)
            else:
                out += expected_mentions(ch, True)
        actual = None
        flat = []
        for ch in node.children:
            flat += ch.children if isinstance(ch, E.SumErrorNode) else [ch]
        for ch in flat:
            actual = getattr(ch, 'actual', actual)
        out.append(('value', actual))
    elif isinstance(node, E.DuplicateKeyError):
        out.append(('key', str(node.key)))
    elif isinstance(node, (E.WrongTypeError, E.WrongLenError, E.ConditionFailedError)):
        out.append(node.expected)
        if not inside_sum:
            out.append(('value', node.actual))
        if isinstance(node, E.ConditionFailedError):
            out.append(node.condition)
        cause = getattr(node, 'cause', None)
        if cause is not None:
            msg = ''.join(cause.format_exception_only()).strip().splitlines()[-1]
            out.append(('cause', msg))
    return out


def check_mentions(tree, text):
    """every item in order (keys, expectations), unordered items anywhere"""
    pos = 0
    for item in expected_mentions(tree):
        if isinstance(item, tuple):
            kind, val = item
            if kind == 'unordered':
                if str(val) not in text:
                    return f'missing/unexpected field {val!r} is not mentioned'
                continue
            if kind == 'value':
                s = str(val)
                if f'`{s}`' not in text:
                    return f'offending value {s!r} is not shown'
                continue
            if kind == 'cause':
                if str(val) not in text:
                    return f'message of the underlying exception {val!r} is not included'
                continue
            s = str(val)
        else:
            s = item
        i = text.find(s, pos)
        if i < 0:
            return f'{s!r} is not mentioned (in nesting order, after offset {pos})'
        # fused keys: a.b.c keeps the components adjacent; do not advance past the start of the key
        pos = i + (len(s) if not (isinstance(item, tuple) and item[0] == 'key') else len(s))
    return None


HASHSEED_SCRIPT = r"""
import sys, json, typing as t
sys.path.insert(0, '/repo')
import warnings; warnings.simplefilter('ignore')
import pane
class In(pane.PaneBase):
    alpha: int; beta: int; gamma: int; delta: int = 0
class Out(pane.PaneBase):
    inner: In
    tags: t.Dict[str, int] = {}
class Tup(pane.PaneBase, in_format=('tuple', 'struct')):
    x: int; y: int
CASES = [
    (In, {}), (In, {'zeta': 1, 'eta': 2, 'theta': 3, 'iota': 4}), (In, {'alpha': 'a', 'kappa': 1, 'lambda': 2, 'mu': 3}),
    (Out, {'inner': {'omega': 1, 'psi': 2}}), (Out, {'inner': {'alpha': 1}, 'u': 1, 'v': 2, 'w': 3}),
    (t.List[In], [{}, {'alpha': 1, 'p': 1, 'q': 2, 'r': 3}]),
    (t.Union[In, Tup, int], {'x': 1, 'one': 1, 'two': 2, 'three': 3}),
    (t.Dict[str, In], {'k': {'beta': 1, 'b2': 1, 'b3': 1}, 'l': {}}),
    (t.TypedDict('TD', {'first': int, 'second': int, 'third': str}), {'fourth': 1, 'fifth': 2, 'sixth': 3}),
]
res = []
for ty, v in CASES:
    try:
        pane.from_data(v, ty); res.append(None)
    except pane.ConvertError as e:
        res.append(str(e))
print(json.dumps(res))
"""


def literal_twins_text(out):
    """two Literal types whose value tuples are ==-equal but differ in type (Literal[0, 1] / Literal[False, True], Literal[1] /
    Literal[True]), described one after the other in one process, in both orders: each message lists the type's own values"""
    import typing as t
    import pane
    n = 0
    pairs = [((0, 1), (False, True)), ((1,), (True,)), ((1, 'a'), (True, 'a')), ((0,), (False,))]

    class Holder(pane.PaneBase):
        a: t.Literal[0, 1] = 0
        b: t.Literal[False, True] = False
    with warnings.catch_warnings():
        warnings.simplefilter('ignore')
        for first, second in pairs + [(b, a) for a, b in pairs]:
            for vals in (first, second):
                for label, ty, data in (('top', t.Literal[vals], 'zzz'), ('list element', t.List[t.Literal[vals]], ['zzz']), ('optional', t.Optional[t.Literal[vals]], 'zzz')):
                    n += 1
                    try:
                        pane.from_data(data, ty)
                        continue
                    except pane.ConvertError as e:
                        text = str(e)
                    except Exception as e:
                        out.violation(f'C08:literal-twins:{type(e).__name__}', f'{label}: from_data({data!r}, {ty!r}) raised {type(e).__name__}', {'type': repr(ty)})
                        continue
                    missing = [repr(v) for v in vals if repr(v) not in text]
                    if missing:
                        out.violation('C08:literal-twins', f'{label}: the message for {data!r} as {ty!r} (described after Literal{list(first)!r}) does not mention its values {missing}: {text[:200]!r}',
                                      {'type': repr(ty), 'described_before': repr(first)})
        n += 1
        try:
            Holder.from_data({'a': 5, 'b': 5})
        except pane.ConvertError as e:
            text = str(e)
            if 'False' not in text or 'True' not in text or '0' not in text.replace('False', '').replace('True', ''):
                out.violation('C08:literal-twins', f'fields a: Literal[0, 1] and b: Literal[False, True] of one class: the message does not list each field\'s own values: {text[:300]!r}', {'type': 'Holder'})
    return n


def hashseed_determinism(out):
    """the same failure rendered in interpreters started with different string-hash seeds: the text may not differ"""
    import subprocess, json, os
    texts = {}
    for seed in ('1', '2', '3', '11'):
        env = dict(os.environ, PYTHONHASHSEED=seed, PYTHONPATH='/repo')
        r = subprocess.run(['/venv/bin/python', '-c', HASHSEED_SCRIPT], env=env, capture_output=True, text=True, timeout=120)
        if r.returncode != 0:
            out.violation('C08:hashseed-run-failed', f'rendering under PYTHONHASHSEED={seed} failed: {r.stderr[-300:]}', {'stderr': r.stderr[-1500:]})
            return
        texts[seed] = json.loads(r.stdout.strip().splitlines()[-1])
    ref = texts['1']
    for seed, ts in texts.items():
        for i, (a, b) in enumerate(zip(ref, ts)):
            out.evaluations += 1
            if a != b:
                out.violation('C08:render-depends-on-hash-seed',
                              f'the message for one and the same failure (case {i}) differs between PYTHONHASHSEED=1 and PYTHONHASHSEED={seed}: {a[:160]!r} vs {b[:160]!r}',
                              {'case_index': i, 'script': HASHSEED_SCRIPT, 'seed_a': '1', 'seed_b': seed, 'text_a': a, 'text_b': b})
                return


def monitor_factory(items):
    def monitor(c):
        out = []
        if c.fd_obs is None or c.fd_obs[0] != 'error':
            return out
        head = term_head(c.term)
        err = c.fd_obs[1]
        try:
            before = repr(err.tree)
            text = str(err)
            text2 = str(err)
            after = repr(err.tree)
            text3 = str(err)
        except Exception as e:
            out.append((f'C08:render-raises:{type(e).__name__}', f'str(ConvertError) raised {type(e).__name__}: {e} for {c.value!r} as {c.built.py!r}', None))
            return out
        if text != text2 or text != text3:
            out.append(('C08:render-not-deterministic', f'renderings of the same error differ for {c.value!r} as {c.built.py!r}: first {text[:200]!r}, later {text3[:200]!r}', None))
        if before != after:
            out.append(('C08:render-changes-tree', f'rendering changed the error tree of {c.value!r} as {c.built.py!r}', None))
        try:
            r = check_mentions(err.tree, text)
        except Exception as e:
            r = f'monitor error {e!r}'
        if r:
            out.append((f'C08:{head}:incomplete', f'{r}; message: {text[:300]!r}', {'message': text}))
        if True:
            try:
                items.append((c, f'({tree_to_coq(err.tree)}, {coq_text(text)})'))
            except (Unsupported, RecursionError):
                pass
        return out
    return monitor


def shape_cases(rng):
    """tree-shape families: fused chains, sum in product in sum, duplicates, length errors, causes"""
    out = []
    inner = {'name': terms.fresh_name('In'), 'fields': [{'name': 'z', 'ty': ('scalar', 'int')}], 'opts': {}, 'hook': None}
    mid = {'name': terms.fresh_name('Mid'), 'fields': [{'name': 'b', 'ty': ('class', inner)}, {'name': 'q', 'ty': ('scalar', 'str'), 'default': ('value', 'd')}], 'opts': {}, 'hook': None}
    outer = {'name': terms.fresh_name('Out'), 'fields': [{'name': 'a', 'ty': ('class', mid), 'aliases': ['A']}], 'opts': {}, 'hook': None}
    tcls = {'name': terms.fresh_name('Tup'), 'fields': [{'name': 'x', 'ty': ('scalar', 'int')}, {'name': 'y', 'ty': ('scalar', 'int'), 'default': ('value', 0)}], 'opts': {'in_format': ('tuple', 'struct')}, 'hook': None}
    hook = {'name': terms.fresh_name('Hk'), 'fields': [{'name': 'n', 'ty': ('scalar', 'int')}], 'opts': {}, 'hook': ('raise_if_lt', 'n', 0)}
    fam = [
        (('class', outer), [{'a': {'b': {'z': 'no'}}}, {'a': {'b': {}}}, {'a': {'b': {'z': 1, 'w': 2}}}, {'a': {'b': {'z': 1}}, 'A': {'b': {'z': 1}}},
                            {'a': {'b': {'z': 'x'}, 'q': 5}}, {'a': 5}, {}, {'zz': 1, 'a': {'b': {'z': 1}}}]),
        (('seq', 'list', ('seq', 'list', ('dict', ('scalar', 'str'), ('scalar', 'int')))), [[[{'k': 'v'}]], [[{'k': 1}], [{'k': None}]], [[5]], 'abc']),
        (('union', [('class', tcls), ('seq', 'list', ('union', [('scalar', 'str'), ('none',)])), ('scalar', 'int')]), [[1, 2, 3], ['a', 5], {'x': 'a'}, 2.5, [1, 'a']]),
        (('class', tcls), [[], [1, 2, 3], ['a'], {'x': 1, 'y': 2, 'z': 3}]),
        (('class', hook), [{'n': -1}, {'n': 'a'}]),
        (('cond', ('scalar', 'int'), ('raise', 'kaboom')), [1]),
        (('cond', ('seq', 'list', ('scalar', 'int')), ('lenrange', 1, 2)), [[], [1, 2, 3], ['a']]),
        (('dict', ('scalar', 'int'), ('tuple', [('scalar', 'int'), ('scalar', 'str')], 'typing')), [{1: (1, 2)}, {'a': (1, 'b')}, {1: (1,)}]),
        (('tagged', 'kind', 'internal', [('a', ('class', {'name': terms.fresh_name('Va'), 'fields': [{'name': 'x', 'ty': ('scalar', 'int')}, {'name': 'kind', 'ty': ('literal', ['a']), 'default': ('value', 'a')}], 'opts': {}, 'hook': None})),
                                         ('b', ('class', {'name': terms.fresh_name('Vb'), 'fields': [{'name': 'kind', 'ty': ('literal', ['b']), 'default': ('value', 'b')}], 'opts': {}, 'hook': None}))]),
         [{'kind': 'a', 'x': 'no'}, {'kind': 'zzz'}, {'x': 1}, {'kind': ['a']}, 5]),
        (('enum', terms.fresh_name('En'), [('A', 1), ('B', 'b')]), [3, 'c', 2.5, None]),
    ]
    # a chain of single-failing-child product nodes whose MIDDLE level also has a missing / an unexpected field
    leaf = {'name': terms.fresh_name('Leaf'), 'fields': [{'name': 'depth', 'ty': ('scalar', 'int')}], 'opts': {}, 'hook': None}
    middle = {'name': terms.fresh_name('Middle'), 'fields': [{'name': 'leaf', 'ty': ('class', leaf)}, {'name': 'width', 'ty': ('scalar', 'int')}], 'opts': {}, 'hook': None}
    top = {'name': terms.fresh_name('Top'), 'fields': [{'name': 'middle', 'ty': ('class', middle)}], 'opts': {}, 'hook': None}
    fam += [(('class', top), [{'middle': {'leaf': {'depth': 'deep'}}}, {'middle': {'leaf': {'depth': 'deep'}, 'width': 1, 'colour': 'red'}},
                              {'middle': {'leaf': {'depth': 'deep', 'zz': 1}, 'width': 1}}, {'middle': {'leaf': {}, 'colour': 1}}]),
            (('seq', 'list', ('dict', ('scalar', 'str'), ('class', middle))), [[{'k': {'leaf': {'depth': 'deep'}}}], [{'k': {'leaf': {'depth': 'x'}, 'width': 2, 'extra': 0}}]])]
    # sums nested three and four deep (a union-like member inside a condition inside a union ...): rendering flattens them for display only
    mixed = ('enum', terms.fresh_name('Mx'), [('A', 1), ('B', 'b')])
    lvl2 = ('cond', ('union', [mixed, ('none',)]), ('lenrange', 0, 9))
    lvl3 = ('union', [lvl2, ('none',)])
    lvl4 = ('union', [('cond', ('union', [lvl2, ('scalar', 'bytes')]), ('lenrange', 0, 9)), ('none',)])
    holder = {'name': terms.fresh_name('Sum'), 'fields': [{'name': 'f', 'ty': lvl3}, {'name': 'g', 'ty': lvl4, 'default': ('value', None)}], 'opts': {}, 'hook': None}
    fam += [(lvl3, [[1.5], 2.5, {}]), (lvl4, [[1.5], 2.5]), (('seq', 'list', lvl3), [[2.5, None, [1]]]), (('class', holder), [{'f': 2.5}, {'f': None, 'g': [1.5]}])]
    for term, vals in fam:
        b = terms.build(term, rng)
        for v in vals:
            out.append(convcases.Case(term, b, v, 'shape'))
    # non-ASCII and odd values (implementation side only)
    b = terms.build(('struct', [('x', ('scalar', 'int'))]), rng)
    for v in ({'x': 'héllo 世界'}, {'é': 1}, {'x': float('nan')}, {'x': b'\xff\x00'}, {'x': 'line1\nline2'}, {'x': '`tick`'}):
        out.append(convcases.Case(('struct', [('x', ('scalar', 'int'))]), b, v, 'odd'))
    return out


def run(ctx, out):
    out.rule = ('every rejected (type, value) of the stream plus hand-built tree-shape families (fused chains a.b.c, missing/extra/duplicate '
                'keys, sum in product in sum, length errors, hook and predicate causes, tagged-union leaves, non-ASCII and multi-line '
                'values). On pane: rendering never raises, is repeatable, and mentions in nesting order every child key, leaf expectation, '
                'missing/unexpected/duplicate field, the offending value and the cause message. Text equality with the Coq renderer for '
                'float-free, cause-free trees (corr_text).')
    items = []
    convprop.run(ctx, out, PROP, monitor_factory(items), cfg={'weights': {'class': 2.5, 'union': 2.0, 'seq': 1.5, 'dict': 1.5}}, extra_cases=shape_cases)
    # rendering an error that mentions an int beyond the interpreter's int -> str digit limit
    import sys
    import typing as _t
    import pane
    lim = sys.get_int_max_str_digits() if hasattr(sys, 'get_int_max_str_digits') else 0
    if lim:
        big = 10 ** (lim + 100)
        for label, ty, v in (('leaf value', str, big), ('list element', _t.List[str], ['a', big]), ('mapping value', _t.Dict[str, str], {'k': big})):
            out.evaluations += 1
            try:
                pane.from_data(v, ty)
            except pane.ConvertError as e:
                try:
                    str(e)
                except Exception as e2:
                    out.violation(f'C08:render-raises:int-beyond-str-digit-limit:{type(e2).__name__}',
                                  f'str(ConvertError) raised {type(e2).__name__} for an offending int of {lim + 101} digits ({label})',
                                  {'value': f'10 ** {lim + 100}', 'position': label, 'type': repr(ty)})
            except Exception:
                pass        # an escape is C04's business
    hashseed_determinism(out)
    out.evaluations += literal_twins_text(out)
    if any(f in ctx['failed_files'] for f in ('Model/Render.v', 'Run/AgreeRender.v')):
        out.oblige('corr_text', False, 'renderer model does not build')
        return
    bad, errs = run_shards(PROP, 'render', HEADER, items, lambda it: it[1], per=200, final='render_mismatches', ty='list render_case')
    out.extra['text_correspondence_cases'] = len(items)
    out.oblige('corr_text: model render = str(ConvertError) on float-free, cause-free trees', not bad and not errs,
               f'{len(bad)} mismatches over {len(items)}, {len(errs)} shard errors')
    for e in errs[:2]:
        out.violation('C08:corr_text:shard-error', 'shard failed: ' + e[:500], {'correspondence': 'corr_text', 'error': e[:1500]}, no_input=True)
    if bad and not out.has_unlisted_input():
        c, coq = items[bad[0]]
        rc, o = coq_eval(PROP, 'diag', HEADER + f'Eval vm_compute in (render_case_model {coq}).\n')
        out.violation('C08:corr_text', f'renderer model and pane disagree on {len(bad)} tree(s), e.g. value {c.value!r} as {c.built.py!r}: {str(c.fd_obs[1])[:200]!r}',
                      {'correspondence': 'corr_text', 'type': repr(c.built.py), 'value': repr(c.value), 'pane': str(c.fd_obs[1]), 'model': o[-800:]}, no_input=True)


def replay(rep, out):
    print(rep['what'])
    print(rep['replay'])
    return 0
