"""C18 -- custom converter precedence and reach."""
import itertools
import types as pytypes
import typing as t
import warnings

import terms

PROP = 'C18'
COQ_TARGETS = ['Props/C18.vo']
GEN = ['GenDispatch']

SOURCES = ['field', 'call', 'nearest', 'outer', 'registered']


def mark_class():
    from pane.converters import Converter

    class Mark(Converter):
        """tags what it converts with the source it was installed by"""
        def __init__(self, tag):
            self.tag = tag

        def expected(self, plural=False):
            return f'marked by {self.tag}'

        def try_convert(self, val):
            return ('in', self.tag, val)

        def collect_errors(self, val):
            return None

        def into_data(self, val):
            return ('out', self.tag, val if not isinstance(val, tuple) else val[-1])
    return Mark


def make_targets(Mark):
    """three kinds of target type: a scalar built-in, a type with its own protocol, a type served only structurally"""
    class Proto:
        @classmethod
        def _converter(cls, *args, handlers):
            return Mark('protocol')

    class MyList(list):
        pass

    class MyDict(dict):
        pass
    import enum
    Col = enum.Enum('Col', {'RED': 1, 'GREEN': 2})
    # every structural stage of the dispatch (enum, sequence, mapping) comes after the registered handlers
    return {'scalar': (str, 'builtin'), 'protocol': (Proto, 'protocol'), 'structural': (MyList, 'structural'),
            'enum': (Col, 'structural'), 'mapping': (MyDict, 'structural')}


def find_tags(x, acc):
    """collect (direction, tag) markers anywhere in a result"""
    import pane
    if isinstance(x, (tuple, list)) and len(x) == 3 and x[0] in ('in', 'out') and isinstance(x[1], str):
        acc.append((x[0], x[1]))
        return acc
    if isinstance(x, dict):
        for k, v in x.items():
            find_tags(k, acc)
            find_tags(v, acc)
    elif isinstance(x, (list, tuple, set, frozenset)):
        for v in x:
            find_tags(v, acc)
    elif isinstance(x, pane.PaneBase):
        for f in type(x).__pane_info__.fields:
            find_tags(getattr(x, f.name, None), acc)
    return acc


def run(ctx, out):
    import families as _famadh
    out.evaluations += _famadh.argument_dependent_handlers(out, PROP)
    import pane
    import importlib
    V = importlib.import_module('pane.convert')
    Mark = mark_class()
    targets = make_targets(Mark)
    priority = ['field', 'call', 'nearest', 'outer', 'protocol', 'builtin', 'registered', 'structural']
    out.rule = ('EXHAUSTIVE: all 32 subsets of the five installable sources (field converter, call-level handlers, handlers of the nearest '
                'dataclass, of the outer dataclass, registered global handler) x 3 kinds of target type (scalar built-in, own protocol, '
                'structural only) x 5 nesting shapes (direct field, List[X], Optional[X], Dict[str, X], field of an inherited subclass) x both '
                'directions; marker converters tag their output with the source that installed them and the winner is compared with the '
                'documented priority; plus handler forms (mapping form only for the exact unparameterised type, NotImplemented defers).')
    out.exhaustive = True
    shapes = {
        'direct': (lambda X: X, lambda v: v),
        'list': (lambda X: t.List[X], lambda v: [v]),
        'optional': (lambda X: t.Optional[X], lambda v: v),
        'dict': (lambda X: t.Dict[int, X], lambda v: {1: v}),
    }
    n = 0
    for tname in list(targets):
        own_tag = targets[tname][1]
        raw = {'scalar': 'text', 'structural': ['e'], 'enum': 1, 'mapping': {'k': 1}}.get(tname, 'payload')
        for subset in itertools.chain.from_iterable(itertools.combinations(SOURCES, r) for r in range(len(SOURCES) + 1)):
            for sname, (wrap, wrapv) in shapes.items():
                for subclassed in (False, True):
                    if subclassed and sname != 'direct':
                        continue
                    if 'field' in subset and sname != 'direct':
                        continue          # a field converter replaces the converter of the whole field type
                    n += 1
                    X = make_targets(Mark)[tname][0]       # a fresh class: the converter cache is keyed on the type object
                    terms.KEEP.append(X)
                    label = f'{tname}/{"+".join(subset) or "none"}/{sname}{"/subclass" if subclassed else ""}'

                    def handler_for(tag, X=X):
                        def h(ty, args, *, handlers):
                            if ty is X and len(args) == 0:
                                return Mark(tag)
                            return NotImplemented
                        return h
                    inner_opts = {'custom': handler_for('nearest')} if 'nearest' in subset else {}
                    outer_opts = {'custom': handler_for('outer')} if 'outer' in subset else {}
                    fld = pane.field(converter=Mark('field')) if 'field' in subset else None
                    ns = {'__annotations__': {'x': wrap(X)}}
                    if fld is not None:
                        ns['x'] = fld
                    Inner = pytypes.new_class(terms.fresh_name('In'), (pane.PaneBase,), inner_opts, lambda d: d.update(ns))
                    if subclassed:
                        Inner = pytypes.new_class(terms.fresh_name('InSub'), (Inner,), {}, lambda d: d.update({'__annotations__': {'extra': int}, 'extra': 0}))
                    Outer = pytypes.new_class(terms.fresh_name('Out'), (pane.PaneBase,), outer_opts, lambda d: d.update({'__annotations__': {'inner': Inner}}))
                    terms.KEEP += [Inner, Outer]
                    custom = handler_for('call') if 'call' in subset else None
                    reg = handler_for('registered') if 'registered' in subset else None
                    if reg:
                        V._GLOBAL_HANDLERS.insert(0, reg)
                    try:
                        with warnings.catch_warnings():
                            warnings.simplefilter('ignore')
                            candidates = [s for s in priority if s in subset or s == own_tag]
                            want = candidates[0]
                            data = {'inner': {'x': wrapv(raw)}}
                            try:
                                x = pane.from_data(data, Outer, custom=custom)
                            except Exception as e:
                                out.violation(f'C18:from_data-raises:{tname}', f'{label}: from_data raised {type(e).__name__}: {str(e)[:200]}', {'config': label})
                                continue
                            tags = find_tags(x, [])
                            got = tags[0][1] if tags else (own_tag if own_tag in ('builtin', 'structural') else None)
                            if got != want:
                                out.violation(f'C18:precedence:{tname}:{sname}', f'{label}: the converter used on input is {got!r}, the documented priority gives {want!r} (result {x!r})', {'config': label})
                            # the other direction
                            try:
                                d = pane.into_data(x, Outer, custom=custom)
                            except Exception as e:
                                out.violation(f'C18:into_data-raises:{tname}', f'{label}: into_data raised {type(e).__name__}: {str(e)[:200]}', {'config': label})
                                continue
                            otags = [tg for tg in find_tags(d, []) if tg[0] == 'out']
                            ogot = otags[0][1] if otags else (own_tag if own_tag in ('builtin', 'structural') else None)
                            if ogot != want:
                                out.violation(f'C18:precedence-out:{tname}:{sname}', f'{label}: the converter used on output is {ogot!r}, expected {want!r} (data {d!r})', {'config': label})
                    finally:
                        if reg:
                            V._GLOBAL_HANDLERS.remove(reg)
                    out.case(label, nontrivial=len(subset) > 1)
    out.sample({'config': 'scalar/call+nearest/list', 'expected winner': 'call'})
    # ---- call-level handlers reach every depth: containers, unions, nested dataclasses; both directions
    class Leaf(pane.PaneBase):
        s: str
        items: t.List[str] = pane.field(default_factory=list)

    class Mid(pane.PaneBase):
        leaf: Leaf
        opt: t.Optional[Leaf] = None
        many: t.Dict[str, t.List[Leaf]] = pane.field(default_factory=dict)
        either: t.Union[int, Leaf, None] = None
        pair: t.Tuple[str, int] = ('p', 0)
    data = {'leaf': {'s': 'a', 'items': ['b']}, 'opt': {'s': 'c'}, 'many': {'k': [{'s': 'd'}]}, 'either': {'s': 'e'}, 'pair': ['f', 1]}
    x = pane.from_data(data, Mid, custom={str: Mark('call')})
    n += 1
    got = sorted(tg[1] for tg in find_tags(x, []))
    nstr = 7          # 6 values + the str key of `many`
    if got != ['call'] * nstr:
        out.violation('C18:reach:from_data', f'call-level handler for str reached {len(got)} of {nstr} string positions: {x!r}', {})
    d = pane.into_data(x, Mid, custom={str: Mark('call')})
    n += 1
    og = [tg for tg in find_tags(d, []) if tg[0] == 'out']
    if len(og) != nstr:
        where = 'union member' if len(og) == nstr - 1 else 'several places'
        out.violation(f'C18:reach:into_data:{nstr - len(og)}-missing', f'call-level handler for str was applied at {len(og)} of {nstr} string positions when serialising '
                      f'({where}): {d!r}', {'data': repr(d)})
    # ---- three nesting levels, handler objects shared between levels (inherited from a common base or reused):
    #      the nearest enclosing dataclass that has a handler for the type wins, whatever the outer ones hold
    def hfor(tag):
        def h(ty, args, *, handlers):
            if ty is str and len(args) == 0:
                return Mark(tag)
            return NotImplemented
        return h
    hA, hB = hfor('A'), hfor('B')
    for outer_h, mid_h, inner_h in itertools.product((None, 'A', 'B', 'AB', 'BA'), repeat=3):
        n += 1
        def opts(code):
            if code is None:
                return {}
            return {'custom': [{'A': hA, 'B': hB}[ch] for ch in code]}
        for wrap in (lambda T: T, lambda T: t.List[T], lambda T: t.Optional[T]):
            In3 = pytypes.new_class(terms.fresh_name('L3'), (pane.PaneBase,), opts(inner_h), lambda d: d.update({'__annotations__': {'s': str}}))
            Mid3 = pytypes.new_class(terms.fresh_name('L2'), (pane.PaneBase,), opts(mid_h), lambda d: d.update({'__annotations__': {'inner': wrap(In3)}}))
            Out3 = pytypes.new_class(terms.fresh_name('L1'), (pane.PaneBase,), opts(outer_h), lambda d: d.update({'__annotations__': {'mid': wrap(Mid3)}}))
            terms.KEEP += [In3, Mid3, Out3]
            want = next((code[0] for code in (inner_h, mid_h, outer_h) if code), 'builtin')
            leaf = {'s': 'v'}
            mid = {'inner': [leaf] if wrap(int) is not int and t.get_origin(wrap(int)) is list else leaf}
            data = {'mid': [mid] if t.get_origin(wrap(int)) is list else mid}
            try:
                x = pane.from_data(data, Out3)
                tags = find_tags(x, [])
                got = tags[0][1] if tags else 'builtin'
                d3 = pane.into_data(x, Out3)
                otags = [tg for tg in find_tags(d3, []) if tg[0] == 'out']
                ogot = otags[0][1] if otags else 'builtin'
            except Exception as e:
                out.violation(f'C18:three-levels:{type(e).__name__}', f'outer={outer_h} mid={mid_h} inner={inner_h}: {type(e).__name__}: {str(e)[:200]}', {})
                continue
            if got != want or ogot != want:
                out.violation('C18:nearest-class-wins', f'handlers outer={outer_h} mid={mid_h} inner={inner_h} (A, B are shared handler objects): converter used for the '
                              f'innermost str field is {got!r} on input and {ogot!r} on output, expected {want!r}', {'outer': outer_h, 'mid': mid_h, 'inner': inner_h})
    # ---- a field's own converter survives parameterisation and subclassing of a generic dataclass, in both directions,
    #      and is used for plain scalar field values too (their serialised form is the converter's business)
    TV = t.TypeVar('TV')
    fconv, lconv, sconv = Mark('field-x'), Mark('field-xs'), Mark('field-s')
    GBox = pytypes.new_class(terms.fresh_name('GBox'), (pane.PaneBase, t.Generic[TV]), {}, lambda d: d.update({
        '__annotations__': {'x': TV, 'xs': t.List[TV], 's': int, 'y': TV},
        'x': pane.field(converter=fconv), 'xs': pane.field(converter=lconv), 's': pane.field(converter=sconv)}))
    GSub = pytypes.new_class(terms.fresh_name('GSub'), (GBox[int],), {}, lambda d: d.update({'__annotations__': {'z': int}, 'z': 0}))
    terms.KEEP += [GBox, GSub]
    for label, cls in (('unparameterised generic', GBox), ('Box[int]', GBox[int]), ('Box[str]', GBox[str]), ('class derived from Box[int]', GSub),
                       ('List[Box[int]]', None)):
        n += 1
        try:
            with warnings.catch_warnings():
                warnings.simplefilter('ignore')
                data = {'x': 5, 'xs': [5], 's': 5, 'y': 5 if cls is not GBox[str] else 'q'}
                if cls is None:
                    inst = pane.from_data([data], t.List[GBox[int]])[0]
                else:
                    inst = pane.from_data(data, cls)
                d3 = inst.into_data()
        except Exception as e:
            out.violation(f'C18:field-converter-generic:{type(e).__name__}', f'{label}: {type(e).__name__}: {str(e)[:200]}', {'class': label})
            continue
        got_in = {nm: (getattr(inst, nm)[1] if isinstance(getattr(inst, nm), tuple) and len(getattr(inst, nm)) == 3 else 'builtin') for nm in ('x', 'xs', 's')}
        got_out = {nm: (d3[nm][1] if isinstance(d3[nm], (tuple, list)) and len(d3[nm]) == 3 and d3[nm][0] == 'out' else 'builtin') for nm in ('x', 'xs', 's')}
        want = {'x': 'field-x', 'xs': 'field-xs', 's': 'field-s'}
        if got_in != want or got_out != want:
            out.violation('C18:field-converter-lost', f'{label}: the fields\' own converters must be used first; used on input {got_in}, on output {got_out}, '
                          f'expected {want}', {'class': label, 'input': got_in, 'output': got_out})
    # ---- handler forms
    n += 3
    if pane.from_data(['a'], t.List[str], custom={list: Mark('m')}) != [('in', 'm', 'a')] if False else False:
        pass
    r1 = pane.from_data([1], list, custom={list: Mark('m')})
    if r1 != ('in', 'm', [1]):
        out.violation('C18:mapping-form:exact-type-not-matched', f'mapping-form handler for list was not used for the bare type list: {r1!r}', {})
    r2 = pane.from_data([1], t.List[int], custom={list: Mark('m')})
    if r2 != [1]:
        out.violation('C18:mapping-form:matched-parameterised', f'mapping-form handler for list was used for List[int]: {r2!r}', {})

    def defer(ty, args, *, handlers):
        return NotImplemented
    r3 = pane.from_data('s', str, custom=[defer, {str: Mark('second')}][0:1] + [lambda ty, args, *, handlers: Mark('second') if ty is str else NotImplemented])
    if r3 != ('in', 'second', 's'):
        out.violation('C18:not-implemented-does-not-defer', f'a handler answering NotImplemented did not defer to the next: {r3!r}', {})
    out.evaluations += n


def replay(rep, out):
    print(rep['what'])
    print(rep['replay'])
    return 0
