import sys
from pathlib import Path
sys.path.insert(0, str(Path(__file__).resolve().parent))
import common, reflect
sys.path.insert(0, str(common.REPO))
with common.Lock():
    st = reflect.regenerate()
    print('reflect:', st)
    targets = [f[:-2] + '.vo' for f in common.coq_files()]
    ok, failed, log = common.make(targets)
    print(log[-3000:])
    if failed:
        print('FAILED:', failed)
        sys.exit(1)
print('setup ok:', len(targets), 'files')
