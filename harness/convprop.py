"""Common runner for the properties decided on the conversion model (C01-C07, C09, C11-C13 ...):
generate cases, observe pane, run the property's monitor, run the correspondence inside coqc, decide."""
from __future__ import annotations

import json
import random
import warnings
from pathlib import Path

import convcases
import gen
import terms
from common import VERIF

SIZES = {  # (number of types, values per type, depth)
    'quick': (350, 4, 3),
    'thorough': (6000, 5, 4),
}
MODEL_FILES = ['Model/Conv.v', 'Model/Values.v', 'Model/Types.v', 'Model/Expected.v', 'Run/AgreeConv.v', 'Model/Vocab.v',
               'Base/Outcome.v', 'Base/PyNum.v']
MODEL_TABLES = ['GenScalars', 'GenGates', 'GenExcept', 'GenConds']
CONV_TARGETS = ['Run/AgreeConv.vo']


def corpus_cases(prop):
    """hand-written / minimised cases: /verif/corpus/<prop>/*.py each defining CASES = [(type_term, value)]"""
    out = []
    d = VERIF / 'corpus' / prop
    if not d.exists():
        return out
    for f in sorted(d.glob('*.py')):
        ns = {}
        exec(compile(f.read_text(), str(f), 'exec'), ns)
        for term, value in ns.get('CASES', []):
            out.append((term, value, f.name))
    return out


def shrink_case(case, still_fails, budget=60):
    """greedy shrinking of the value (the type is kept): drop elements / replace subtrees by leaves"""
    best = case.value

    def candidates(v):
        if isinstance(v, (list, tuple)):
            for i in range(len(v)):
                yield type(v)(list(v[:i]) + list(v[i + 1:]))
            for i, x in enumerate(v):
                for c in candidates(x):
                    seq = list(v)
                    seq[i] = c
                    yield type(v)(seq)
        elif isinstance(v, dict):
            for k in list(v):
                d = dict(v)
                del d[k]
                yield d
            for k, x in v.items():
                for c in candidates(x):
                    d = dict(v)
                    d[k] = c
                    yield d
        elif isinstance(v, int) and not isinstance(v, bool) and abs(v) > 1:
            yield 0
            yield 1
        elif isinstance(v, str) and len(v) > 1:
            yield v[:1]
    improved = True
    while improved and budget > 0:
        improved = False
        for c in candidates(best):
            budget -= 1
            if budget <= 0:
                break
            try:
                if still_fails(c):
                    best = c
                    improved = True
                    break
            except Exception:
                pass
    return best


def cases_from_pairs(pairs, rng, src):
    out = []
    for term, value in pairs:
        try:
            with warnings.catch_warnings():
                warnings.simplefilter('ignore')
                terms.clear_typing_caches()
                b = terms.build(term, rng)
                terms.verify(term, b.py)
            out.append(convcases.Case(term, b, value, src))
        except terms.Unsupported:
            pass
    return out


def cold_observe(c):
    """the same conversion with an empty converter cache (the history is put back afterwards)"""
    from pane.convert import make_converter
    cache = getattr(make_converter, 'cache', None)
    if not isinstance(cache, dict):
        return None
    saved = dict(cache)
    cache.clear()
    try:
        c2 = convcases.Case(c.term, c.built, c.value, 'cold')
        convcases.observe(c2)
    finally:
        cache.clear()
        cache.update(saved)
    return c2


def run(ctx, out, prop, monitor, cfg=None, corr_label='corr_convert', extra_cases=None, sizes=None, focus=None, twins=False):
    """monitor(case) -> list of (signature, what, replay_extra) for property failures on pane itself."""
    rng = random.Random(ctx['seed'])
    n_types, per_type, depth = (sizes or SIZES)[ctx['tier']]
    cases = []
    for term, value, src in corpus_cases(prop):
        try:
            with warnings.catch_warnings():
                warnings.simplefilter('ignore')
                terms.clear_typing_caches()
                b = terms.build(term, rng)
                terms.verify(term, b.py)
            cases.append(convcases.Case(term, b, value, 'corpus:' + src))
        except terms.Unsupported:
            pass
    if extra_cases:
        cases += extra_cases(rng)
    if twins:
        # every twin under the typing spelling, the builtin / PEP 604 spelling (fresh, ==-equal alias objects) and a random one
        pairs = gen.twin_union_cases(rng)
        # (typing.List[...] and friends are interned by typing itself *by equality*, so two orders of one union under the typing
        # spelling are one object: only the builtin spelling gives two distinct equal objects)
        for mode in ('builtin', None):
            terms.FORCE_SPELL = mode
            try:
                cases += cases_from_pairs(pairs, rng, 'twin')
            finally:
                terms.FORCE_SPELL = None
    cases += convcases.make_cases(rng, n_types, per_type, depth, cfg)
    failing = []
    for c in cases:
        convcases.observe(c)
        nontrivial = c.term[0] not in ('scalar', 'any', 'none') and c.try_obs[0] in ('ok', 'reject', 'escape')
        try:
            key = (terms.val_to_coq(c.value), c.built.coq)
        except Exception:
            key = (repr(c.value), c.built.coq)
        out.case(hash(key), nontrivial)
        if c.stream == 'twin' and c.fd_obs is not None:
            c2 = cold_observe(c)
            if c2 is not None and (convcases.obs_repr(c2.fd_obs), convcases.obs_repr(c2.try_obs)) != (convcases.obs_repr(c.fd_obs), convcases.obs_repr(c.try_obs)):
                out.violation(f'{prop}:depends-on-call-history', f'from_data({c.value!r}, {c.built.py!r}) gives {convcases.obs_repr(c.fd_obs)} after the earlier '
                              f'conversions of this run and {convcases.obs_repr(c2.fd_obs)} with an empty converter cache: an equal-but-reordered type seen '
                              'earlier decides the result', dict(c.describe(), cold=convcases.obs_repr(c2.fd_obs)))
        for sig, what, extra in monitor(c) or []:
            failing.append(c)
            rep = c.describe()
            rep.update(extra or {})
            out.violation(sig, what, rep)
    for c in cases[:3] + cases[len(cases) // 2: len(cases) // 2 + 2]:
        out.sample(c.describe())
    out.extra['distribution'] = convcases.histograms(cases)
    out.extra['depth'] = depth

    # ---- Tie 2
    model_broken = [f for f in MODEL_FILES if f in ctx['failed_files']] + [t for t in MODEL_TABLES if t in ctx['broken_tables']]
    if model_broken:
        out.oblige(corr_label, False, 'model does not build: ' + ', '.join(model_broken))
        return cases
    nr, bad, errs = convcases.correspond(prop, cases, out)
    out.extra['correspondence_cases'] = nr
    out.oblige(f'{corr_label}: model tc/ce = pane try_convert/collect_errors on every generated (type, value)',
               not bad and not errs, f'{len(bad)} mismatches over {nr} cases, {len(errs)} shard errors')
    for e in errs[:2]:
        out.violation(f'{prop}:corr:shard-error', 'correspondence shard failed: ' + e[:600],
                      {'correspondence': corr_label, 'error': e[:2000]}, no_input=True)
    if bad and not out.has_unlisted_input():
        c = bad[0]
        rep = c.describe()
        rep['correspondence'] = corr_label
        rep['n_mismatch'] = len(bad)
        try:
            rep['model'] = convcases.model_says(prop, c)
        except Exception as e:
            rep['model'] = f'(could not evaluate: {e})'
        out.violation(f'{prop}:{corr_label}', f'model and pane disagree on {len(bad)} case(s), e.g. type {rep["type"]} value {rep["value"]}; '
                      'no property failure found on pane for them', rep, no_input=True)
    return cases
