"""Generated (type, value) cases: run on pane, canonicalised, compared with the model inside coqc."""
from __future__ import annotations

import collections
import json
import random
import warnings

import gen
import terms
from terms import Unsupported, build, val_to_coq, tree_to_coq, exn_to_coq
from common import run_shards, coq_eval

HEADER = ('From Coq Require Import ZArith List String.\nImport ListNotations.\n'
          'Require Import Base.PyNum Base.Outcome Model.Values Model.Vocab Model.Types Model.Conv Run.AgreeConv.\n'
          'Open Scope string_scope.\nOpen Scope Z_scope.\n')


class Case:
    __slots__ = ('term', 'built', 'value', 'stream', 'try_obs', 'col_obs', 'fd_obs', 'coq', 'extra')

    def __init__(self, term, built, value, stream):
        self.term, self.built, self.value, self.stream = term, built, value, stream
        self.try_obs = self.col_obs = self.fd_obs = None
        self.coq = None
        self.extra = {}

    def describe(self):
        return {'type': describe_type(self.built.py), 'type_term': strip_term(self.term), 'value': repr(self.value),
                'stream': self.stream, 'try': obs_repr(self.try_obs), 'collect': obs_repr(self.col_obs)}


def obs_repr(o):
    if o is None:
        return None
    if o[0] in ('ok', 'tree'):
        return [o[0], repr(o[1])[:400]]
    if o[0] == 'escape':
        return ['escape', f'{type(o[1]).__name__}: {o[1]}'[:300]]
    return [o[0]]


def describe_type(py):
    try:
        return repr(py)[:300]
    except Exception:
        return '<type>'


def strip_term(term):
    """JSON-able copy of a type term (class specs without live objects)"""
    if isinstance(term, tuple):
        return [strip_term(x) for x in term]
    if isinstance(term, list):
        return [strip_term(x) for x in term]
    if isinstance(term, dict):
        return {str(k): strip_term(v) for k, v in term.items() if not str(k).startswith('_')}
    if isinstance(term, (bytes, bytearray)):
        return repr(term)
    if isinstance(term, float) or isinstance(term, complex):
        return repr(term)
    return term


def make_cases(rng, n_types, vals_per_type, depth, cfg=None):
    cases = []
    tries = 0
    while len(cases) < n_types * vals_per_type and tries < n_types * 4:
        tries += 1
        term = gen.g_type(rng, depth, cfg)
        try:
            with warnings.catch_warnings():
                warnings.simplefilter('ignore')
                terms.clear_typing_caches()
                b = build(term, rng)
                terms.verify(term, b.py)
        except Unsupported:
            continue
        for _ in range(vals_per_type):
            v, stream = gen.g_value_for(rng, term)
            cases.append(Case(term, b, v, stream))
    return cases


def observe(case, custom=None):
    from pane.convert import make_converter, from_data
    from pane.errors import ParseInterrupt, ConvertError
    with warnings.catch_warnings():
        warnings.simplefilter('ignore')
        try:
            conv = make_converter(case.built.py)
        except Exception as e:
            case.try_obs = case.col_obs = ('build-error', e)
            return
        try:
            case.try_obs = ('ok', conv.try_convert(case.value))
        except ParseInterrupt:
            case.try_obs = ('reject',)
        except Exception as e:
            case.try_obs = ('escape', e)
        try:
            n = conv.collect_errors(case.value)
            case.col_obs = ('none',) if n is None else ('tree', n)
        except Exception as e:
            case.col_obs = ('escape', e)
        try:
            case.fd_obs = ('ok', from_data(case.value, case.built.py))
        except ConvertError as e:
            case.fd_obs = ('error', e)
        except Exception as e:
            case.fd_obs = ('escape', e)


def _has_nan(v):
    import math
    if isinstance(v, float):
        return math.isnan(v)
    if isinstance(v, complex):
        return math.isnan(v.real) or math.isnan(v.imag)
    if isinstance(v, (list, tuple, set, frozenset)):
        return any(_has_nan(x) for x in v)
    if isinstance(v, dict):
        return any(_has_nan(k) or _has_nan(x) for k, x in v.items())
    info = getattr(type(v), '__pane_info__', None)
    if info is not None:
        return any(_has_nan(getattr(v, f.name, None)) for f in info.fields)
    return False


def nan_in_hashed(v):
    """a NaN inside a set element or a mapping key (where Python compares by identity first)"""
    if isinstance(v, (set, frozenset)):
        return any(_has_nan(x) for x in v)
    if isinstance(v, dict):
        return any(_has_nan(k) for k in v) or any(nan_in_hashed(x) for x in v.values())
    if isinstance(v, (list, tuple)):
        return any(nan_in_hashed(x) for x in v)
    info = getattr(type(v), '__pane_info__', None)
    if info is not None:
        return any(nan_in_hashed(getattr(v, f.name, None)) for f in info.fields)
    return False


def render(case):
    """Coq tuple (ty, value, observed try, observed collect) or None when outside the term language"""
    if not case.built.coq or 'None' == case.built.coq or '%NOCOQ%' in case.built.coq:
        return None
    try:
        v = val_to_coq(case.value)
        o = case.try_obs
        if o[0] == 'ok':
            if nan_in_hashed(o[1]):
                return None     # Python's sets and dicts find a NaN by object identity; identity is not in the model
            ot = f'(Ok {val_to_coq(o[1])})'
        elif o[0] == 'reject':
            ot = 'Reject'
        elif o[0] == 'escape':
            ot = f'(Escape {exn_to_coq(o[1])})'
        else:
            return None
        o = case.col_obs
        if o[0] == 'none':
            oc = 'CNone'
        elif o[0] == 'tree':
            oc = f'(CTree {tree_to_coq(o[1])})'
        else:
            oc = f'(CEscape {exn_to_coq(o[1])})'
        return f'({case.built.coq}, {v}, {ot}, {oc})'
    except Unsupported:
        return None
    except RecursionError:
        return None


def correspond(prop, cases, out, name='conv', per=250):
    """Run the model on every renderable case inside coqc; returns (n_rendered, mismatching cases, errors)."""
    rendered = []
    for c in cases:
        if c.coq is None:
            c.coq = render(c) or ''
        if c.coq:
            rendered.append(c)
    bad, errs = run_shards(prop, name, HEADER, rendered, lambda c: c.coq, per=per,
                           final='conv_mismatches', ty='list conv_case')
    return len(rendered), [rendered[i] for i in bad], errs


def model_says(prop, case):
    rc, o = coq_eval(prop, 'diag', HEADER + f'Eval vm_compute in (conv_case_model {case.coq}).\n')
    return o[-1500:]


def histograms(cases):
    h = collections.Counter()
    for c in cases:
        h['stream:' + c.stream] += 1
        h['head:' + terms.term_head(c.term)] += 1
        if c.try_obs:
            h['try:' + c.try_obs[0]] += 1
        if c.col_obs and c.col_obs[0] == 'tree':
            h['node:' + type(c.col_obs[1]).__name__] += 1
    return dict(sorted(h.items()))


# ---------------------------------------------------------------- serialiser cases

HEADER_INTO = HEADER.replace('Run.AgreeConv.', 'Run.AgreeConv Model.Into Run.AgreeInto.')


def observe_into(case, x):
    """Converter.into_data of the case's type on a typed value x"""
    from pane.convert import make_converter
    from pane.errors import ParseInterrupt
    with warnings.catch_warnings():
        warnings.simplefilter('ignore')
        conv = make_converter(case.built.py)
        try:
            return ('ok', conv.into_data(x))
        except ParseInterrupt:
            return ('reject',)
        except Exception as e:
            return ('escape', e)


def render_into(case, x, obs):
    if not case.built.coq or '%NOCOQ%' in case.built.coq:
        return None
    try:
        if obs[0] == 'ok':
            o = f'(Ok {val_to_coq(obs[1])})'
        elif obs[0] == 'reject':
            o = 'Reject'
        else:
            o = f'(Escape {exn_to_coq(obs[1])})'
        return f'({case.built.coq}, {val_to_coq(x)}, {o})'
    except (Unsupported, RecursionError):
        return None


def correspond_into(prop, items, per=250):
    """items: list of (case, x, obs, coq_text)"""
    rendered = [it for it in items if it[3]]
    bad, errs = run_shards(prop, 'into', HEADER_INTO, rendered, lambda it: it[3], per=per,
                           final='into_mismatches', ty='list into_case')
    return len(rendered), [rendered[i] for i in bad], errs
