"""The case language of the correspondence check: type terms -> live typing objects and Coq
[ty] terms; Python values / error trees / outcomes -> Coq terms."""
from __future__ import annotations

import collections
import collections.abc
import enum
import itertools
import math
import random
import re
import types as pytypes
import typing as t

from common import coq_str

KEEP = []          # every type object ever built stays alive (the converter cache is keyed on id())
_counter = itertools.count()


class Unsupported(Exception):
    """the value / type cannot be expressed in the model's term language"""


# ---------------------------------------------------------------- values -> Coq

def _ascii(s):
    return all(32 <= ord(c) < 127 for c in s)


def coq_float(f: float) -> str:
    if math.isnan(f):
        return 'FNan'
    if math.isinf(f):
        return f'(FInf {"true" if f < 0 else "false"})'
    num, den = f.as_integer_ratio()
    e = -(den.bit_length() - 1)
    if num == 0:
        return '(FFin 0 0)'
    while num % 2 == 0:
        num //= 2
        e += 1
    return f'(FFin ({num}) ({e}))'


def coq_z(z: int) -> str:
    return f'({z})'


def coq_list(items) -> str:
    return '[' + '; '.join(items) + ']'


def val_to_coq(v, with_set=True) -> str:
    import pane
    if not with_set:
        return _val_noset(v)
    if v is None:
        return 'VNone'
    if isinstance(v, bool):
        return f'(VBool {"true" if v else "false"})'
    if type(v) is int:
        return f'(VInt {coq_z(v)})'
    if type(v) is float:
        return f'(VFloat {coq_float(v)})'
    if type(v) is complex:
        return f'(VComplex {coq_float(v.real)} {coq_float(v.imag)})'
    if type(v) is str:
        if not _ascii(v):
            raise Unsupported('non-ascii str')
        return f'(VStr {coq_str(v)})'
    if type(v) in (bytes, bytearray):
        s = bytes(v).decode('latin-1')
        if not _ascii(s):
            raise Unsupported('non-ascii bytes')
        return f'({"VBytes" if type(v) is bytes else "VByteArray"} {coq_str(s)})'
    if type(v) is list:
        return f'(VList {coq_list(val_to_coq(x) for x in v)})'
    if type(v) is tuple:
        return f'(VTuple {coq_list(val_to_coq(x) for x in v)})'
    if type(v) is dict:
        return '(VDict ' + coq_list(f'({val_to_coq(k)}, {val_to_coq(x)})' for k, x in v.items()) + ')'
    if type(v) in (set, frozenset):
        items = sorted((val_to_coq(x) for x in v))
        return f'({"VSet" if type(v) is set else "VFrozenSet"} {coq_list(items)})'
    if isinstance(v, enum.Enum):
        return f'(VEnum {coq_str(type(v).__name__)} {coq_str(v.name)} {val_to_coq(v.value)})'
    if isinstance(v, pane.PaneBase):
        info = type(v).__pane_info__
        fields = []
        for f in info.fields:
            try:
                fields.append(f'({coq_str(f.name)}, {val_to_coq(getattr(v, f.name))})')
            except AttributeError:
                pass
        setf = sorted(getattr(v, '__pane_set__', ()))
        return f'(VInst {coq_str(type(v).__name__)} {coq_list(fields)} {coq_list(coq_str(s) for s in setf)})'
    return f'(VOpaque {coq_str(type(v).__name__)})'


def _val_noset(v):
    """canonical text of a value ignoring the set-field record of instances (Python == ignores it too)"""
    import pane
    if isinstance(v, pane.PaneBase):
        fields = []
        for f in type(v).__pane_info__.fields:
            try:
                fields.append(f'({f.name}={_val_noset(getattr(v, f.name))})')
            except AttributeError:
                pass
        return f'(Inst {type(v).__name__} {" ".join(fields)})'
    if type(v) in (list, tuple):
        return f'({type(v).__name__} ' + ' '.join(_val_noset(x) for x in v) + ')'
    if type(v) is dict:
        return '(dict ' + ' '.join(sorted(f'{_val_noset(k)}:{_val_noset(x)}' for k, x in v.items())) + ')'   # == ignores order
    if type(v) in (set, frozenset):
        return f'({type(v).__name__} ' + ' '.join(sorted(_val_noset(x) for x in v)) + ')'
    try:
        return val_to_coq(v)
    except Unsupported:
        return f'{type(v).__name__}:{v!r}'


EXN = {'TypeError': 'ETypeError', 'ValueError': 'EValueError', 'KeyError': 'EKeyError', 'OverflowError': 'EOverflowError',
       'AttributeError': 'EAttributeError', 'error': 'EReError', 'RuntimeError': 'ERuntimeBug', 'AssertionError': 'EAssertion'}


def exn_to_coq(e: BaseException) -> str:
    return EXN.get(type(e).__name__, 'EOther')


def opt_str(s):
    return 'None' if s is None else f'(Some {coq_str(s)})'


def tree_to_coq(n) -> str:
    from pane import errors as E
    if n is None:
        return 'ENoChild'
    if isinstance(n, E.WrongTypeError):
        return (f'(EWrongType {coq_str(n.expected)} {val_to_coq(n.actual)} '
                f'{"true" if n.cause is not None else "false"} {opt_str(n.info)})')
    if isinstance(n, E.WrongLenError):
        return f'(EWrongLen {coq_str(n.expected)} {n.expected_len[0]} {n.expected_len[1]} {val_to_coq(n.actual)} {n.actual_len})'
    if isinstance(n, E.ConditionFailedError):
        return (f'(ECondFailed {coq_str(n.expected)} {val_to_coq(n.actual)} {coq_str(n.condition)} '
                f'{"true" if n.cause is not None else "false"})')
    if isinstance(n, E.DuplicateKeyError):
        return f'(EDupKey {val_to_coq(n.key)} {coq_list(coq_str(a) for a in n.aliases)})'
    if isinstance(n, E.ProductErrorNode):
        ch = []
        for k, c in n.children.items():
            key = f'(KIdx {k})' if type(k) is int else f'(KVal {val_to_coq(k)})'
            ch.append(f'({key}, {tree_to_coq(c)})')
        for m in n.missing:
            if not isinstance(m, str):
                raise Unsupported('non-str missing')
        if len({str(x) for x in n.extra}) != len(n.extra):
            raise Unsupported('unexpected keys with the same text')
        # (the model sorts them itself: Model/RenderSort.v)
        missing = [coq_str(m) for m in n.missing]
        extra = [val_to_coq(x) for x in n.extra]
        return (f'(EProduct {coq_str(n.expected)} {coq_list(ch)} {val_to_coq(n.actual)} '
                f'{coq_list(missing)} {coq_list(extra)})')
    if isinstance(n, E.SumErrorNode):
        return f'(ESum {coq_list(tree_to_coq(c) for c in n.children)})'
    raise Unsupported(f'unknown node {type(n).__name__}')


# ---------------------------------------------------------------- types

SCALARS = {'bool': (bool, 'SBool'), 'int': (int, 'SInt'), 'float': (float, 'SFloat'), 'complex': (complex, 'SComplex'),
           'str': (str, 'SStr'), 'bytes': (bytes, 'SBytes'), 'bytearray': (bytearray, 'SByteArray')}
SEQ_SPELL = {
    'list': [lambda e: t.List[e], lambda e: list[e], lambda e: t.MutableSequence[e], lambda e: collections.abc.MutableSequence[e]],
    'tuple': [lambda e: t.Tuple[e, ...], lambda e: tuple[e, ...], lambda e: t.Sequence[e], lambda e: collections.abc.Sequence[e]],
    'set': [lambda e: t.Set[e], lambda e: set[e], lambda e: collections.abc.MutableSet[e]],
    'frozenset': [lambda e: t.FrozenSet[e], lambda e: frozenset[e], lambda e: t.AbstractSet[e], lambda e: collections.abc.Set[e]],
}
SEQ_COQ = {'list': 'SeqList', 'tuple': 'SeqTuple', 'set': 'SeqSet', 'frozenset': 'SeqFrozenSet'}
DICT_SPELL = [lambda k, v: t.Dict[k, v], lambda k, v: dict[k, v], lambda k, v: t.Mapping[k, v],
              lambda k, v: collections.abc.Mapping[k, v], lambda k, v: t.MutableMapping[k, v]]
ADJ = {'positive': 'APositive', 'negative': 'ANegative', 'nonpositive': 'ANonPositive', 'nonnegative': 'ANonNegative',
       'finite': 'AFinite', 'empty': 'AEmpty', 'nonempty': 'ANonEmpty'}


def _raiser(v):
    raise ValueError('predicate failed to evaluate')


class _Untestable:
    """what a predicate may return instead of a bool (as numpy arrays do): asking for its truth value raises"""
    def __bool__(self):
        raise ValueError('predicate failed to evaluate: the truth value of the result is ambiguous')


def _untestable(v):
    return _Untestable()


def cond_to_py(c):
    from pane import annotations as A
    k = c[0]
    if k == 'adj':
        return {'positive': A.Positive, 'negative': A.Negative, 'nonpositive': A.NonPositive,
                'nonnegative': A.NonNegative, 'finite': A.Finite, 'empty': A.Empty, 'nonempty': A.NonEmpty}[c[1]]
    if k == 'valrange':
        return A.val_range(min=c[1], max=c[2])
    if k == 'lenrange':
        return A.len_range(min=c[1], max=c[2])
    if k == 'all':
        return A.Condition.all(*[cond_to_py(x) for x in c[1]])
    if k == 'any':
        return A.Condition.any(*[cond_to_py(x) for x in c[1]])
    if k == 'not':
        return ~cond_to_py(c[1])
    if k == 'raise':
        # two ways for a predicate to fail to evaluate: it raises, or its result cannot be tested for truth
        return A.Condition(_untestable if c[1].startswith('truth') else _raiser, c[1])
    if k == 'const':
        b = c[2]
        return A.Condition((lambda v: True) if b else (lambda v: False), c[1])
    raise Unsupported(k)


def coq_opt(x, f=str):
    return 'None' if x is None else f'(Some {f(x)})'


def cond_to_coq(c):
    k = c[0]
    if k == 'adj':
        return f'(CAdj {ADJ[c[1]]})'
    if k == 'valrange':
        return f'(CValRange {coq_opt(c[1], coq_z)} {coq_opt(c[2], coq_z)})'
    if k == 'lenrange':
        return f'(CLenRange {coq_opt(c[1], lambda n: f"{n}%nat")} {coq_opt(c[2], lambda n: f"{n}%nat")})'
    if k in ('all', 'any'):
        return f'({"CAll" if k == "all" else "CAny"} {coq_list(cond_to_coq(x) for x in c[1])})'
    if k == 'not':
        return f'(CNot {cond_to_coq(c[1])})'
    if k == 'raise':
        return f'(CRaise {coq_str(c[1])})'
    if k == 'const':
        return f'(CConst {coq_str(c[1])} {"true" if c[2] else "false"})'
    raise Unsupported(k)


class Built:
    """a type term built into a live typing object + the Coq term"""
    __slots__ = ('term', 'py', 'coq')

    def __init__(self, term, py, coq):
        self.term, self.py, self.coq = term, py, coq


def make_class(spec):
    """spec: dict(name, fields=[dict(name, ty(term), default=None|('value',v)|('factory',v), kw_only, init, exclude,
    aliases, in_names, rename, out_name)], opts=dict(in_format, out_format, allow_extra, rename, ...), hook)"""
    import pane
    if '_cls' in spec:
        return spec['_cls']
    ann, ns = {}, {}
    built_fields = []
    for f in spec['fields']:
        if f.get('kw_marker'):
            ann['_kw' + str(next(_counter))] = pane.KW_ONLY
            continue
        b = build(f['ty'], spec.get('_rng'))
        built_fields.append(b)
        ann[f['name']] = b.py
        kw = {}
        d = f.get('default')
        if d is not None:
            # defaults are stored verbatim by pane (like the standard library): give a *typed* value
            if f.get('raw_default'):
                typed = d[1]
            else:
                try:
                    import warnings as _w
                    with _w.catch_warnings():
                        _w.simplefilter('ignore')
                        typed = pane.from_data(d[1], b.py)
                except Exception:
                    raise Unsupported('default value is not a member of the field type')
            if d[0] == 'value':
                try:
                    hash(typed)
                    kw['default'] = typed
                except TypeError:
                    kw['default_factory'] = (lambda proto=typed: _fresh_copy(proto))
            else:
                kw['default_factory'] = (lambda proto=typed: _fresh_copy(proto))
        for key in ('aliases', 'in_names', 'rename', 'out_name', 'init', 'exclude', 'kw_only', 'compare', 'hash', 'repr'):
            if key in f and f[key] is not None:
                kw[key] = f[key]
        plain_default = set(kw) <= {'default'}
        if plain_default and 'default' in kw and not f.get('force_field'):
            ns[f['name']] = kw['default']
        elif kw:
            ns[f['name']] = pane.field(**kw)
    hook = spec.get('hook')
    if hook is not None:
        if hook[0] == 'raise_always':
            def __post_init__(self):
                raise ValueError('post_init always fails')
        elif hook[0] == 'raise_if_lt':
            fname, z = hook[1], hook[2]

            def __post_init__(self):
                x = getattr(self, fname, None)
                if type(x) is int and x < z:
                    raise ValueError(f'{fname} too small')
        ns['__post_init__'] = __post_init__
    ns['__annotations__'] = ann
    ns['__module__'] = __name__
    bases = tuple(spec.get('bases') or (pane.PaneBase,))
    cls = pytypes.new_class(spec['name'], bases, dict(spec.get('opts') or {}), lambda n: n.update(ns))
    KEEP.append(cls)
    spec['_cls'] = cls
    return cls


def _fresh_copy(proto):
    import copy
    return copy.deepcopy(proto)


def class_to_coq(cls, spec=None):
    """Coq (class_hdr, fields) from the processed class (pane's own field derivation is read back, not re-derived)"""
    from pane.field import _MISSING
    info = cls.__pane_info__
    opts = info.opts
    fl = []
    for f, conv_ty in zip(info.fields, _field_type_terms(cls, spec)):
        if f.default is not _MISSING:
            d = f'(DValue {val_to_coq(f.default)})'
        elif f.default_factory is not None:
            d = f'(DFactory {val_to_coq(f.default_factory())})'
        else:
            d = 'DNone'
        for n in (f.name, f.out_name, *f.in_names):
            if not isinstance(n, str) or not _ascii(n):
                raise Unsupported('field name')
        if f.converter is not None:
            raise Unsupported('field converter')
        rec = (f'(mkFld {coq_str(f.name)} {coq_list(coq_str(n) for n in f.in_names)} {coq_str(f.out_name)} '
               f'{_b(f.init)} {_b(f.exclude)} {_b(f.kw_only)} {d})')
        fl.append(f'({rec}, {conv_ty})')
    hook = (spec or {}).get('hook')
    if hook is None:
        if hasattr(cls, '__post_init__'):
            raise Unsupported('unknown hook')
        h = 'HNone'
    elif hook[0] == 'raise_always':
        h = 'HRaiseAlways'
    else:
        h = f'(HRaiseIfIntLt {coq_str(hook[1])} {coq_z(hook[2])})'
    fmts = coq_list({'struct': 'FStruct', 'tuple': 'FTuple'}[x] for x in opts.in_format)
    hdr = f'(mkCls {coq_str(cls.__name__)} {fmts} {_b(opts.out_format == "tuple")} {_b(opts.allow_extra)} {h})'
    return hdr, coq_list(fl)


def _b(x):
    return 'true' if x else 'false'


def _field_type_terms(cls, spec):
    """Coq type terms of the fields in processed order, from the spec's type terms (by field name)"""
    by_name = {}
    s = spec
    chain = []
    while s is not None:
        chain.append(s)
        s = s.get('_parent_spec')
    for s in reversed(chain):
        for f in s['fields']:
            if not f.get('kw_marker'):
                by_name[f['name']] = f['ty']
    out = []
    for f in cls.__pane_info__.fields:
        if f.name not in by_name:
            raise Unsupported('field without a type term')
        out.append(build(by_name[f.name]).coq)
    return out


_build_cache = {}


class _ETuple(enum.Enum):
    """an enum whose member values are tuples: its value type is a sequence, converted values may be unhashable"""
    A = (1, 2)
    B = (3, 4)


FORCE_SPELL = None      # None (random spelling) | 'typing' (typing.List / typing.Union) | 'builtin' (list[...] / X | Y)


class _EComplex(enum.Enum):
    """member values of one type that cannot be ordered among themselves"""
    I = 1j
    MI = -1j


class _ELimit(enum.Enum):
    NONE = ('limit', None)
    ONE = ('limit', 1)


def build(term, rng=None) -> Built:
    """Build the live typing object and the Coq term of a type term."""
    rng = rng or random
    k = term[0]
    if k == 'any':
        return Built(term, t.Any, 'TAny')
    if k == 'none':
        return Built(term, type(None), 'TNone')
    if k == 'scalar':
        py, coq = SCALARS[term[1]]
        return Built(term, py, f'(TScalar {coq})')
    if k == 'std':
        import datetime, decimal, fractions, pathlib, os
        from pane.types import Range, ValueOrList
        py = {'enum_tuple': _ETuple, 'enum_complex': _EComplex, 'enum_limit': _ELimit, 'vol_int': ValueOrList[int], 'vol_tuple': ValueOrList[t.Tuple[int, int]], 'vol_list': ValueOrList[t.List[int]],
              'vol_range': ValueOrList[Range[int]], 'range_int': Range[int], 'decimal': decimal.Decimal, 'fraction': fractions.Fraction, 'datetime': datetime.datetime, 'date': datetime.date,
              'time': datetime.time, 'path': pathlib.PurePosixPath, 'pathlike': os.PathLike, 'pattern': re.Pattern,
              'pattern_str': t.Pattern[str], 'pattern_bytes': re.Pattern[bytes]}[term[1]]
        return Built(term, py, '%NOCOQ%')     # outside the Coq model: monitored on pane only
    if k == 'seq':
        e = build(term[2], rng)
        py = (SEQ_SPELL[term[1]][{'typing': 0, 'builtin': 1}[FORCE_SPELL]] if FORCE_SPELL else rng.choice(SEQ_SPELL[term[1]]))(e.py)
        KEEP.append(py)
        return Built(term, py, f'(TSeq {SEQ_COQ[term[1]]} {e.coq})')
    if k == 'tuple':
        es = [build(x, rng) for x in term[1]]
        form = term[2] if len(term) > 2 else 'typing'
        if form == 'literal':
            py = tuple(e.py for e in es)
        elif not es:
            py = rng.choice([t.Tuple[()], tuple[()]])
        else:
            sp = [lambda a: t.Tuple[a], lambda a: tuple[a]]
            py = (sp[{'typing': 0, 'builtin': 1}[FORCE_SPELL]] if FORCE_SPELL else rng.choice(sp))(tuple(e.py for e in es))
        KEEP.append(py)
        return Built(term, py, f'(TTuple {coq_list(e.coq for e in es)})')
    if k == 'dict':
        kk, vv = build(term[1], rng), build(term[2], rng)
        py = (DICT_SPELL[{'typing': 0, 'builtin': 1}[FORCE_SPELL]] if FORCE_SPELL else rng.choice(DICT_SPELL))(kk.py, vv.py)
        KEEP.append(py)
        return Built(term, py, f'(TDict {kk.coq} {vv.coq})')
    if k == 'struct':
        fs = [(n, build(x, rng)) for n, x in term[1]]
        py = {n: b.py for n, b in fs}
        KEEP.append(py)
        return Built(term, py, '(TStruct ' + coq_list(f'({coq_str(n)}, {b.coq})' for n, b in fs) + ')')
    if k == 'union':
        ms = [build(x, rng) for x in term[1]]
        pys = [type(None) if m.py is None else m.py for m in ms]
        if FORCE_SPELL is None and len(ms) == 2 and term[1][1] == ('none',) and rng.random() < 0.5:
            py = t.Optional[pys[0]]
        elif FORCE_SPELL == 'builtin' or (FORCE_SPELL is None and rng.random() < 0.3):
            try:
                py = pys[0]
                for p in pys[1:]:
                    py = py | p
            except TypeError:
                py = t.Union[tuple(pys)]
        else:
            py = t.Union[tuple(pys)]
        if t.get_origin(py) not in (t.Union, pytypes.UnionType) or len(t.get_args(py)) != len(ms):
            raise Unsupported('typing collapsed the union')
        KEEP.append(py)
        return Built(term, py, f'(TUnion {coq_list(m.coq for m in ms)})')
    if k == 'literal':
        py = t.Literal[tuple(term[1])]
        if len(t.get_args(py)) != len(term[1]):
            raise Unsupported('typing collapsed the literal')
        KEEP.append(py)
        return Built(term, py, f'(TLiteral {coq_list(val_to_coq(v) for v in term[1])})')
    if k == 'enum':
        key = ('enum', term[1])
        if key not in _build_cache:
            cls = enum.Enum(term[1], dict(term[2]))
            cls.__module__ = __name__
            KEEP.append(cls)
            _build_cache[key] = cls
        cls = _build_cache[key]
        ms = coq_list(f'({coq_str(n)}, {val_to_coq(v)})' for n, v in term[2])
        return Built(term, cls, f'(TEnum {coq_str(term[1])} {ms})')
    if k == 'class':
        spec = term[1]
        cls = make_class(spec)
        hdr, fl = class_to_coq(cls, spec)
        return Built(term, cls, f'(TClass {hdr} {fl})')
    if k == 'cond':
        inner = build(term[1], rng)
        c = term[2]
        if c[0] == 'all' and rng.random() < 0.5:
            py = t.Annotated[(inner.py, *[cond_to_py(x) for x in c[1]])]
        else:
            py = t.Annotated[inner.py, cond_to_py(c)]
        KEEP.append(py)
        return Built(term, py, f'(TCond {inner.coq} {cond_to_coq(c)})')
    if k == 'tagged':
        from pane.annotations import Tagged
        tag, lay, variants = term[1], term[2], term[3]
        bs = [(tv, build(vt, rng)) for tv, vt in variants]
        ext = False if lay == 'internal' else True if lay == 'external' else (lay[1], lay[2])
        py = t.Annotated[t.Union[tuple(b.py for _, b in bs)], Tagged(tag, external=ext)]
        KEEP.append(py)
        lc = 'LInternal' if lay == 'internal' else 'LExternal' if lay == 'external' else f'(LAdjacent {coq_str(lay[1])} {coq_str(lay[2])})'
        vs = coq_list(f'({val_to_coq(tv)}, {b.coq})' for tv, b in bs)
        return Built(term, py, f'(TTagged {coq_str(tag)} {lc} {vs})')
    raise Unsupported(f'type term {k}')


def verify(term, py):
    """typing caches alias objects by *equality* of their arguments, and Union / Literal equality ignores order:
    List[Union[str, int]] may come back as an earlier List[Union[int, str]].  Check that the object built has
    the member order of the term; raises Unsupported otherwise."""
    k = term[0]
    origin = t.get_origin(py)
    args = t.get_args(py)
    if k == 'union':
        if origin not in (t.Union, pytypes.UnionType) or len(args) != len(term[1]):
            raise Unsupported('union shape')
        for m, a in zip(term[1], args):
            verify(m, a)
    elif k == 'literal':
        if origin is not t.Literal or len(args) != len(term[1]) or any(type(a) is not type(b) or a != b for a, b in zip(args, term[1])):
            raise Unsupported('literal order')
    elif k == 'scalar':
        if py is not SCALARS[term[1]][0]:
            raise Unsupported('scalar')
    elif k == 'std':
        pass
    elif k == 'none':
        if py not in (None, type(None)):
            raise Unsupported('none')
    elif k == 'seq':
        if not args:
            raise Unsupported('seq args')
        verify(term[2], args[0])
    elif k == 'tuple':
        if isinstance(py, tuple):
            items = py
        else:
            items = () if args == ((),) else args
        if len(items) != len(term[1]):
            raise Unsupported('tuple len')
        for m, a in zip(term[1], items):
            verify(m, a)
    elif k == 'dict':
        if len(args) != 2:
            raise Unsupported('dict args')
        verify(term[1], args[0])
        verify(term[2], args[1])
    elif k == 'struct':
        for (n, m) in term[1]:
            verify(m, py[n])
    elif k == 'cond':
        if origin is not t.Annotated:
            raise Unsupported('annotated')
        verify(term[1], args[0])
    elif k == 'tagged':
        if origin is not t.Annotated:
            raise Unsupported('annotated')
        inner = t.get_args(args[0])
        if len(inner) != len(term[3]):
            raise Unsupported('tagged members')
        for (tv, vt), a in zip(term[3], inner):
            verify(vt, a)
    elif k == 'class':
        if py is not term[1].get('_cls'):
            raise Unsupported('class identity')
        ann = py.__dict__.get('__annotations__', {})
        for f in term[1]['fields']:
            if not f.get('kw_marker'):
                verify(f['ty'], ann[f['name']])


def clear_typing_caches():
    for f in getattr(t, '_cleanups', []):
        try:
            f()
        except Exception:
            pass


def fresh_name(prefix):
    return f'{prefix}{next(_counter)}'


def type_size(term):
    n = 1
    for x in term[1:]:
        if isinstance(x, tuple) and x and isinstance(x[0], str):
            n += type_size(x)
        elif isinstance(x, list):
            for y in x:
                if isinstance(y, tuple) and len(y) == 2 and isinstance(y[1], tuple) and y[1] and isinstance(y[1][0], str):
                    n += type_size(y[1])
                elif isinstance(y, tuple) and y and isinstance(y[0], str):
                    n += type_size(y)
        elif isinstance(x, dict):
            for f in x.get('fields', []):
                if 'ty' in f:
                    n += type_size(f['ty'])
    return n


def term_head(term):
    return term[0] if term[0] != 'scalar' else term[1]
