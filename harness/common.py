"""Shared machinery of the /verif checks: paths, Coq build, correspondence shards,
evidence, known findings, verdict."""
from __future__ import annotations

import fcntl
import hashlib
import json
import os
import re
import subprocess
import sys
import time
from pathlib import Path

VERIF = Path(__file__).resolve().parent.parent
COQ = VERIF / 'coq'
BUILD = VERIF / 'build'
REPO = Path(os.environ.get('VERIF_REPO', '/repo')).resolve()
NPROC = min(16, os.cpu_count() or 4)

KERNEL_TRUST = [
    "Coq 8.16.1 kernel incl. vm_compute (no native_compute); full .vo build, no -vos",
    "no Axiom/Parameter/Admitted in the development (grep'ed every run); Print Assumptions per theorem is in this file",
    "harness/reflect.py (translator of pane's tables into coq/Gen/*.v)",
    "correspondence harness (harness/*.py): builds live pane objects and Coq terms from one case",
]


def sh(cmd, cwd=None, timeout=1200, env=None):
    e = dict(os.environ)
    if env:
        e.update(env)
    p = subprocess.run(cmd, shell=isinstance(cmd, str), cwd=cwd, stdout=subprocess.PIPE,
                       stderr=subprocess.STDOUT, text=True, timeout=timeout, env=e)
    return p.returncode, p.stdout


class Lock:
    def __enter__(self):
        self.f = open(VERIF / '.lock', 'w')
        fcntl.flock(self.f, fcntl.LOCK_EX)
        return self

    def __exit__(self, *a):
        fcntl.flock(self.f, fcntl.LOCK_UN)
        self.f.close()


def write_if_changed(path: Path, text: str) -> bool:
    path.parent.mkdir(parents=True, exist_ok=True)
    if path.exists() and path.read_text() == text:
        return False
    path.write_text(text)
    return True


def coq_files():
    out = []
    for d in ('Base', 'Gen', 'Model', 'Spec', 'Lemmas', 'Props', 'Run'):
        out += sorted(str(p.relative_to(COQ)) for p in (COQ / d).glob('*.v'))
    return out


def ensure_makefile():
    proj = ['-Q . ""', '-arg -w -arg -notation-overridden,-ambiguous-paths,-deprecated-hint-without-locality,-deprecated-instance-without-locality'] + coq_files()
    changed = write_if_changed(COQ / '_CoqProject', '\n'.join(proj) + '\n')
    if changed or not (COQ / 'Makefile').exists():
        rc, out = sh('coq_makefile -f _CoqProject -o Makefile', cwd=COQ)
        if rc != 0:
            raise RuntimeError('coq_makefile failed: ' + out)


def make(targets, jobs=NPROC, timeout=3000):
    """make -k the given .vo targets; return (ok_targets, failed: {file: message}, log)."""
    ensure_makefile()
    rc, out = sh(['timeout', str(timeout), 'make', '-k', '-j', str(jobs)] + list(targets), cwd=COQ, timeout=timeout + 60)
    failed = {}
    # coq errors look like:  File "./Lemmas/X.v", line 3, characters 0-5:\nError: ...
    for m in re.finditer(r'File "\./([^"]+)", line (\d+), characters [^\n]*\n(Error:[^\n]*(?:\n(?!File |make|COQC)[^\n]*){0,12})', out):
        failed.setdefault(m.group(1), f'line {m.group(2)}: {m.group(3)[:600]}')
    for m in re.finditer(r"make(?:\[\d+\])?: \*\*\* \[[^\]]*: ([^\]\s]+)\.vo\]", out):
        failed.setdefault(m.group(1) + '.v', 'failed to compile')
    ok = [t for t in targets if (COQ / t).exists() and t[:-1] not in failed and t[:-2] + 'v' not in failed]
    # a target whose dependency failed is not built
    for t in targets:
        src = COQ / (t[:-2] + 'v')
        vo = COQ / t
        if not vo.exists() or (src.exists() and vo.stat().st_mtime < src.stat().st_mtime):
            failed.setdefault(t[:-2] + 'v', 'not built (dependency failed)')
    ok = [t for t in targets if t[:-2] + 'v' not in failed]
    return ok, failed, out


HYGIENE_RE = re.compile(r'\b(Admitted|admit|Axiom|Parameter|Conjecture|Hypothesis|Variable)\b|Unset Guard|bypass_check|type-in-type|Admit Obligations|impredicative-set')


def strip_coq_comments(text):
    out, depth, i = [], 0, 0
    while i < len(text):
        if text.startswith('(*', i):
            depth += 1; i += 2
        elif text.startswith('*)', i) and depth:
            depth -= 1; i += 2
        else:
            if not depth:
                out.append(text[i])
            i += 1
    return ''.join(out)


def hygiene():
    """Return list of offending (file, line) — Variable/Hypothesis are allowed only inside Sections."""
    bad = []
    for f in coq_files():
        text = strip_coq_comments((COQ / f).read_text())
        depth = 0
        for ln, line in enumerate(text.splitlines(), 1):
            if re.match(r'\s*Section\b', line):
                depth += 1
            if re.match(r'\s*End\b', line) and depth:
                depth -= 1
            m = HYGIENE_RE.search(line)
            if m:
                w = m.group(0)
                if w in ('Variable', 'Hypothesis') and depth > 0:
                    continue
                bad.append(f'{f}:{ln}: {w}')
    return bad


def theorem_names(prop_file):
    text = strip_coq_comments((COQ / prop_file).read_text())
    return re.findall(r'^\s*Theorem\s+(\w+)', text, re.M)


def print_assumptions(prop, prop_file, names):
    d = BUILD / 'run' / prop
    d.mkdir(parents=True, exist_ok=True)
    mod = prop_file[:-2].replace('/', '.')
    body = f'Require Import {mod}.\n' + ''.join(f'Print Assumptions {n}.\n' for n in names)
    (d / 'assumptions.v').write_text(body)
    rc, out = sh(['timeout', '600', 'coqc', '-Q', str(COQ), '', str(d / 'assumptions.v')], cwd=d)
    if rc != 0:
        return None, out
    chunks = re.split(r'(?=Closed under the global context|Axioms:)', out)
    res = [c.strip() for c in chunks if c.strip()]
    return res, out


def parse_nat_list(out):
    """Parse `= [1; 2]%nat : list nat` style output (possibly wrapped). Returns list or None."""
    m = re.search(r'=\s*(\[[^\]]*\]|nil)', out, re.S)
    if not m:
        return None
    return [int(x) for x in re.findall(r'\d+', m.group(1))]


def run_shards(prop, name, header, items, render, per=400, final=None, timeout=600, ty=None):
    """Write shards `Definition cases := [...]` + `Eval vm_compute in (final cases)`; run them in
    parallel; return (bad_indices(global), errors)."""
    d = BUILD / 'run' / prop
    d.mkdir(parents=True, exist_ok=True)
    for old in d.glob(f'{name}_*.v*'):
        old.unlink()
    files = []
    for k in range(0, len(items), per):
        chunk = items[k:k + per]
        body = header + '\nDefinition cases' + (f' : {ty}' if ty else '') + ' := [\n' + ';\n'.join(render(x) for x in chunk) + '\n].\n' + \
            f'Eval vm_compute in ({final} cases).\n'
        fn = d / f'{name}_{k // per}.v'
        fn.write_text(body)
        files.append((k, fn))
    procs = []
    bad, errors = [], []
    pending = list(files)
    running = []
    while pending or running:
        while pending and len(running) < NPROC:
            k, fn = pending.pop(0)
            p = subprocess.Popen(['timeout', str(timeout), 'coqc', '-Q', str(COQ), '', str(fn)], cwd=d,
                                 stdout=subprocess.PIPE, stderr=subprocess.STDOUT, text=True)
            running.append((k, fn, p))
        k, fn, p = running.pop(0)
        out, _ = p.communicate()
        if p.returncode != 0:
            errors.append(f'{fn.name}: rc={p.returncode}: {out[-800:]}')
            continue
        lst = parse_nat_list(out)
        if lst is None:
            errors.append(f'{fn.name}: unparseable output: {out[-400:]}')
            continue
        bad += [k + i for i in lst]
    for k, fn in files:
        for ext in ('.vo', '.glob', '.vok', '.vos'):
            q = fn.with_suffix(ext)
            if q.exists():
                q.unlink()
        aux = fn.parent / ('.' + fn.stem + '.aux')
        if aux.exists():
            aux.unlink()
    return sorted(bad), errors


def coq_eval(prop, name, text, timeout=300):
    d = BUILD / 'run' / prop
    d.mkdir(parents=True, exist_ok=True)
    fn = d / f'{name}.v'
    fn.write_text(text)
    rc, out = sh(['timeout', str(timeout), 'coqc', '-Q', str(COQ), '', str(fn)], cwd=d)
    return rc, out


def coq_str(s: str) -> str:
    assert all(32 <= ord(c) < 127 for c in s), s
    return '"' + s.replace('"', '""') + '"'


# ---------------------------------------------------------------- known findings

def load_known():
    p = VERIF / 'known_findings.json'
    if not p.exists():
        return {'findings': [], 'fixed': []}
    return json.loads(p.read_text())


class Outcome:
    """Collects what a check run did; turned into evidence + exit status by finish()."""

    def __init__(self, prop, tier, seed):
        self.prop, self.tier, self.seed = prop, tier, seed
        self.t0 = time.time()
        self.obligations = []          # (name, discharged: bool, note)
        self.violations = []           # dicts: {signature, what, replay: {...}, no_input: bool}
        self.evaluations = 0
        self.distinct = set()
        self.samples = []
        self.extra = {}
        self.assumptions = []
        self.rule = ''
        self.exhaustive = False
        self.checker_cmd = ''
        self.trusted = list(KERNEL_TRUST)
        self.assumption_text = []

    def oblige(self, name, ok, note=''):
        self.obligations.append((name, bool(ok), note))

    def case(self, key, nontrivial=True):
        self.evaluations += 1
        if nontrivial:
            self.distinct.add(key if isinstance(key, (str, int, tuple)) else json.dumps(key, sort_keys=True, default=str))

    def sample(self, x, limit=6):
        if len(self.samples) < limit:
            self.samples.append(x)

    def violation(self, signature, what, replay, no_input=False):
        self.violations.append({'signature': signature, 'what': what, 'replay': replay, 'no_input': no_input})

    def has_unlisted_input(self):
        """some violation with a concrete failing input that known_findings.json does not list"""
        sigs = {f['signature'] for f in load_known().get('findings', []) if f.get('property') == self.prop}
        return any(not v['no_input'] and v['signature'] not in sigs for v in self.violations)

    def finish(self):
        known = load_known()
        sigs = {f['signature']: f for f in known.get('findings', []) if f.get('property') == self.prop}
        new, hit = [], {}
        for v in self.violations:
            if v['signature'] in sigs and not v['no_input']:
                hit.setdefault(v['signature'], v)
            else:
                new.append(v)
        for s, v in hit.items():
            print(f"KNOWN-FINDING: property={self.prop} {sigs[s]['what']} [{s}]")
        # listed findings that no longer reproduce are reported (not a failure)
        for s in sigs:
            if s not in hit and self.extra.get('known_checked', True):
                print(f"note: listed finding {s} did not reproduce in this run")
        rc = 0
        rdir = BUILD / 'replay'
        rdir.mkdir(parents=True, exist_ok=True)
        seen = set()
        for v in new:
            if v['signature'] in seen:
                continue
            seen.add(v['signature'])
            h = hashlib.sha1(v['signature'].encode()).hexdigest()[:10]
            path = rdir / f'{self.prop}_{h}.json'
            path.write_text(json.dumps({'property': self.prop, 'signature': v['signature'], 'what': v['what'],
                                        'replay': v['replay'], 'seed': self.seed, 'tier': self.tier}, indent=1, default=str))
            tail = ' no-failing-input-found' if v['no_input'] else ''
            print(f"VIOLATION property={self.prop} replay={path}{tail}")
            print(f"  {v['what']}"[:600])
            rc = 1
        n_obl = len(self.obligations)
        n_ok = sum(1 for o in self.obligations if o[1])
        cov = {
            'obligations': max(n_obl, 1), 'discharged': n_ok,
            'checker_cmd': self.checker_cmd or 'make -C /verif/coq (coqc 8.16.1, full .vo) + coqc on generated correspondence shards',
            'trusted_base': self.trusted,
            'evaluations': self.evaluations,
            'distinct_nontrivial': len(self.distinct),
            'rule': self.rule,
            'samples': self.samples or ['(none)'],
            'exhaustive': self.exhaustive,
            'obligation_list': [{'name': n, 'discharged': ok, 'note': note} for n, ok, note in self.obligations],
            'print_assumptions': self.assumption_text,
            'known_findings_hit': sorted(hit),
        }
        cov.update(self.extra)
        ev = {
            'property_id': self.prop, 'tier': self.tier, 'seed': self.seed, 'level': 'proof',
            'coverage': cov, 'assumptions': self.assumptions,
            'wall_s': round(time.time() - self.t0, 2), 'violations': len(seen),
        }
        (VERIF / 'evidence').mkdir(exist_ok=True)
        (VERIF / 'evidence' / f'{self.prop}.json').write_text(json.dumps(ev, indent=1, default=str) + '\n')
        print(f"{self.prop} {self.tier}: obligations {n_ok}/{n_obl}, evaluations {self.evaluations}, "
              f"distinct {len(self.distinct)}, violations {len(seen)}, known {len(hit)}, {ev['wall_s']}s")
        return rc


def ident_vocab():
    """words a rename or name-resolution routine could treat specially: Python keywords and soft keywords, a few builtins and
    conventional names (lowercase alphabetic, at least two letters -- the word shape of the snake_case convention)"""
    import keyword
    ws = [w.lower() for w in list(keyword.kwlist) + list(getattr(keyword, 'softkwlist', []))]
    ws += ['type', 'id', 'list', 'dict', 'set', 'str', 'int', 'len', 'map', 'self', 'cls', 'init', 'name', 'value', 'field', 'fields', 'data',
           'get', 'items', 'keys', 'copy', 'tag', 'kind']
    out = []
    for w in ws:
        if w.isalpha() and w.isascii() and len(w) >= 2 and w not in out:
            out.append(w)
    return out
