"""Writes /verif/MANIFEST.json from the table below (kept next to the checks so it stays current)."""
import json
from pathlib import Path

VERIF = Path(__file__).resolve().parent.parent

NOTE = ("Trusted base: Coq 8.16.1 kernel incl. vm_compute; no axioms declared (Print Assumptions text per theorem is in the "
        "evidence); harness/reflect.py translator for the Gen tables; the correspondence harness; model hand-written "
        "for control flow and tied by differential execution inside coqc. See DESIGN.md section 9.")

CHECKS = {
    'C20': dict(
        text=("Machine-checked proof (Coq) over ALL snake_case identifiers (unbounded word count and length): canonical "
              "spelling per style, injectivity, idempotence, reversibility, style-pair coherence, refusal of names with "
              "leading/trailing/doubled separators; the joiner table, separator class, capital class and shortcut tests are "
              "re-extracted from pane/field.py by an AST translator on every run; the hand-written split/regroup control "
              "flow is tied by an exhaustive (small alphabet) + random correspondence evaluated inside coqc; a Python "
              "monitor evaluates the property on pane itself to produce concrete replays."),
        technique='Coq proof by induction on word lists + AST-reflected tables + vm_compute correspondence',
        design='7 (C20)'),
}

CONV = ("Shared conversion model (coq/Model/Conv.v, Into.v): the fast pass, the diagnostic pass and the serialiser written separately "
        "from each converter class; scalar table, isinstance gates, except clauses and stock-condition operators re-extracted from "
        "the source on every run (Gen/*.v); control flow tied by differential execution inside coqc on generated (type, value) cases. ")

CHECKS.update({
    'C03': dict(text=CONV + "Theorem (unbounded, by induction on the type with a nested induction principle): for every well-formed type "
                "and EVERY value, try_convert rejects iff collect_errors returns a tree, accepts iff it returns None, and convert never raises "
                "the internal RuntimeError. The proof consumes the generated except-clause facts, so narrowing an except breaks it.",
                technique='Coq proof by structural induction on types + reflected except/gate/scalar tables + vm_compute correspondence', design='7 (C03)'),
    'C04': dict(text=CONV + "Theorem: no exception class other than ParseInterrupt/ConvertError leaves either pass, for every well-formed type "
                "and EVERY value, given the except clauses reflected from the current source (sites_total). Converter-build totality for "
                "documented types and TypeError/UnsupportedAnnotation for unsupported ones are checked on pane (not modelled: the model's "
                "types are post-dispatch). Entry points convert / Cls.from_data / from_json / from_yaml are exercised by the monitor.",
                technique='Coq proof (escape-freedom from reflected except clauses) + adversarial-leaf correspondence/monitor', design='7 (C04)'),
    'C05': dict(text=CONV + "Theorems (every input, any nesting): round trip from_data(into_data(x,T),T)=x for scalars, None, scalar literals, lists, "
                "variadic and fixed tuples, Dict[str,T], conditions and unions whose members accept pairwise disjoint kinds of data (named _partial); "
                "for dataclasses with any renaming / aliases under which every field reads back the key it is written under, in the mapping and (no "
                "keyword-only field) the sequence form, with what changes stated (the set-field record); at any nesting of such dataclasses, sets, "
                "containers and Optional[dataclass] up to set-field records (same_val); the side conditions are shown necessary (_refuted witnesses: "
                "overlapping union, keyword-only field in tuple output). Enums, tagged unions, unions of dataclasses: serialiser correspondence + "
                "round-trip monitor over the configuration product, with a dynamic test of the overlapping-union cause; recorded findings in known_findings.json.",
                technique='Coq proof on fragments (partial, incl. renamed and nested dataclasses) + serialiser correspondence + round-trip monitor', design='7 (C05), 12.6'),
    'C06': dict(text=CONV + "Theorems: convert(x,T)=x, idempotence and 'a typed value offered as data is accepted unchanged' proved on the C05 fragment of scalars, literals, containers, "
                "Dict[str,T], conditions and kind-disjoint unions (_partial), with convert modelled as parse(serialise-by-own-class). "
                "Natively built values (Fraction, Decimal, datetime, path, pattern, set, deque, enum, dataclass; nested) and constructor "
                "arguments are checked on pane; Range / ValueOrList are recorded findings.",
                technique='Coq proof on a core fragment (partial) + convert correspondence + native-value monitor', design='7 (C06)'),
    'C11': dict(text=CONV + "Theorems (all types, all values): the union result is exactly that of the left-most accepting member (index-based spec), "
                "rejection iff all members reject, nesting/flattening and Optional[Optional[X]] are invisible, the full conversion succeeds "
                "iff some member accepts. Serialisation through an accepting member: serialiser correspondence + monitor on overlap-biased unions.",
                technique='Coq proof against an index-based first-accepting-member spec + overlap-biased correspondence', design='7 (C11)'),
    'C13': dict(text=CONV + "Theorems: Annotated[T,c] accepts v iff T accepts and c evaluates to True on the converted value (value unchanged); a raising "
                "predicate is a failed condition whose node carries the cause; serialisation ignores conditions; all/any/not are the Boolean "
                "connectives; sign conditions, val_range and len_range (inclusive), empty/non-empty, finite against exact Z / dyadic arithmetic, "
                "with operators reflected from pane/annotations.py by AST. Exhaustive boundary stream on pane. Array-shape conditions are not modelled.",
                technique='Coq proof + AST-reflected stock-condition operators + exhaustive boundary correspondence', design='7 (C13)'),
})

CHECKS.update({
    'C01': dict(text=CONV + "Theorem (Lemmas/Denotes.v): ONE membership relation `member t v x`, written by recursion on the type from the documented element-wise rules "
                "(it mentions none of the loops of the fast pass), and `tc t v = Ok x <-> member t v x` for EVERY type of the model's grammar (scalars, literals, "
                "containers, fixed / variadic tuples, mappings, struct literal types, unions, conditions, enums, dataclasses in both layouts, tagged unions in the "
                "three layouts, at any nesting), every value and every image; lifted to convert on well-formed types (member: the image; non-member: a ConvertError "
                "tree, nothing else); the image is a function of (T, v) and is deeply exactly typed. The fast pass `tc` is tied to pane by the correspondence "
                "(every constructor of the grammar, random equivalent spellings, deterministic boundary families). A monitor checks deep exact typing of results, "
                "stability under re-evaluation / re-spelling and the Literal rule. PARTIAL only in what the model's grammar leaves out: library scalar types "
                "(Decimal, dates, paths, patterns), NestedSequence / ValueOrList, custom converters -- covered by monitors and the 'std' correspondence.",
                technique='Coq proof (membership relation = fast pass, all types of the model) + vm_compute correspondence of the model with pane (partial: library types outside the model)', design='7 (C01), 12.6'),
    'C02': dict(text=CONV + "Theorems: the generated scalar table equals the strictness matrix written from the property text (complete finite sweep); "
                "the generic and dataclass isinstance gates treat only list/tuple as sequences and only dict as mappings (never text/bytes); for ALL "
                "types and values an accepted value has a kind the matrix allows for the type's head, and container / tuple / mapping / union "
                "conversions succeed only through their element conversions (so it holds at every depth and context); results have the target kind, "
                "same-kind conversion is the identity; a literal is matched by a value of its own kind only. Exhaustive 23 targets x 11 kinds (22 representatives incl. the numbers == identifies with literal / enum members) x 8 contexts matrix on pane every run.",
                technique='Coq proof over reflected tables + exhaustive kind x target x context matrix', design='7 (C02)'),
    'C07': dict(text=CONV + "Theorems: a sequence/tuple product node's children are exactly the positions whose element is rejected on its own, each child the "
                "element type's own tree (for a dataclass in the sequence layout: the positions of the input paired with the init=True fields in order); struct and dataclass (mapping path) nodes: extra = exactly the keys that bind to no field, missing = exactly the required fields no key binds to; a union node has one child per member in "
                "declaration order, each the member's own tree; leaves record the offending value. Dataclass / mapping nodes: correspondence "
                "(full structural tree equality incl. expected strings) + a compositional monitor on pane; two DictConverter findings recorded.",
                technique='Coq proof (children/missing/extra/union specs) + tree correspondence + compositional monitor', design='7 (C07)'),
    'C08': dict(text="Renderer model (coq/Model/Render.v: fusing of product chains, sum flattening, inside_sum variants) tied by exact text equality with "
                "str(ConvertError) on float-free, cause-free trees. Theorems: every tree the diagnostic pass produces for any well-formed type and any "
                "value is well shaped, rendering it never raises, and the message contains (as tokens) every path component - also in fused a.b.c "
                "chains -, every leaf expectation, missing / unexpected / duplicated field, info line and condition name; the sets of missing and "
                "unexpected names are printed sorted, and the message is the same however those sets are enumerated (set_equiv e e' -> equal text). "
                "On pane additionally: the same failures rendered under four PYTHONHASHSEEDs. str() of floats and traceback text are not modelled "
                "(monitor on pane only).",
                technique='Coq proof (totality + completeness of the renderer on all producible trees) + text correspondence', design='7 (C08)'),
    'C09': dict(text="PARTIAL. Theorem (complete sweep of a table generated from the source by an AST data-flow pass): every mutating method call / item "
                "assignment / deletion in every pass of every converter class has a freshly built object or a copy as receiver, never the value passed in; "
                "heap model of the tag-stripping protocol (copy, then pop on the copy): input unchanged for all mappings and keys, and refuted without the "
                "copy. Globally: instrumented dict/list inputs + deep snapshots on pane for from_data / collect_errors / convert / into_data / "
                "constructors, both verdicts. Mutation by user hooks or below the Python method level is outside the model.",
                technique='Coq proof over an AST-generated mutation table + heap model; instrumented-input monitor (partial)', design='7 (C09)'),
    'C10': dict(text="Theorems: KeyCache (unbounded and LRU, maxsize>=1) returns the memoised function's value after ANY call history, LRU keeps <= maxsize "
                "distinct keys in recency order and evicts the least recent, and the invariant holds in EVERY interleaving of threads at the code's lock "
                "granularity; the converter cache keyed on id(type) answers with the structure of the object asked about after ANY history of builds, drops, "
                "id re-use and lookups, given that entries pin their type object (read from the source), and is refuted without pinning. Real KeyCache vs "
                "model call-by-call in coqc; Build/Convert/Drop/GC histories, first-seen order and threads on the real make_converter. The cache of generic "
                "subclasses behind G[params] (Model/TypeKey.v): pane's ordered key is injective, so after ANY sequence of specialisations and evictions "
                "each G[p] is the class built for p itself, refuted for a key that compares parameters by == (Union / Literal order); tied by "
                "corr_typekey (== of typing objects, _ordered_type_key, identity of the classes). PARTIAL for threads (byte-code preemption not modelled).",
                technique='Coq proof by induction over operation histories / interleavings + KeyCache correspondence + history monitor', design='7 (C10)'),
    'C12': dict(text=CONV + "Theorems: the fast pass of a tagged union equals a specification that depends on the tag value only; a body error is exactly the chosen "
                "variant's tree; unknown / unhashable tags give a leaf that names the tag and shows the tag value, an absent tag names the key(s); non-mappings "
                "are rejected; what the writer emits for the external / adjacent / internal layout is read back into the same variant. Duplicate tags refused at "
                "build time: checked on pane. Findings recorded for layouts the writer and reader disagree on.",
                technique='Coq proof against a tag-only dispatch spec + layout symmetry lemmas + correspondence', design='7 (C12)'),
    'C14': dict(text=CONV + "Theorems: the set-field record of a constructed instance is exactly the supplied fields; fields not supplied take their default value or the "
                "factory product (never nothing, never the factory); a missing required field blocks construction; the hook runs in every construction and its "
                "failure is a failed conversion on the mapping and sequence paths. Equality of the constructor / mapping / sequence paths over subsets of supplied "
                "fields, identity-freshness of factory products, make_unchecked and 12 creation paths of a counting hook are checked on pane.",
                technique='Coq proof on the construction model + path-equivalence monitor over field subsets', design='7 (C14)'),
    'C15': dict(text=CONV + "Name derivation: Coq model of FieldSpec.make_field tied by an EXHAUSTIVE correspondence (864 option x style configurations); theorems: class "
                "styles give the canonical spellings (via C20), out_name wins on output, aliases are additional so the written name is read back. Binding: a key "
                "binds iff it is the Python name or an input name (last field wins), unknown keys vs allow_extra, duplicates, missing required, disabled layouts, "
                "sequence length range, positional binding in field order, output names and exclusion. Exhaustive decision table on a 3-field class family on pane.",
                technique='Coq proof + exhaustive name-derivation correspondence + decision-table enumeration', design='7 (C15)'),
    'C16': dict(text="Theorems: the hash rule table (reflected from the live classes._hash_action) equals the table written from the dataclasses documentation and the "
                "live dataclasses._hash_action on all 16 cells; for field values in any domain with an equivalence == and a compatible total order: == is an "
                "equivalence and ignores generic parameters, exactly one of <, ==, > holds for same-class instances, <= / >= are derived, a<b iff b>a, equal "
                "instances hash equal when hash fields are compare fields (necessary: _refuted). Comparisons of the real classes vs the model in coqc over the "
                "exhaustive option cube x field flags. Instance state machine (Model/Instance.v; assign / delete / copy / deepcopy / replace): frozen "
                "instances reject assignment, deletion is rejected, and by an invariant carried over every operation sequence: copy, deepcopy and "
                "replace() of every reachable instance give the same values and the same set-field record, replace holds the re-validated value for "
                "what it changes, keeps every other field, refuses non-members (ConvertError) and unknown names (TypeError); tied step by step by "
                "corr_inst on generated classes and operation sequences. repr on pane. Three findings recorded.",
                technique='Coq proof (order/equality/hash laws, reflected hash table; instance state machine with an invariant over operation sequences) + option-cube and operation-sequence correspondence', design='7 (C16)'),
    'C17': dict(text="Coq model of classes._process (dict update over the reversed MRO, override in place, defaults inherited through the class attribute of the nearest valued ancestor, KW_ONLY, keyword-only partition, positional "
                "bounds) tied by correspondence on random hierarchies, and of type-variable substitution (tsubst) tied by correspondence with util.replace_typevars on generated (bindings, type expression) pairs; theorems: effective names are in first-occurrence order, a redeclared field keeps its position "
                "and takes the last declaration, keyword-only fields are moved back stably, type-variable substitution composes and reaches every occurrence. "
                "Signature / repr order, generic binding / forwarding / re-declaration / swapping, enforcement of substituted types and option inheritance over "
                "2-4 levels, diamonds (the last declaration in base-first MRO order wins, with type and default) and re-parameterised generics are checked on pane. The MRO (C3) and typing.Generic internals are Python's.",
                technique='Coq proof on the _process / tsubst model + hierarchy and substitution correspondences + generic/option monitors', design='7 (C17)'),
    'C18': dict(text="Theorems over the dispatch order, handler iteration order, class-handler composition and field-converter test reflected from the source by AST: "
                "the consultation order is field, call, nearest class, outer classes, protocol, scalar built-ins, registered, structural; the converter used is "
                "the first source in that order that answers, for every subset of sources; a source answering NotImplemented defers; the mapping form matches "
                "only the exact unparameterised type. EXHAUSTIVE on pane: 32 source subsets x 3 target kinds x 5 nesting shapes x both directions with marker "
                "converters; call-level handlers reach every string position of a nested value in both directions.",
                technique='Coq proof over AST-reflected dispatch order + exhaustive source-subset enumeration', design='7 (C18)'),
    'C19': dict(text="PARTIAL (json / PyYAML are oracles). Theorems: ownership state machine of open_file (caller streams untouched, paths opened and closed by pane on "
                "every exit, all readers/writers go through it, UTF-8) read off the running functions; the file round trip is the composition of the serialiser law "
                "load(dump d)=normalise d, list-vs-tuple insensitivity of reading (proved for containers, struct types, literals and dataclasses in both input formats) and C05; C19_file_roundtrip_for_types states it for every type in both fragments. On pane: real files under a scratch "
                "directory, str/Path/open stream/StringIO/returned string, the full formatting-option matrix, non-ASCII and multi-line text, multi-document YAML, "
                "handles closed also on failure.",
                technique='Coq proof (ownership machine, composition theorem; serialisers as oracles) + file round-trip monitor (partial)', design='7 (C19)'),
})

PENDING = {}


def main():
    props = [json.loads(l) for l in (VERIF / 'properties.jsonl').read_text().splitlines() if l.strip()]
    checks, na = [], []
    for p in props:
        pid = p['id']
        if pid in CHECKS:
            c = CHECKS[pid]
            checks.append({
                'property_id': pid,
                'quick_cmd': f'./check {pid} --tier quick',
                'thorough_cmd': f'./check {pid} --tier thorough',
                'evidence_file': f'/verif/evidence/{pid}.json',
                'replay_cmd_template': f'./check {pid} --replay {{path}}',
                'engine': 'coq-model',
                'level_claimed': {'category': 'proof', 'text': c['text'], 'design_ref': 'DESIGN.md section ' + c['design']},
                'level_note': c.get('note', NOTE),
                'technique': c['technique'],
            })
        else:
            na.append({'property_id': pid, 'reason': PENDING.get(pid, 'check not built yet in this round (planned: see DESIGN.md section 7); nothing is claimed for it')})
    man = {
        'version': 1,
        'setup_cmd': './setup.sh',
        'hooks': {'guard': 'PANE_VERIF', 'enable': 'no source hooks are needed; all instrumentation is on the harness side (the guard is unused by /repo)',
                  'baseline_off_cmd': 'cd /repo && /venv/bin/python -m pytest -ra -q -p no:cacheprovider --timeout=900 --continue-on-collection-errors',
                  'source_commits': [], 'add_only': True},
        'engines': [{'name': 'coq-model', 'path': '/verif/coq', 'serves_properties': sorted(CHECKS),
                     'kind_free_text': 'Coq 8.16.1 development (Model/Spec/Lemmas/Props) + reflecting translator + in-coqc correspondence + Python monitors'}],
        'checks': checks,
        'not_applicable': na,
        'notes': 'All checks: ./check <id> --tier quick|thorough. Known findings: /verif/known_findings.json. Seeded breaks: /verif/seeded/.',
    }
    (VERIF / 'MANIFEST.json').write_text(json.dumps(man, indent=1) + '\n')


if __name__ == '__main__':
    main()
