"""Writes /verif/MANIFEST.json from the table below (kept next to the checks so it stays current)."""
import json
from pathlib import Path

VERIF = Path(__file__).resolve().parent.parent

NOTE = ("Trusted base: Coq 8.16.1 kernel incl. vm_compute; no axioms declared (Print Assumptions text per theorem is in the "
        "evidence); harness/reflect.py translator for the Gen tables; the correspondence harness; model hand-written "
        "for control flow and tied by differential execution inside coqc. See DESIGN.md section 9.")

CHECKS = {
    'C20': dict(
        text=("Machine-checked proof (Coq) over ALL snake_case identifiers (unbounded word count and length): canonical "
              "spelling per style, injectivity, idempotence, reversibility, style-pair coherence, refusal of names with "
              "leading/trailing/doubled separators; the joiner table, separator class, capital class and shortcut tests are "
              "re-extracted from pane/field.py by an AST translator on every run; the hand-written split/regroup control "
              "flow is tied by an exhaustive (small alphabet) + random correspondence evaluated inside coqc; a Python "
              "monitor evaluates the property on pane itself to produce concrete replays."),
        technique='Coq proof by induction on word lists + AST-reflected tables + vm_compute correspondence',
        design='7 (C20)'),
}

PENDING = {}


def main():
    props = [json.loads(l) for l in (VERIF / 'properties.jsonl').read_text().splitlines() if l.strip()]
    checks, na = [], []
    for p in props:
        pid = p['id']
        if pid in CHECKS:
            c = CHECKS[pid]
            checks.append({
                'property_id': pid,
                'quick_cmd': f'./check {pid} --tier quick',
                'thorough_cmd': f'./check {pid} --tier thorough',
                'evidence_file': f'/verif/evidence/{pid}.json',
                'replay_cmd_template': f'./check {pid} --replay {{path}}',
                'engine': 'coq-model',
                'level_claimed': {'category': 'proof', 'text': c['text'], 'design_ref': 'DESIGN.md section ' + c['design']},
                'level_note': c.get('note', NOTE),
                'technique': c['technique'],
            })
        else:
            na.append({'property_id': pid, 'reason': PENDING.get(pid, 'check not built yet in this round (planned: see DESIGN.md section 7); nothing is claimed for it')})
    man = {
        'version': 1,
        'setup_cmd': './setup.sh',
        'hooks': {'guard': 'PANE_VERIF', 'enable': 'no source hooks are needed; all instrumentation is on the harness side (the guard is unused by /repo)',
                  'baseline_off_cmd': 'cd /repo && /venv/bin/python -m pytest -ra -q -p no:cacheprovider --timeout=900 --continue-on-collection-errors',
                  'source_commits': [], 'add_only': True},
        'engines': [{'name': 'coq-model', 'path': '/verif/coq', 'serves_properties': sorted(CHECKS),
                     'kind_free_text': 'Coq 8.16.1 development (Model/Spec/Lemmas/Props) + reflecting translator + in-coqc correspondence + Python monitors'}],
        'checks': checks,
        'not_applicable': na,
        'notes': 'All checks: ./check <id> --tier quick|thorough. Known findings: /verif/known_findings.json. Seeded breaks: /verif/seeded/.',
    }
    (VERIF / 'MANIFEST.json').write_text(json.dumps(man, indent=1) + '\n')


if __name__ == '__main__':
    main()
