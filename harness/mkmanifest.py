"""Writes /verif/MANIFEST.json from the table below (kept next to the checks so it stays current)."""
import json
from pathlib import Path

VERIF = Path(__file__).resolve().parent.parent

NOTE = ("Trusted base: Coq 8.16.1 kernel incl. vm_compute; no axioms declared (Print Assumptions text per theorem is in the "
        "evidence); harness/reflect.py translator for the Gen tables; the correspondence harness; model hand-written "
        "for control flow and tied by differential execution inside coqc. See DESIGN.md section 9.")

CHECKS = {
    'C20': dict(
        text=("Machine-checked proof (Coq) over ALL snake_case identifiers (unbounded word count and length): canonical "
              "spelling per style, injectivity, idempotence, reversibility, style-pair coherence, refusal of names with "
              "leading/trailing/doubled separators; the joiner table, separator class, capital class and shortcut tests are "
              "re-extracted from pane/field.py by an AST translator on every run; the hand-written split/regroup control "
              "flow is tied by an exhaustive (small alphabet) + random correspondence evaluated inside coqc; a Python "
              "monitor evaluates the property on pane itself to produce concrete replays."),
        technique='Coq proof by induction on word lists + AST-reflected tables + vm_compute correspondence',
        design='7 (C20)'),
}

CONV = ("Shared conversion model (coq/Model/Conv.v, Into.v): the fast pass, the diagnostic pass and the serialiser written separately "
        "from each converter class; scalar table, isinstance gates, except clauses and stock-condition operators re-extracted from "
        "the source on every run (Gen/*.v); control flow tied by differential execution inside coqc on generated (type, value) cases. ")

CHECKS.update({
    'C03': dict(text=CONV + "Theorem (unbounded, by induction on the type with a nested induction principle): for every well-formed type "
                "and EVERY value, try_convert rejects iff collect_errors returns a tree, accepts iff it returns None, and convert never raises "
                "the internal RuntimeError. The proof consumes the generated except-clause facts, so narrowing an except breaks it.",
                technique='Coq proof by structural induction on types + reflected except/gate/scalar tables + vm_compute correspondence', design='7 (C03)'),
    'C04': dict(text=CONV + "Theorem: no exception class other than ParseInterrupt/ConvertError leaves either pass, for every well-formed type "
                "and EVERY value, given the except clauses reflected from the current source (sites_total). Converter-build totality for "
                "documented types and TypeError/UnsupportedAnnotation for unsupported ones are checked on pane (not modelled: the model's "
                "types are post-dispatch). Entry points convert / Cls.from_data / from_json / from_yaml are exercised by the monitor.",
                technique='Coq proof (escape-freedom from reflected except clauses) + adversarial-leaf correspondence/monitor', design='7 (C04)'),
    'C05': dict(text=CONV + "Theorems: round trip from_data(into_data(x,T),T)=x proved for all types of the kind-disjoint core fragment (scalars, None, "
                "lists, variadic and fixed tuples, any nesting) - named _partial; bool stays bool; the union side condition is necessary "
                "(_refuted with witness). Dataclass layouts/renaming/aliases, mappings, sets, enums, tagged unions: correspondence of the "
                "serialiser model + round-trip monitor over the configuration product; recorded findings in known_findings.json.",
                technique='Coq proof on a core fragment (partial) + serialiser correspondence + round-trip monitor', design='7 (C05)'),
    'C06': dict(text=CONV + "Theorems: convert(x,T)=x and idempotence proved on the core fragment (_partial), with convert modelled as parse(serialise-by-own-class). "
                "Natively built values (Fraction, Decimal, datetime, path, pattern, set, deque, enum, dataclass; nested) and constructor "
                "arguments are checked on pane; Range / ValueOrList are recorded findings.",
                technique='Coq proof on a core fragment (partial) + convert correspondence + native-value monitor', design='7 (C06)'),
    'C11': dict(text=CONV + "Theorems (all types, all values): the union result is exactly that of the left-most accepting member (index-based spec), "
                "rejection iff all members reject, nesting/flattening and Optional[Optional[X]] are invisible, the full conversion succeeds "
                "iff some member accepts. Serialisation through an accepting member: serialiser correspondence + monitor on overlap-biased unions.",
                technique='Coq proof against an index-based first-accepting-member spec + overlap-biased correspondence', design='7 (C11)'),
    'C13': dict(text=CONV + "Theorems: Annotated[T,c] accepts v iff T accepts and c evaluates to True on the converted value (value unchanged); a raising "
                "predicate is a failed condition whose node carries the cause; serialisation ignores conditions; all/any/not are the Boolean "
                "connectives; sign conditions, val_range and len_range (inclusive), empty/non-empty, finite against exact Z / dyadic arithmetic, "
                "with operators reflected from pane/annotations.py by AST. Exhaustive boundary stream on pane. Array-shape conditions are not modelled.",
                technique='Coq proof + AST-reflected stock-condition operators + exhaustive boundary correspondence', design='7 (C13)'),
})

PENDING = {}


def main():
    props = [json.loads(l) for l in (VERIF / 'properties.jsonl').read_text().splitlines() if l.strip()]
    checks, na = [], []
    for p in props:
        pid = p['id']
        if pid in CHECKS:
            c = CHECKS[pid]
            checks.append({
                'property_id': pid,
                'quick_cmd': f'./check {pid} --tier quick',
                'thorough_cmd': f'./check {pid} --tier thorough',
                'evidence_file': f'/verif/evidence/{pid}.json',
                'replay_cmd_template': f'./check {pid} --replay {{path}}',
                'engine': 'coq-model',
                'level_claimed': {'category': 'proof', 'text': c['text'], 'design_ref': 'DESIGN.md section ' + c['design']},
                'level_note': c.get('note', NOTE),
                'technique': c['technique'],
            })
        else:
            na.append({'property_id': pid, 'reason': PENDING.get(pid, 'check not built yet in this round (planned: see DESIGN.md section 7); nothing is claimed for it')})
    man = {
        'version': 1,
        'setup_cmd': './setup.sh',
        'hooks': {'guard': 'PANE_VERIF', 'enable': 'no source hooks are needed; all instrumentation is on the harness side (the guard is unused by /repo)',
                  'baseline_off_cmd': 'cd /repo && /venv/bin/python -m pytest -ra -q -p no:cacheprovider --timeout=900 --continue-on-collection-errors',
                  'source_commits': [], 'add_only': True},
        'engines': [{'name': 'coq-model', 'path': '/verif/coq', 'serves_properties': sorted(CHECKS),
                     'kind_free_text': 'Coq 8.16.1 development (Model/Spec/Lemmas/Props) + reflecting translator + in-coqc correspondence + Python monitors'}],
        'checks': checks,
        'not_applicable': na,
        'notes': 'All checks: ./check <id> --tier quick|thorough. Known findings: /verif/known_findings.json. Seeded breaks: /verif/seeded/.',
    }
    (VERIF / 'MANIFEST.json').write_text(json.dumps(man, indent=1) + '\n')


if __name__ == '__main__':
    main()
