"""Entry point: ./check Cxx --tier quick|thorough [--replay path]"""
from __future__ import annotations

import argparse
import importlib
import json
import os
import sys
import traceback
from pathlib import Path

sys.path.insert(0, str(Path(__file__).resolve().parent))
import common
from common import Outcome, Lock, make, hygiene, theorem_names, print_assumptions, COQ
import reflect


def main():
    ap = argparse.ArgumentParser()
    ap.add_argument('prop')
    ap.add_argument('--tier', default=os.environ.get('VERIF_TIER', 'quick'), choices=['quick', 'thorough'])
    ap.add_argument('--replay', default=None)
    a = ap.parse_args()
    seed = int(os.environ.get('VERIF_SEED', '20260930'))
    prop = a.prop.upper()
    mod = importlib.import_module(f'props.{prop.lower()}')
    out = Outcome(prop, a.tier, seed)
    sys.path.insert(0, str(common.REPO))

    if a.replay:
        rep = json.loads(Path(a.replay).read_text())
        rc = mod.replay(rep, out)
        sys.exit(rc)

    # ---- Tie 1 + proofs (serialised: the Gen files and .vo files are shared)
    with Lock():
        status = reflect.regenerate()
        targets = list(mod.COQ_TARGETS)
        ok, failed, log = make(targets)
    broken_tables = {t: m for t, m in status.items() if m and t in mod.GEN}
    for t in mod.GEN:
        out.oblige(f'reflect:{t}', t not in broken_tables, broken_tables.get(t, 'regenerated from the current source'))
    bad_h = hygiene()
    out.oblige('hygiene: no Admitted/admit/Axiom/Parameter/guard switches', not bad_h, '; '.join(bad_h[:5]))
    prop_file = f'Props/{prop}.v'
    names = theorem_names(prop_file) if (COQ / prop_file).exists() else []
    proofs_ok = not failed and not broken_tables and not bad_h
    failed_files = dict(failed)
    if (COQ / prop_file).exists():
        if prop_file in failed_files or not (COQ / (prop_file + 'o')).exists():
            for n in names:
                out.oblige(f'theorem {n}', False, 'Props file or a dependency does not compile')
        else:
            pa, raw = print_assumptions(prop, prop_file, names)
            if pa is None or len(pa) != len(names):
                for n in names:
                    out.oblige(f'theorem {n}', False, 'Print Assumptions failed: ' + (raw or '')[-300:])
                proofs_ok = False
            else:
                for n, txt in zip(names, pa):
                    closed = txt.startswith('Closed under the global context')
                    out.oblige(f'theorem {n}', True, txt[:300])
                    out.assumption_text.append(f'{n}: {txt[:400]}')
                    if not closed:
                        out.assumptions.append(f'{n} depends on: {txt[:300]}')
    ctx = {
        'tier': a.tier, 'seed': seed, 'failed_files': failed_files, 'broken_tables': broken_tables,
        'proofs_ok': proofs_ok, 'make_log': log,
    }
    try:
        mod.run(ctx, out)
    except Exception:
        tb = traceback.format_exc()
        print(tb)
        out.violation(f'{prop}:harness-crash', 'the check itself crashed: ' + tb[-500:], {'traceback': tb}, no_input=True)

    # ---- something no longer checks and the quick streams found no failing input: search harder before giving up
    has_input = out.has_unlisted_input()
    alarm = bool(failed_files or broken_tables or bad_h or any(v['no_input'] for v in out.violations)
                 or any(not ok for _, ok, _ in out.obligations))
    if alarm and not has_input and a.tier == 'quick' and not os.environ.get('VERIF_NO_ESCALATE'):
        out2 = Outcome(prop, 'thorough', seed + 1)
        ctx2 = dict(ctx, tier='thorough', seed=seed + 1, escalated=True)
        try:
            mod.run(ctx2, out2)
        except Exception:
            pass
        listed = {f['signature'] for f in common.load_known().get('findings', []) if f.get('property') == prop}
        found = [v for v in out2.violations if not v['no_input'] and v['signature'] not in listed]
        out.extra['escalated_search'] = {'tier': 'thorough', 'seed': seed + 1, 'evaluations': out2.evaluations,
                                         'failing_inputs_found': len(found)}
        out.evaluations += out2.evaluations
        if found:
            # the broken obligations are named in the evidence; the report carries the failing inputs
            out.extra['escalated_search']['obligations_that_no_longer_check'] = [v['what'][:300] for v in out.violations if v['no_input']]
            out.violations = [v for v in out.violations if not v['no_input']]
        out.violations.extend(found)
        has_input = bool(found)
    # ---- a broken proof obligation with no concrete failing input found is still a violation
    if not has_input:
        for f, msg in failed_files.items():
            out.violation(f'{prop}:proof:{f}', f'proof obligation {f} no longer checks: {msg}',
                          {'theorem_file': f, 'message': msg}, no_input=True)
        for t, msg in broken_tables.items():
            out.violation(f'{prop}:reflect:{t}', f'translator failed closed on {t}: {msg}',
                          {'correspondence': f'reflect:{t}', 'message': msg}, no_input=True)
        for h in bad_h:
            out.violation(f'{prop}:hygiene', f'forbidden construct in the development: {h}', {'where': h}, no_input=True)
    sys.exit(out.finish())


if __name__ == '__main__':
    main()
