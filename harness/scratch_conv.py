import sys, random, json
sys.path.insert(0, '/verif/harness'); sys.path.insert(0, '/repo')
import common, convcases, terms
n = int(sys.argv[1]) if len(sys.argv) > 1 else 300
seed = int(sys.argv[2]) if len(sys.argv) > 2 else 1
depth = int(sys.argv[3]) if len(sys.argv) > 3 else 3
rng = random.Random(seed)
cases = convcases.make_cases(rng, n, 4, depth)
for c in cases: convcases.observe(c)
class O: pass
nr, bad, errs = convcases.correspond('SCR', cases, None)
print('cases', len(cases), 'rendered', nr, 'mismatch', len(bad), 'errs', len(errs))
for e in errs[:2]: print(e[:1500])
print(json.dumps(convcases.histograms(cases)))
for c in bad[:int(sys.argv[4]) if len(sys.argv)>4 else 3]:
    print('-----'); print(json.dumps(c.describe(), indent=1, default=str)[:1800])
    print(c.coq[:1500])
    print(convcases.model_says('SCR', c))
import collections
be = collections.Counter()
for c in cases:
    if c.try_obs[0]=='build-error': be[str(c.try_obs[1])[:150]]+=1
print(be.most_common(8))
import convprop
def still(cv, c):
    c2 = convcases.Case(c.term, c.built, cv, 'shrink'); convcases.observe(c2)
    nr2, bad2, e2 = convcases.correspond('SCR2', [c2], None)
    return bool(bad2)
for c in bad[:2]:
    v = convprop.shrink_case(c, lambda cv: still(cv, c), budget=50)
    c2 = convcases.Case(c.term, c.built, v, 'shrunk'); convcases.observe(c2); c2.coq = convcases.render(c2)
    print('=====SHRUNK', repr(v)); print('TYPE', c.built.py); print('TRY', convcases.obs_repr(c2.try_obs)); print('COL', convcases.obs_repr(c2.col_obs))
    print(convcases.model_says('SCR', c2))
