"""Hand-built families shared by several checks: each has its own oracle, independent of the Coq model."""
import itertools
import types as pytypes
import typing as t
import warnings

import terms


def _same(a, b):
    from props.c05 import canon
    return type(a) is type(b) and canon(a) == canon(b)


def noninit_tuple_family(out, prop, rng):
    """Dataclasses with an init=False field (not keyword-only, with a default) BEFORE other positional fields, read from the
    sequence layout.  Oracle: the sequence binds, in order, to the init fields only; each element is converted with the type of the
    field it binds to (pane's own converter for that type alone); the sequence is accepted iff every element is and the length
    is within the positional bounds; the mapping spelling of the same data gives the same instance."""
    import pane
    from pane.errors import ConvertError
    skipped_types = [str, float, t.Tuple[int, ...], bool, t.List[int]]
    next_types = [int, float, t.List[int], str, t.Tuple[int, ...]]
    pools = {int: [5, True, 2.5, 'x'], float: [5, 2.5, 'x', True], t.List[int]: [[2, 3], (4,), 'ab', [2.5]], str: ['abc', 3, b'x'],
             t.Tuple[int, ...]: [[2, 3], (4, 5), [1.5], 7]}
    defaults = {str: 'zz', float: 1.5, t.Tuple[int, ...]: (), bool: False, t.List[int]: None}
    n = 0
    with warnings.catch_warnings():
        warnings.simplefilter('ignore')
        for pos, zty, nty in itertools.product((0, 1), skipped_types, next_types):
            if zty is nty:
                continue
            fields = [('a', int, True)]
            fields.insert(pos, ('z', zty, False))
            fields += [('b', nty, True), ('c', str, True)]
            ann, ns = {}, {}
            for name, ty, init in fields:
                ann[name] = ty
                if not init:
                    ns[name] = pane.field(init=False, default_factory=list) if defaults[ty] is None else pane.field(init=False, default=defaults[ty])
            ns['c'] = 'end'
            ns['__annotations__'] = ann
            try:
                cls = pytypes.new_class(terms.fresh_name('Ni'), (pane.PaneBase,), {'in_format': ('tuple', 'struct')}, lambda d: d.update(ns))
            except TypeError:
                continue
            terms.KEEP.append(cls)
            init_fields = [(nm, ty) for nm, ty, init in fields if init]
            for a_val in (1,):
                for b_val in pools[nty]:
                    for extra in ((), ('tail',)):
                        seq = (a_val, b_val) + extra
                        n += 1
                        want, ok = {}, True
                        for (nm, ty), v in zip(init_fields, seq):
                            try:
                                want[nm] = pane.from_data(v, ty)
                            except ConvertError:
                                ok = False
                        label = f'{cls.__name__}(' + ', '.join(f'{nm}: {getattr(ty, "__name__", ty)}' + ('' if init else ' [init=False]') for nm, ty, init in fields) + ')'
                        try:
                            x = pane.from_data(list(seq), cls)
                            got_ok = True
                        except ConvertError:
                            got_ok = False
                        except Exception as e:
                            out.violation(f'{prop}:noninit-tuple:{type(e).__name__}', f'from_data({list(seq)!r}, {label}) raised {type(e).__name__}: {e}', {'class': label, 'value': repr(seq)})
                            continue
                        if got_ok != ok:
                            out.violation(f'{prop}:noninit-tuple:verdict', f'from_data({list(seq)!r}, {label}) was {"accepted" if got_ok else "refused"}; binding the elements in order to the init '
                                          f'fields {[nm for nm, _ in init_fields]} and converting each with its own field type says {"accept" if ok else "refuse"}'
                                          + (f' (got {x!r})' if got_ok else ''), {'class': label, 'value': repr(seq)})
                            continue
                        if ok:
                            # the field kept out of the constructor holds its default / a fresh product of its factory
                            zwant = [] if defaults[zty] is None else defaults[zty]
                            if not hasattr(x, 'z') or not _same(getattr(x, 'z'), zwant):
                                out.violation(f'{prop}:noninit-field-not-set', f'from_data({list(seq)!r}, {label}): the init=False field z is '
                                              f'{getattr(x, "z", "<no attribute>")!r}, expected its default {zwant!r}', {'class': label, 'value': repr(seq)})
                                continue
                            if defaults[zty] is None and getattr(x, 'z') is getattr(pane.from_data(list(seq), cls), 'z'):
                                out.violation(f'{prop}:noninit-factory-shared', f'{label}: two instances share the product of the default factory of z', {'class': label})
                                continue
                            try:
                                repr(x), x == x, x.into_data()
                            except Exception as e:
                                out.violation(f'{prop}:noninit:{type(e).__name__}', f'{label}: repr / == / into_data of {cls.__name__} built from {list(seq)!r} raised {type(e).__name__}: {e}', {'class': label})
                                continue
                            bad = [nm for nm in want if not _same(getattr(x, nm), want[nm])]
                            if bad:
                                out.violation(f'{prop}:noninit-tuple:value', f'from_data({list(seq)!r}, {label}) = {x!r}: field {bad[0]} should be {want[bad[0]]!r} '
                                              f'(the element converted with the type of the field it binds to)', {'class': label, 'value': repr(seq)})
                                continue
                            y = pane.from_data(dict(zip([nm for nm, _ in init_fields], seq)), cls)
                            if not _same(x, y):
                                out.violation(f'{prop}:noninit-tuple:layouts-disagree', f'{label}: sequence {list(seq)!r} gives {x!r}, the mapping spelling gives {y!r}', {'class': label})
    return n


def _msg(e):
    try:
        return str(e)[:200]
    except Exception as e2:
        return f'<rendering the {type(e).__name__} raised {type(e2).__name__}: {e2}>'


def construction_paths_family(out, prop):
    """Defaults, factories and hooks on every construction path (constructor by position / by keyword, make_unchecked, mapping data,
    sequence data).  Oracle: a field that was not supplied holds its declared default -- the very object for default=, a FRESH
    product for default_factory -- whatever was built before; a hook that assigns a field of a non-frozen class runs once on
    every path and its effect is visible; all paths give equal instances."""
    import pane
    from pane.errors import ConvertError
    n = 0

    def ident(v):
        return v

    class Bag(pane.PaneBase, in_format=('tuple', 'struct')):
        name: str
        items: t.List[int] = pane.field(default_factory=list)
        index: t.Dict[str, int] = pane.field(default_factory=dict)
        key: t.Any = ident                      # a function as a plain default: must come back as itself, not bound
        limit: t.Optional[int] = None

    class Box(pane.PaneBase, frozen=False, in_format=('tuple', 'struct')):
        width: int
        height: int
        area: int = 0

        def __post_init__(self):
            self.area = self.width * self.height
    paths = {
        'constructor by position': lambda: Bag('b'), 'constructor by keyword': lambda: Bag(name='b'), 'make_unchecked': lambda: Bag.make_unchecked('b'),
        'mapping data': lambda: pane.from_data({'name': 'b'}, Bag), 'sequence data': lambda: pane.from_data(['b'], Bag),
        'nested sequence data': lambda: pane.from_data([['b']], t.List[Bag])[0], 'convert': lambda: pane.convert({'name': 'b'}, Bag),
    }
    with warnings.catch_warnings():
        warnings.simplefilter('ignore')
        made = {}
        for label, mk in paths.items():
            n += 1
            try:
                a = mk()
                a.items.append(7)
                a.index['seven'] = 7
                b = mk()
            except Exception as e:
                out.violation(f'{prop}:construction-paths:{type(e).__name__}', f'{label}: {type(e).__name__}: {_msg(e)}', {'path': label})
                continue
            made[label] = b
            if b.items != [] or b.index != {} or b.items is a.items or b.index is a.index:
                out.violation(f'{prop}:default-factory-shared', f'{label}: a second instance has items={b.items!r}, index={b.index!r} after the first one\'s were modified '
                              '(each instance must get a fresh product of the factory)', {'path': label})
            if b.key is not ident or b.limit is not None:
                out.violation(f'{prop}:default-not-stored', f'{label}: the unsupplied field key is a {type(b.key).__name__}, expected its default (the function ident itself); limit={b.limit!r}', {'path': label})
            if set(b.__pane_set__) != {'name'}:
                out.violation(f'{prop}:set-record', f'{label}: set-field record {sorted(b.__pane_set__)}, only name was supplied', {'path': label})
        # the hook of a non-frozen class assigns a field
        hook_paths = {
            'constructor': lambda: Box(2, 3), 'constructor by keyword': lambda: Box(width=2, height=3), 'make_unchecked': lambda: Box.make_unchecked(2, 3),
            'mapping data': lambda: pane.from_data({'width': 2, 'height': 3}, Box), 'sequence data': lambda: pane.from_data([2, 3], Box),
            'nested mapping data': lambda: pane.from_data({'k': [{'width': 2, 'height': 3}]}, t.Dict[str, t.List[Box]])['k'][0],
            'copy': lambda: __import__('copy').copy(Box(2, 3)), 'replace': lambda: Box(2, 1).__replace__(height=3),
        }
        for label, mk in hook_paths.items():
            n += 1
            try:
                b = mk()
            except Exception as e:
                out.violation(f'{prop}:hook-assigning-field:{type(e).__name__}', f'{label}: building Box(width=2, height=3), whose __post_init__ assigns self.area, raised '
                              f'{type(e).__name__}: {_msg(e)}', {'path': label})
                continue
            if (b.width, b.height, b.area) != (2, 3, 6):
                out.violation(f'{prop}:hook-assigning-field', f'{label}: got {b!r}, expected Box(width=2, height=3, area=6)', {'path': label})
        # fields supplied under another input name (alias, in_names, rename, class-level style): the record holds FIELD names
        class Job(pane.PaneBase, in_rename=('snake', 'camel')):
            name: str
            max_retries: int = pane.field(default=3, aliases=['retries'])
            tags: t.List[str] = pane.field(default_factory=list, in_names=['labels'])
            note: str = pane.field(default='', rename='remark')
            run_count: int = 0
        named = {
            'alias': ({'name': 'b', 'retries': 5}, {'name', 'max_retries'}), 'in_names': ({'name': 'b', 'labels': ['x']}, {'name', 'tags'}),
            'field rename': ({'name': 'b', 'remark': 'r'}, {'name', 'note'}), 'class-level camel': ({'name': 'b', 'runCount': 2}, {'name', 'run_count'}),
            'class-level snake': ({'name': 'b', 'run_count': 2}, {'name', 'run_count'}), 'camel of the alias target': ({'name': 'b', 'maxRetries': 4}, {'name', 'max_retries'}),
        }
        for label, (data, want) in named.items():
            for how, mk in (('mapping data', lambda: pane.from_data(data, Job)), ('nested mapping data', lambda: pane.from_data([data], t.List[Job])[0]),
                            ('union member', lambda: pane.from_data(data, t.Union[int, Job]))):
                n += 1
                try:
                    j = mk()
                    rec = set(j.__pane_set__)
                    so = j.dict(set_only=True)
                    again = j.__replace__()
                    cp = __import__('copy').copy(j)
                except Exception as e:
                    out.violation(f'{prop}:input-names:{type(e).__name__}', f'{label} ({how}): {data!r} raised {type(e).__name__}: {_msg(e)}', {'path': how, 'case': label})
                    continue
                if rec != want or set(so) != want or not (again == j) or set(again.__pane_set__) != want or set(cp.__pane_set__) != want:
                    out.violation(f'{prop}:input-names:set-record', f'{label} ({how}): from {data!r} the set-field record is {sorted(rec)}, dict(set_only=True) = {so!r}, '
                                  f'replace() = {again!r} / {sorted(again.__pane_set__)}; the supplied FIELDS are {sorted(want)} and {j!r} must come back', {'path': how, 'case': label})
        # a field with its own converter: the constructor and from_data of the same fields give equal instances
        if prop == 'C14':
            from pane.converters import Converter

            class Up(Converter):
                def expected(self, plural=False):
                    return 'text'

                def into_data(self, v):
                    return v

                def try_convert(self, v):
                    if not isinstance(v, str):
                        from pane.converters import ParseInterrupt
                        raise ParseInterrupt()
                    return v.upper()

                def collect_errors(self, v):
                    from pane.errors import WrongTypeError
                    return None if isinstance(v, str) else WrongTypeError('text', v)

            class Named(pane.PaneBase):
                x: str = pane.field(converter=Up())
            n += 1
            try:
                a, b = Named('a'), Named.from_data({'x': 'a'})
                if not (a == b):
                    out.violation('C14:constructor-ignores-field-converter', f'Named(\'a\') = {a!r} but Named.from_data({{\'x\': \'a\'}}) = {b!r}: the field x has its own converter '
                                  '(upper-casing), which the constructor does not use', {'case': 'field converter'})
            except Exception as e:
                out.violation(f'C14:field-converter:{type(e).__name__}', f'class with a field converter: {type(e).__name__}: {_msg(e)}', {'case': 'field converter'})
        # a hook that reads the set-field record: it sees the same record on every path (what was supplied, nothing else)
        seen = []

        class Watch(pane.PaneBase, in_format=('tuple', 'struct')):
            x: int
            y: int = 0
            z: t.Optional[str] = None

            def __post_init__(self):
                seen.append(sorted(self.__pane_set__))
                if 'z' in self.__pane_set__ and self.z is None:
                    raise ValueError('z was given as None')
        watch_paths = {
            'constructor': (lambda: Watch(1), ['x']), 'constructor by keyword': (lambda: Watch(x=1, y=2), ['x', 'y']), 'make_unchecked': (lambda: Watch.make_unchecked(1), ['x']),
            'mapping data': (lambda: pane.from_data({'x': 1}, Watch), ['x']), 'mapping data with y': (lambda: pane.from_data({'x': 1, 'y': 2}, Watch), ['x', 'y']),
            'sequence data': (lambda: pane.from_data([1], Watch), ['x']), 'Watch.from_data': (lambda: Watch.from_data({'x': 1}), ['x']),
            'nested mapping data': (lambda: pane.from_data([{'x': 1}], t.List[Watch])[0], ['x']),
            'union member': (lambda: pane.from_data({'x': 1}, t.Union[int, Watch]), ['x']),
            'copy': (lambda: __import__('copy').copy(Watch(1)), ['x']), 'replace': (lambda: Watch(1).__replace__(y=2), ['x', 'y']),
        }
        for label, (mk, want) in watch_paths.items():
            n += 1
            del seen[:]
            try:
                b = mk()
            except Exception as e:
                out.violation(f'{prop}:hook-reading-set-record:{type(e).__name__}', f'{label}: building Watch(x=1, ...), whose __post_init__ reads self.__pane_set__, raised '
                              f'{type(e).__name__}: {_msg(e)} (the hook saw {seen})', {'path': label})
                continue
            if not seen or any(s_ != want for s_ in seen[-1:]) or sorted(b.__pane_set__) != want:
                out.violation(f'{prop}:hook-reading-set-record', f'{label}: the hook saw the set-field record {seen}, the instance ends with {sorted(b.__pane_set__)}, '
                              f'supplied were {want}', {'path': label})
        # hooks whose verdict depends on WHICH fields were given: the two passes and every path must agree
        from pane.convert import make_converter as _mk

        class Limits(pane.PaneBase, in_format=('tuple', 'struct')):
            lo: float = 0.0
            hi: float = 1.0

            def __post_init__(self):
                if not ({'lo', 'hi'} & set(self.__pane_set__)):
                    raise ValueError('give at least one of lo, hi')

        class Grid(pane.PaneBase):
            rows: int = 1
            cols: int = 1
            cells: int = 1

            def __post_init__(self):
                if 'cells' in self.__pane_set__ and ({'rows', 'cols'} & set(self.__pane_set__)):
                    raise ValueError('cells excludes rows / cols')
        for cls, data, want in ((Limits, {}, False), (Limits, {'lo': 0.5}, True), (Limits, {'hi': 2.0, 'lo': 1.0}, True), (Limits, [], False), (Limits, [0.5], True),
                                (Grid, {'cols': 100}, True), (Grid, {'cells': 9}, True), (Grid, {'cells': 9, 'rows': 3}, False), (Grid, {}, True)):
            for how, T, d, pick in (('top', cls, data, lambda r: r), ('list element', t.List[cls], [data], lambda r: r[0]), ('optional', t.Optional[cls], data, lambda r: r)):
                n += 1
                conv = _mk(T)
                try:
                    tv = ('ok', conv.try_convert(d))
                except Exception as e:
                    tv = ('reject' if type(e).__name__ == 'ParseInterrupt' else 'escape:' + type(e).__name__, None)
                try:
                    cv = conv.collect_errors(d)
                    cv = 'none' if cv is None else 'tree'
                except Exception as e:
                    cv = 'escape:' + type(e).__name__
                try:
                    pane.from_data(d, T)
                    fd = 'ok'
                except ConvertError:
                    fd = 'ConvertError'
                except Exception as e:
                    fd = type(e).__name__
                exp = ('ok', 'none', 'ok') if want else ('reject', 'tree', 'ConvertError')
                if (tv[0], cv, fd) != exp:
                    out.violation(f'{prop}:hook-depending-on-set-record', f'{cls.__name__} ({how}) from {d!r}: try_convert {tv[0]}, collect_errors {cv}, from_data {fd}; '
                                  f'the hook {"accepts" if want else "refuses"} this set of given fields, so the three must be {exp}', {'class': cls.__name__, 'data': repr(d), 'context': how})
        n += 1
        try:
            pane.from_data({'x': 1, 'z': None}, Watch)
            out.violation(f'{prop}:hook-reading-set-record', 'mapping data with z: None was accepted although the hook refuses an explicit None', {'path': 'z given'})
        except ConvertError:
            pass
        except Exception as e:
            out.violation(f'{prop}:hook-reading-set-record:{type(e).__name__}', f'mapping data with z: None raised {type(e).__name__}: {_msg(e)}', {'path': 'z given'})
    return n


def same_class_union_serialisation(out, prop):
    """Untagged unions whose members accept values of the SAME Python class and differ only in the contents they accept
    (List[int] | List[float], two tuple lengths, Dict[str, int] | Dict[str, Fraction], Literal | float).  Every value, in every
    order of serialisation through the same (memoised) converter, is written as its own left-most accepting member writes it."""
    import fractions
    import pane
    from pane.convert import make_converter
    from pane.converters import ParseInterrupt
    n = 0
    fams = [
        (t.Union[t.List[int], t.List[float]], [[1, 2], [1.5, 2.5], [], [3]]),
        (t.Union[t.Tuple[int, int], t.Tuple[int, int, int]], [(1, 2), (1, 2, 3), (4, 5)]),
        (t.Union[t.Dict[str, int], t.Dict[str, fractions.Fraction]], [{'a': 1}, {'a': fractions.Fraction(1, 3)}, {'b': 2}]),
        (t.Union[t.Literal[1], float], [1, 2.0, 1]),
        (t.Union[t.List[t.Literal['a']], t.List[str]], [['a'], ['b', 'a'], ['a', 'a']]),
    ]
    import itertools
    with warnings.catch_warnings():
        warnings.simplefilter('ignore')
        for U, vals in fams:
            members = [type(None) if a is None else a for a in t.get_args(U)]

            def own(v):
                for m in members:
                    cv = make_converter(m)
                    try:
                        cv.try_convert(v)
                        return cv.into_data(v)
                    except ParseInterrupt:
                        continue
                return None
            want = [own(v) for v in vals]

            class Holder(pane.PaneBase):
                u: U
                us: t.List[U] = pane.field(default_factory=list)
            for order in itertools.permutations(range(len(vals))):
                got = {}
                for i in order:
                    n += 1
                    got[i] = pane.into_data(vals[i], U)
                bad = [i for i in order if got[i] != want[i] or type(got[i]) is not type(want[i])]
                if bad:
                    i = bad[0]
                    out.violation(f'{prop}:same-class-union-serialisation', f'into_data({vals[i]!r}, {U!r}) = {got[i]!r} after serialising {[vals[j] for j in order[:order.index(i)]]!r} '
                                  f'through the same converter; its left-most accepting member writes {want[i]!r}', {'union': repr(U), 'order': [repr(vals[j]) for j in order]})
                    break
            n += 1
            h = Holder.make_unchecked(vals[0], list(vals))
            d = h.into_data()
            if d['us'] != want or d['u'] != want[0]:
                out.violation(f'{prop}:same-class-union-serialisation', f'a dataclass with u: {U!r} and us: List[...] holding {vals!r} serialises to {d!r}; expected u={want[0]!r}, us={want!r}',
                              {'union': repr(U)})
    return n


def scalar_subclass_family(out, prop):
    """Targets that are SUBCLASSES of the scalar types (class MyStr(str), MyBytes(bytes), MyInt(int), MyFloat(float)): they read
    what their base type reads -- never a sequence of elements -- and return an instance of the subclass holding the base's value;
    in every embedding context."""
    import pane
    from pane.errors import ConvertError
    n = 0

    class MyStr(str):
        pass

    class MyBytes(bytes):
        pass

    class MyInt(int):
        pass

    class MyFloat(float):
        pass
    table = [
        (MyStr, str, ['abc', '', 'ü'], [['a', 'b'], ('a',), 5, b'ab', None, {'a': 1}, [], 1.5]),
        (MyBytes, bytes, [b'ab', bytearray(b'q'), b''], [[1, 2], 'x', 5, (1,), None, []]),
        (MyInt, int, [5, True, 0], ['5', 2.5, [5], None, b'5']),
        (MyFloat, float, [1.5, 2, True], ['1.5', [1.5], None, 1j]),
    ]
    with warnings.catch_warnings():
        warnings.simplefilter('ignore')
        for sub, base, goods, bads in table:
            class Holder(pane.PaneBase):
                f: sub
            contexts = [('top', sub, lambda v: v, lambda r: r), ('list element', t.List[sub], lambda v: [v], lambda r: r[0]),
                        ('mapping value', t.Dict[str, sub], lambda v: {'k': v}, lambda r: r['k']), ('optional', t.Optional[sub], lambda v: v, lambda r: r),
                        ('dataclass field', Holder, lambda v: {'f': v}, lambda r: r.f), ('union member', t.Union[sub, t.List[int]], lambda v: v, lambda r: r)]
            for label, ty, wrap, unwrap in contexts:
                for v in goods:
                    n += 1
                    try:
                        r = unwrap(pane.from_data(wrap(v), ty))
                    except Exception as e:
                        out.violation(f'{prop}:scalar-subclass:rejects-base-value', f'{label}: from_data({wrap(v)!r}, {ty!r}) raised {type(e).__name__}; {sub.__name__} is a {base.__name__} '
                                      f'and {base.__name__} reads {v!r}', {'target': sub.__name__, 'context': label, 'value': repr(v)})
                        continue
                    if type(r) is not sub or base(r) != base(v):
                        out.violation(f'{prop}:scalar-subclass:wrong-image', f'{label}: from_data({wrap(v)!r}, {ty!r}) gave {r!r} of class {type(r).__name__}, expected {sub.__name__}({base(v)!r})',
                                      {'target': sub.__name__, 'context': label, 'value': repr(v)})
                for v in bads:
                    if label in ('optional',) and v is None:
                        continue
                    if label == 'union member' and isinstance(v, (list, tuple)) and all(type(e) is int for e in v):
                        continue
                    n += 1
                    try:
                        r = pane.from_data(wrap(v), ty)
                    except ConvertError:
                        continue
                    except Exception as e:
                        out.violation(f'{prop}:scalar-subclass:{type(e).__name__}', f'{label}: from_data({wrap(v)!r}, {ty!r}) raised {type(e).__name__}: {e}', {'target': sub.__name__})
                        continue
                    out.violation(f'{prop}:scalar-subclass:cross-kind-accepted', f'{label}: from_data({wrap(v)!r}, {ty!r}) = {r!r}: {base.__name__} does not read a '
                                  f'{type(v).__name__}, so {sub.__name__} must not either', {'target': sub.__name__, 'context': label, 'value': repr(v)})
    return n


def noninit_roundtrip_family(out, prop):
    """Dataclasses with a field kept out of the constructor (init=False, default or factory, first / last / between positional
    fields), both output layouts: the serialised form is read back to an equal instance, convert(x, type(x)) returns an equal
    instance, and an instance is accepted as a field value by the constructor of an enclosing dataclass and inside containers."""
    import pane
    from pane.errors import ConvertError
    n = 0
    for out_fmt in ('struct', 'tuple'):
        for pos in ('first', 'last', 'middle'):
            ann, ns = {}, {}
            names = ['x', 'y']
            names.insert({'first': 0, 'last': 2, 'middle': 1}[pos], 'n')
            for nm in names:
                if nm == 'n':
                    ann[nm] = t.List[int]
                    ns[nm] = pane.field(init=False, default_factory=list)
                elif nm == 'x':
                    ann[nm] = int
                else:
                    ann[nm] = str
                    ns[nm] = 'a'
            ns['__annotations__'] = ann
            cls = type('Ni' + out_fmt.title() + pos.title(), (pane.PaneBase,), ns, out_format=out_fmt, in_format=('tuple', 'struct'))

            class Holder(pane.PaneBase):
                item: cls
                items: t.List[cls] = pane.field(default_factory=list)
            with warnings.catch_warnings():
                warnings.simplefilter('ignore')
                for label, call in (
                        ('from_data(into_data(x))', lambda x: pane.from_data(pane.into_data(x, cls), cls)), ('convert(x, type(x))', lambda x: pane.convert(x, cls)),
                        ('convert([x], List)', lambda x: pane.convert([x], t.List[cls])[0]), ('Holder(item=x).item', lambda x: Holder(item=x, items=[x]).item),
                        ('Holder round trip', lambda x: Holder.from_data(Holder(x, [x]).into_data()).items[0])):
                    for x in (cls(1), cls(2, 'b'), cls(x=3)):
                        n += 1
                        try:
                            y = call(x)
                        except Exception as e:
                            out.violation(f'{prop}:init-false-field:{type(e).__name__}', f'{label} for {x!r} (out_format={out_fmt!r}, field n has init=False) raised '
                                          f'{type(e).__name__}: {_msg(e)}; serialised form {pane.into_data(x, cls)!r}', {'call': label, 'out_format': out_fmt, 'position': pos})
                            break
                        if not (y == x) or type(y) is not type(x):
                            out.violation(f'{prop}:init-false-field', f'{label} for {x!r} (out_format={out_fmt!r}) gave {y!r}', {'call': label, 'out_format': out_fmt, 'position': pos})
                            break
    return n


def generic_parameter_twins(out, prop):
    """One generic dataclass parameterised, in one process, with two type expressions that `==` identifies but that differ in the
    order of union members or literal values -- at the top of the parameter and nested inside containers that typing does not
    intern (list[...], dict[...], tuple[...]) -- in both creation orders.  Each specialisation behaves as if it were the only
    one: the left-most accepting member of ITS union wins, its error message lists ITS literal values in ITS order.  Also:
    parameters that are not plain classes (Callable with a parameter list, empty tuple, Ellipsis forms) can be used at all."""
    import pane
    from pane.errors import ConvertError
    T = t.TypeVar('T')
    n = 0
    IF, FI = t.Union[int, float], t.Union[float, int]
    pairs = [
        ('Union at the top', IF, FI, 1, (1, 1.0), None),
        ('Union inside list[...]', list[IF], list[FI], [1], ([1], [1.0]), None),
        ('Union inside dict[str, ...]', dict[str, IF], dict[str, FI], {'k': 1}, ({'k': 1}, {'k': 1.0}), None),
        ('Union inside tuple[..., str]', tuple[IF, str], tuple[FI, str], [1, 'a'], ((1, 'a'), (1.0, 'a')), None),
        ('Union two levels down', list[dict[str, IF]], list[dict[str, FI]], [{'k': 1}], ([{'k': 1}], [{'k': 1.0}]), None),
        # (typing.Optional[...] / typing.Union[...] are interned by typing BY EQUALITY: only the PEP 604 spelling gives two objects)
        ('X | None of a list of unions', list[t.Union[bool, int]] | None, list[t.Union[int, bool]] | None, [True], ([True], [1]), None),
        ('Literal values', t.Literal[1, 2], t.Literal[2, 1], 3, None, ('1 or 2', '2 or 1')),
        ('Literal values inside list[...]', list[t.Literal['a', 'b']], list[t.Literal['b', 'a']], ['c'], None, ("'a' or 'b'", "'b' or 'a'")),
    ]
    with warnings.catch_warnings():
        warnings.simplefilter('ignore')
        for label, p1, p2, probe, wants, texts in pairs:
            for order in ((0, 1), (1, 0)):
                class G(pane.PaneBase, t.Generic[T]):
                    u: T
                params = (p1, p2)
                made = {}
                for i in order:
                    n += 1
                    try:
                        made[i] = G[params[i]]
                    except Exception as e:
                        out.violation(f'{prop}:generic-parameter:{type(e).__name__}', f'{label}: G[{params[i]!r}] raised {type(e).__name__}: {_msg(e)}', {'case': label})
                for i, cls in made.items():
                    n += 1
                    when = 'first' if i == order[0] else f'after G[{params[order[0]]!r}]'
                    try:
                        r = cls.from_data({'u': probe}).u
                        if wants is None:
                            out.violation(f'{prop}:generic-parameter-twins', f'{label}: G[{params[i]!r}] accepted {probe!r}', {'case': label})
                        elif repr(r) != repr(wants[i]):
                            out.violation(f'{prop}:generic-parameter-twins', f'{label}: G[{params[i]!r}] (created {when}) converts u={probe!r} to {r!r}; on its own it gives '
                                          f'{wants[i]!r} (left-most accepting member)', {'case': label, 'created': when})
                    except ConvertError as e:
                        msg = _msg(e)
                        if wants is not None:
                            out.violation(f'{prop}:generic-parameter-twins', f'{label}: G[{params[i]!r}] (created {when}) rejected {probe!r}: {msg}', {'case': label})
                        elif texts[i] not in str(e):
                            out.violation(f'{prop}:generic-parameter-twins', f'{label}: the message of G[{params[i]!r}] (created {when}) for u={probe!r} does not list the values as '
                                          f'{texts[i]!r}: {str(e)[-120:]!r}', {'case': label, 'created': when})
                    except Exception as e:
                        out.violation(f'{prop}:generic-parameter:{type(e).__name__}', f'{label}: G[{params[i]!r}].from_data raised {type(e).__name__}: {_msg(e)}', {'case': label})

        class H(pane.PaneBase, t.Generic[T]):
            u: t.Optional[T] = None
        import collections.abc
        for label, param in (('Callable[[int], str]', t.Callable[[int], str]), ('Callable[..., int]', t.Callable[..., int]), ('collections.abc.Callable[[int, str], None]', collections.abc.Callable[[int, str], None]),
                             ('Tuple[()]', t.Tuple[()]), ('Tuple[int, ...]', t.Tuple[int, ...]), ('Annotated[int, "meta"]', t.Annotated[int, 'meta'])):
            n += 1
            try:
                a, b = H[param], H[param]
                a()
            except Exception as e:
                out.violation(f'{prop}:generic-parameter:{type(e).__name__}', f'H[{label}] raised {type(e).__name__}: {_msg(e)}', {'case': label})
    return n


def positional_bounds_family(out, prop):
    """The sequence (tuple) layout: a sequence of length L is accepted exactly when  required <= L <= positional,  where
    `positional` counts the constructor's positional fields and `required` those of them without ANY default (a plain default and a
    default factory both make a field optional); elements bind in declaration order, the rest take their defaults (a fresh product
    for a factory).  Classes mixing required / default / factory / init=False / keyword-only fields."""
    import pane
    from pane.errors import ConvertError
    n = 0
    R, D, F, N, K = 'required', 'default', 'factory', 'noninit', 'kwonly'
    shapes = [(R,), (R, D), (R, F), (R, D, F), (R, F, D), (R, R, F), (F,), (D, F), (F, F), (R, N, F), (N, R, D), (R, F, K), (R, D, K, K), (R, R), (R, N, D, F, K)]
    for shape in shapes:
        ann, ns = {}, {}
        pos = []
        kw_started = False
        for i, kind in enumerate(shape):
            nm = f'f{i}'
            if kind == K and not kw_started:
                ann['_kw'] = pane.KW_ONLY
                kw_started = True
            if kind == F or (kind == N and i % 2):
                ann[nm] = t.List[int]
            else:
                ann[nm] = int
            if kind == D or kind == K:
                ns[nm] = 10 + i
            elif kind == F:
                ns[nm] = pane.field(default_factory=list)
            elif kind == N:
                ns[nm] = pane.field(init=False, default_factory=list) if i % 2 else pane.field(init=False, default=-1)
            if kind in (R, D, F):
                pos.append((nm, kind, i))
        ns['__annotations__'] = ann
        try:
            cls = type('Pb' + ''.join(k[0].upper() for k in shape), (pane.PaneBase,), ns, in_format=('tuple', 'struct'))
        except TypeError:
            continue
        lo = sum(1 for _, k, _ in pos if k == R)
        hi = len(pos)
        with warnings.catch_warnings():
            warnings.simplefilter('ignore')
            for L in range(0, hi + 2):
                for mk in (list, tuple):
                    n += 1
                    data = mk([[7] if k == F else 1 + j for j, (_, k, _) in enumerate(pos[:L])] + [5] * max(0, L - hi))
                    want = lo <= L <= hi
                    try:
                        x = cls.from_data(data)
                        got = True
                    except ConvertError as e:
                        got, err = False, _msg(e)
                    except Exception as e:
                        out.violation(f'{prop}:positional-bounds:{type(e).__name__}', f'fields {shape}: from_data({data!r}) raised {type(e).__name__}: {_msg(e)}', {'fields': list(shape), 'data': repr(data)})
                        continue
                    if got != want:
                        out.violation(f'{prop}:positional-bounds', f'fields {shape}: a sequence of length {L}, {data!r}, is {"accepted" if got else "rejected (" + err + ")"}; '
                                      f'{lo} positional field(s) have no default and {hi} are positional, so lengths {lo}..{hi} are the accepted ones', {'fields': list(shape), 'data': repr(data)})
                        continue
                    if got:
                        for j, (nm, k, i) in enumerate(pos):
                            wantv = data[j] if j < L else ([] if k == F else 10 + i)
                            if getattr(x, nm) != (list(wantv) if isinstance(wantv, list) else wantv):
                                out.violation(f'{prop}:positional-bounds:binding', f'fields {shape}: from_data({data!r}) gave {x!r}: field {nm} should hold {wantv!r}', {'fields': list(shape), 'data': repr(data)})
                                break
                        y = cls.from_data(data)
                        for nm, k, i in pos:
                            if k == F and getattr(x, nm) is getattr(y, nm):
                                out.violation(f'{prop}:positional-bounds:shared-factory-product', f'fields {shape}: two conversions of {data!r} share the list in field {nm}', {'fields': list(shape)})
    return n


def struct_mapping_family(out, prop):
    """The mapping (struct) layout of a dataclass, decided from the class declaration alone, for classes with and without
    allow_extra, with renamed / aliased / in_names fields, required / default / factory fields and defaults that are NOT of the
    field's kind.  For every mapping built from: a subset of the fields (under every input name), 0-4 unknown keys, both names
    of one field at once, the default object itself as an explicit value:
      accepted  <=>  every key names a field (or allow_extra) and no field is named twice and no required field is absent and
                     every given value is a member of its field's type;
    then the given fields hold the converted values, the others their defaults (a fresh product for a factory), and the
    set-field record is the given FIELDS.  try_convert, collect_errors and from_data agree, and an exact `dict` passed in is
    left as it was (same keys, same values) whether or not the conversion succeeds."""
    import itertools
    import pane
    from pane.convert import make_converter
    from pane.errors import ConvertError
    n = 0
    UNSET = 'unset'

    class Plain(pane.PaneBase, allow_extra=True):
        name: str
        retries: int
        tags: t.List[str] = pane.field(default_factory=list)
        note: str = 'n'

    class Strict(pane.PaneBase):
        name: str
        port: int = 8080
        debug: bool = False
        weight: float = 1.0

    class Renamed(pane.PaneBase):
        x: int
        label: str = pane.field(rename='name', default='l')
        other: int = pane.field(in_names=['A'], default=0)

    class Camel(pane.PaneBase, rename='camel', allow_extra=True):
        first_name: str
        last_name: str = 'x'

    class Aliased(pane.PaneBase):
        x: int = pane.field(aliases=['X', 'ex'])
        y: int = 0

    class Bagged(pane.PaneBase):
        items: t.Any = pane.field(default=None, aliases=['entries', 'more'])
        n: int = 0

    class Odd(pane.PaneBase):
        key: str
        retries: int = None          # defaults are stored verbatim: these are not members of the field types
        verbose: bool = 0
        limit: float = UNSET
        text: str = None
    members_by = {str: 'v', int: 3, bool: True, float: 2.5}

    class _M(dict):
        def __missing__(self, ty):
            return members_by.get(ty, ['t'])
    members = _M()
    with warnings.catch_warnings():
        warnings.simplefilter('ignore')
        for cls in (Plain, Strict, Renamed, Camel, Aliased, Bagged, Odd):
            info = cls.__pane_info__
            conv = make_converter(cls)
            fields = [f for f in info.fields if f.init]
            keys_of = {f.name: list(dict.fromkeys([f.name, *f.in_names])) for f in fields}
            required = [f.name for f in fields if not f.has_default()]
            subsets = [s for r in range(len(fields) + 1) for s in itertools.combinations(range(len(fields)), r)]
            for sub in subsets:
                given = [fields[i] for i in sub]
                variants = [{}]
                # each given field under each of its input names (first field varies, the others use their first name)
                name_choices = [[(f, k) for k in keys_of[f.name]] if j == 0 else [(f, keys_of[f.name][-1])] for j, f in enumerate(given)]
                for combo in itertools.product(*name_choices):
                    for extra in (0, 1, 2, 4):
                        for mode in ('member', 'default-object', 'twice'):
                            d = {}
                            ok_values = True
                            named_twice = False
                            for f, k in combo:
                                v = members[f.type]
                                if mode == 'default-object' and f.has_default() and f.default_factory is None:
                                    v = f.default
                                    try:
                                        pane.from_data(v, f.type)
                                    except Exception:
                                        ok_values = False
                                d[k] = v
                            if mode == 'twice':
                                if not combo or len(keys_of[combo[0][0].name]) < 2:
                                    continue
                                f0 = combo[0][0]
                                for k in keys_of[f0.name]:
                                    d[k] = members[f0.type]
                                named_twice = True
                            for e in range(extra):
                                d[f'unknown_{e}'] = e
                            want = ok_values and not named_twice and (extra == 0 or info.opts.allow_extra) and all(r in {f.name for f, _ in combo} for r in required)
                            n += 1
                            before_keys, before_vals = list(d), [repr(x) for x in d.values()]
                            try:
                                x = cls.from_data(d)
                                got = True
                            except ConvertError:
                                got, x = False, None
                            except Exception as e:
                                out.violation(f'{prop}:struct-mapping:{type(e).__name__}', f'{cls.__name__}.from_data({d!r}) raised {type(e).__name__}: {_msg(e)}', {'class': cls.__name__, 'data': repr(d)})
                                continue
                            if list(d) != before_keys or [repr(v) for v in d.values()] != before_vals:
                                out.violation(f'{prop}:struct-mapping:input-changed', f'{cls.__name__}.from_data left the dict passed in as {d!r}; it had the keys {before_keys}', {'class': cls.__name__, 'keys': before_keys})
                                continue
                            try:
                                tv = ('ok', conv.try_convert(dict(d)))
                            except Exception as e:
                                tv = ('reject' if type(e).__name__ == 'ParseInterrupt' else 'escape', None)
                            try:
                                cv = conv.collect_errors(dict(d))
                            except Exception as e:
                                cv = e
                            if (tv[0] == 'ok') != (cv is None):
                                out.violation(f'{prop}:struct-mapping:passes-disagree', f'{cls.__name__}: try_convert of {d!r} gives {tv[0]}, collect_errors gives {cv!r}', {'class': cls.__name__, 'data': repr(d)})
                                continue
                            if not got and not isinstance(cv, Exception) and cv is not None:
                                # the diagnostic tree of a rejected mapping: a product node whose `missing` is exactly the required
                                # fields that no key names, whose `extra` is exactly the unknown keys (none under allow_extra)
                                absent = {r for r in required if r not in {f.name for f, _ in combo}}
                                unknown = set() if info.opts.allow_extra else {k for k in d if k.startswith('unknown_')}
                                m_got, e_got = getattr(cv, 'missing', None), getattr(cv, 'extra', None)
                                if m_got is None or set(m_got) != absent or set(e_got) != unknown:
                                    out.violation(f'{prop}:struct-mapping:tree', f'{cls.__name__}: the error tree for {d!r} has missing={sorted(m_got) if m_got is not None else None}, '
                                                  f'extra={sorted(map(str, e_got)) if e_got is not None else None}; absent required fields are {sorted(absent)}, unknown keys {sorted(unknown)} '
                                                  f'(tree: {type(cv).__name__})', {'class': cls.__name__, 'data': repr(d)})
                                    continue
                            if got != want:
                                why = ('a field is named twice' if named_twice else 'unknown keys' if extra and not info.opts.allow_extra else
                                       'a required field is absent' if not all(r in {f.name for f, _ in combo} for r in required) else 'a value is not a member of its field type' if not ok_values else 'nothing is wrong with it')
                                out.violation(f'{prop}:struct-mapping', f'{cls.__name__}.from_data({d!r}) is {"accepted -> " + repr(x) if got else "rejected"}; {why} '
                                              f'(required {required}, allow_extra={info.opts.allow_extra})', {'class': cls.__name__, 'data': repr(d)})
                                continue
                            if got:
                                gf = {f.name for f, _ in combo}
                                for f in fields:
                                    if not hasattr(x, f.name):
                                        out.violation(f'{prop}:struct-mapping:field-not-set', f'{cls.__name__}.from_data({d!r}) returned an instance without the field {f.name}', {'class': cls.__name__, 'data': repr(d)})
                                        break
                                    val = getattr(x, f.name)
                                    if f.name in gf:
                                        exp = members[f.type] if mode != 'default-object' or not (f.has_default() and f.default_factory is None) else f.default
                                    else:
                                        exp = f.default_factory() if f.default_factory is not None else f.default
                                    if repr(val) != repr(exp):
                                        out.violation(f'{prop}:struct-mapping:field-value', f'{cls.__name__}.from_data({d!r}): field {f.name} holds {val!r}, expected {exp!r}', {'class': cls.__name__, 'data': repr(d)})
                                        break
                                else:
                                    if set(x.__pane_set__) != gf:
                                        out.violation(f'{prop}:struct-mapping:set-record', f'{cls.__name__}.from_data({d!r}): set-field record {sorted(x.__pane_set__)}, given were {sorted(gf)}', {'class': cls.__name__, 'data': repr(d)})
    return n


def equal_but_distinct_family(out, prop):
    """Values that == identifies but that are different values -- 1 / True / 1.0 / Fraction(1) / Decimal(1); Decimal('1.5') /
    Decimal('1.50'); Fraction(1, 2) / Decimal('0.5'); 0.0 / -0.0; equal frozen instances differing in a compare=False field or in
    the type of a field value -- handed one after the other to the SAME serialiser / converter (successive calls, elements of
    one list, fields of one instance).  Each is written as itself and reads back as itself: same runtime class, same repr."""
    import decimal
    import fractions
    import pane
    n = 0
    F, D = fractions.Fraction, decimal.Decimal

    class Rec(pane.PaneBase):
        key: int
        note: str = pane.field(default='', compare=False)
        val: t.Any = None

    class Money(pane.PaneBase):
        share: F = None
        price: D = None
        qty: t.Union[bool, int, float] = 0
    groups = [
        (t.Union[bool, int, float], [True, 1, 1.0, 0, False, 0.0]), (float, [0.0, -0.0, 1.0]), (t.List[t.Any], [[1], [True], [1.0]]),
        # (unions of Fraction and Decimal overlap on their serialised text: the recorded overlapping-union finding, not used here)
        (D, [D('1.5'), D('1.50'), D('1.500'), D('0.5')]), (F, [F(1, 2), F(2, 4), F(1)]),
        (Rec, [Rec.make_unchecked(1, 'first'), Rec.make_unchecked(1, 'second'), Rec.make_unchecked(1, 'third', 1), Rec.make_unchecked(1, 'fourth', True), Rec.make_unchecked(1, 'fifth', 1.0)]),
        (Money, [Money.make_unchecked(F(3, 4), D('0.75'), 1), Money.make_unchecked(F(3, 4), D('0.750'), True), Money.make_unchecked(F(1, 2), D('0.5'), 1.0)]),
        (t.Tuple[F, D], [(F(1, 2), D('0.5')), (F(1, 4), D('0.25'))]), (t.Tuple[D, F], [(D('0.5'), F(1, 2))]),
    ]

    def show(v):
        if isinstance(v, pane.PaneBase):
            return (type(v).__name__, tuple((f.name, show(getattr(v, f.name))) for f in type(v).__pane_info__.fields))
        if isinstance(v, (list, tuple)):
            return (type(v).__name__, tuple(show(x) for x in v))
        if isinstance(v, dict):
            return ('dict', tuple((k, show(x)) for k, x in v.items()))
        return (type(v).__name__, repr(v))
    with warnings.catch_warnings():
        warnings.simplefilter('ignore')
        for ty, vals in groups:
            for order in (vals, vals[::-1]):
                # successive calls through the same (memoised) converter
                for v in order:
                    n += 1
                    try:
                        d = pane.into_data(v, ty)
                        back = pane.from_data(d, ty)
                        conv = pane.convert(v, ty)
                    except Exception as e:
                        out.violation(f'{prop}:equal-but-distinct:{type(e).__name__}', f'{v!r} as {ty!r}, after {[repr(x) for x in order[:order.index(v)]]} went through the same converter: '
                                      f'{type(e).__name__}: {_msg(e)}', {'type': repr(ty), 'value': repr(v)})
                        continue
                    for how, r in (('from_data(into_data(x))', back), ('convert(x)', conv)):
                        if show(r) != show(v):
                            out.violation(f'{prop}:equal-but-distinct', f'{how} for x = {v!r} as {ty!r} gave {r!r} (written as {d!r}); earlier through the same converter: '
                                          f'{[repr(x) for x in order[:order.index(v)]]}', {'type': repr(ty), 'value': repr(v), 'how': how})
                            break
                # all of them in one list
                n += 1
                try:
                    lt = t.List[ty]
                    back = pane.from_data(pane.into_data(list(order), lt), lt)
                    if [show(x) for x in back] != [show(x) for x in order]:
                        out.violation(f'{prop}:equal-but-distinct:in-one-list', f'{list(order)!r} as List[{ty!r}] reads back as {back!r}', {'type': repr(ty), 'values': repr(list(order))})
                except Exception as e:
                    out.violation(f'{prop}:equal-but-distinct:in-one-list:{type(e).__name__}', f'{list(order)!r} as List[{ty!r}]: {type(e).__name__}: {_msg(e)}', {'type': repr(ty)})
    return n


def argument_dependent_handlers(out, prop):
    """Handlers whose answer for one base class depends on the type ARGUMENTS (they serve list[Q] and decline list[str], or the
    mapping form, which serves the bare `list` only), asked about several parametrisations of that base in both orders -- as
    call-level handlers, class-level handlers and handlers registered globally.  Every lookup behaves as if it were the first:
    what the handler serves is converted by its converter, what it declines by the built-in one."""
    import importlib
    import pane
    V = importlib.import_module('pane.convert')
    from pane.converters import Converter
    n = 0

    class Q:
        def __init__(self, v):
            self.v = v

        def __eq__(self, o):
            return isinstance(o, Q) and o.v == self.v

        def __repr__(self):
            return f'Q({self.v!r})'

    class QList(Converter):
        def expected(self, plural=False):
            return 'quantities'

        def into_data(self, val):
            return [q.v for q in val]

        def try_convert(self, val):
            if not isinstance(val, list):
                from pane.converters import ParseInterrupt
                raise ParseInterrupt()
            return [Q(v) for v in val]

        def collect_errors(self, val):
            from pane.errors import WrongTypeError
            return None if isinstance(val, list) else WrongTypeError('quantities', val)

    class Marked(Converter):
        def expected(self, plural=False):
            return 'anything'

        def into_data(self, val):
            return val

        def try_convert(self, val):
            return ('marked', val)

        def collect_errors(self, val):
            return None

    def by_args(ty, args, *, handlers):
        if ty is list and args == (Q,):
            return QList()
        return NotImplemented
    probes = {'list[Q]': (list[Q], [1, 2], [Q(1), Q(2)]), 'list[str]': (list[str], ['a'], ['a']), 'list[int]': (list[int], [3], [3]), 'list': (list, [4], [4]),
              'tuple[list[str], list[Q]]': (tuple[list[str], list[Q]], [['a'], [5]], (['a'], [Q(5)])), 'dict[str, list[Q]]': (dict[str, list[Q]], {'k': [6]}, {'k': [Q(6)]})}
    orders = [['list[str]', 'list[Q]', 'list', 'list[int]', 'tuple[list[str], list[Q]]', 'dict[str, list[Q]]'], ['list', 'list[Q]', 'list[str]'], ['list[Q]', 'list[str]', 'list[Q]'],
              ['tuple[list[str], list[Q]]', 'list[Q]']]
    with warnings.catch_warnings():
        warnings.simplefilter('ignore')
        for placement in ('call-level', 'registered'):
            for order in orders:
                def h(ty, args, *, handlers):      # a fresh handler object per history
                    return by_args(ty, args, handlers=handlers)
                if placement == 'registered':
                    V.register_converter_handler(h)
                try:
                    for name in order:
                        ty, data, want = probes[name]
                        n += 1
                        try:
                            got = pane.from_data(data, ty, custom=[h]) if placement == 'call-level' else pane.from_data(data, ty)
                        except Exception as e:
                            out.violation(f'{prop}:argument-dependent-handler:{type(e).__name__}', f'{placement} handler serving list[Q] only; lookups so far {order[:order.index(name) + 1]}: '
                                          f'from_data({data!r}, {name}) raised {type(e).__name__}: {_msg(e)}', {'placement': placement, 'order': order, 'type': name})
                            continue
                        if got != want:
                            out.violation(f'{prop}:argument-dependent-handler', f'{placement} handler serving list[Q] only; lookups so far {order[:order.index(name) + 1]}: '
                                          f'from_data({data!r}, {name}) = {got!r}, expected {want!r}', {'placement': placement, 'order': order, 'type': name})
                finally:
                    if placement == 'registered':
                        gh = getattr(V, '_GLOBAL_HANDLERS', None)
                        if gh is not None and h in gh:
                            gh.remove(h)
                        cache = getattr(V.make_converter, 'cache', None)
                        if isinstance(cache, dict):
                            cache.clear()
                        for attr in dir(V):      # module-level tables a change may have added: emptied, so that later checks start clean
                            obj = getattr(V, attr)
                            if attr.startswith('_') and attr.isupper() and isinstance(obj, (set, dict)) and attr not in ('_BASIC_CONVERTERS', '_BASIC_WITH_ARGS', '_ABSTRACT_MAPPING'):
                                try:
                                    if all(isinstance(k, type) for k in obj):
                                        obj.clear()
                                except Exception:
                                    pass
        # the mapping form serves the exact unparameterised type only: bare `list` after list[int], and the reverse
        for order in (['list[int]', 'list'], ['list', 'list[int]'], ['tuple[list[int], list]'], ['tuple[list, list[int]]']):
            conv = Marked()
            table = {list: conv}

            class Holder(pane.PaneBase, custom=table):
                a: t.List[int] = pane.field(default_factory=list)
                b: list = pane.field(default_factory=list)
            for name in order:
                n += 1
                ty, data, want = {'list[int]': (list[int], [1], [1]), 'list': (list, [2], ('marked', [2])), 'tuple[list[int], list]': (tuple[list[int], list], [[1], [2]], ([1], ('marked', [2]))),
                                  'tuple[list, list[int]]': (tuple[list, list[int]], [[2], [1]], (('marked', [2]), [1]))}[name]
                try:
                    got = pane.from_data(data, ty, custom=table)
                except Exception as e:
                    out.violation(f'{prop}:mapping-form-handler:{type(e).__name__}', f'custom={{list: conv}}, lookups {order}: from_data({data!r}, {name}) raised {type(e).__name__}: {_msg(e)}', {'order': order, 'type': name})
                    continue
                if got != want:
                    out.violation(f'{prop}:mapping-form-handler', f'custom={{list: conv}} (serves the bare list only), lookups so far {order[:order.index(name) + 1]}: from_data({data!r}, {name}) = {got!r}, '
                                  f'expected {want!r}', {'order': order, 'type': name})
            n += 1
            try:
                hv = Holder.from_data({'a': [1], 'b': [2]})
                if (hv.a, hv.b) != ([1], ('marked', [2])):
                    out.violation(f'{prop}:mapping-form-handler', f'class custom={{list: conv}} with fields a: List[int], b: list gives {hv!r}; b is the bare list the handler serves', {'case': 'class-level'})
            except Exception as e:
                out.violation(f'{prop}:mapping-form-handler:{type(e).__name__}', f'class custom={{list: conv}}: {type(e).__name__}: {_msg(e)}', {'case': 'class-level'})
    return n
