"""Hand-built families shared by several checks: each has its own oracle, independent of the Coq model."""
import itertools
import types as pytypes
import typing as t
import warnings

import terms


def _same(a, b):
    from props.c05 import canon
    return type(a) is type(b) and canon(a) == canon(b)


def noninit_tuple_family(out, prop, rng):
    """Dataclasses with an init=False field (not keyword-only, with a default) BEFORE other positional fields, read from the
    sequence layout.  Oracle: the sequence binds, in order, to the init fields only; each element is converted with the type of the
    field it binds to (pane's own converter for that type alone); the sequence is accepted iff every element is and the length
    is within the positional bounds; the mapping spelling of the same data gives the same instance."""
    import pane
    from pane.errors import ConvertError
    skipped_types = [str, float, t.Tuple[int, ...], bool, t.List[int]]
    next_types = [int, float, t.List[int], str, t.Tuple[int, ...]]
    pools = {int: [5, True, 2.5, 'x'], float: [5, 2.5, 'x', True], t.List[int]: [[2, 3], (4,), 'ab', [2.5]], str: ['abc', 3, b'x'],
             t.Tuple[int, ...]: [[2, 3], (4, 5), [1.5], 7]}
    defaults = {str: 'zz', float: 1.5, t.Tuple[int, ...]: (), bool: False, t.List[int]: None}
    n = 0
    with warnings.catch_warnings():
        warnings.simplefilter('ignore')
        for pos, zty, nty in itertools.product((0, 1), skipped_types, next_types):
            if zty is nty:
                continue
            fields = [('a', int, True)]
            fields.insert(pos, ('z', zty, False))
            fields += [('b', nty, True), ('c', str, True)]
            ann, ns = {}, {}
            for name, ty, init in fields:
                ann[name] = ty
                if not init:
                    ns[name] = pane.field(init=False, default_factory=list) if defaults[ty] is None else pane.field(init=False, default=defaults[ty])
            ns['c'] = 'end'
            ns['__annotations__'] = ann
            try:
                cls = pytypes.new_class(terms.fresh_name('Ni'), (pane.PaneBase,), {'in_format': ('tuple', 'struct')}, lambda d: d.update(ns))
            except TypeError:
                continue
            terms.KEEP.append(cls)
            init_fields = [(nm, ty) for nm, ty, init in fields if init]
            for a_val in (1,):
                for b_val in pools[nty]:
                    for extra in ((), ('tail',)):
                        seq = (a_val, b_val) + extra
                        n += 1
                        want, ok = {}, True
                        for (nm, ty), v in zip(init_fields, seq):
                            try:
                                want[nm] = pane.from_data(v, ty)
                            except ConvertError:
                                ok = False
                        label = f'{cls.__name__}(' + ', '.join(f'{nm}: {getattr(ty, "__name__", ty)}' + ('' if init else ' [init=False]') for nm, ty, init in fields) + ')'
                        try:
                            x = pane.from_data(list(seq), cls)
                            got_ok = True
                        except ConvertError:
                            got_ok = False
                        except Exception as e:
                            out.violation(f'{prop}:noninit-tuple:{type(e).__name__}', f'from_data({list(seq)!r}, {label}) raised {type(e).__name__}: {e}', {'class': label, 'value': repr(seq)})
                            continue
                        if got_ok != ok:
                            out.violation(f'{prop}:noninit-tuple:verdict', f'from_data({list(seq)!r}, {label}) was {"accepted" if got_ok else "refused"}; binding the elements in order to the init '
                                          f'fields {[nm for nm, _ in init_fields]} and converting each with its own field type says {"accept" if ok else "refuse"}'
                                          + (f' (got {x!r})' if got_ok else ''), {'class': label, 'value': repr(seq)})
                            continue
                        if ok:
                            # the field kept out of the constructor holds its default / a fresh product of its factory
                            zwant = [] if defaults[zty] is None else defaults[zty]
                            if not hasattr(x, 'z') or not _same(getattr(x, 'z'), zwant):
                                out.violation(f'{prop}:noninit-field-not-set', f'from_data({list(seq)!r}, {label}): the init=False field z is '
                                              f'{getattr(x, "z", "<no attribute>")!r}, expected its default {zwant!r}', {'class': label, 'value': repr(seq)})
                                continue
                            if defaults[zty] is None and getattr(x, 'z') is getattr(pane.from_data(list(seq), cls), 'z'):
                                out.violation(f'{prop}:noninit-factory-shared', f'{label}: two instances share the product of the default factory of z', {'class': label})
                                continue
                            try:
                                repr(x), x == x, x.into_data()
                            except Exception as e:
                                out.violation(f'{prop}:noninit:{type(e).__name__}', f'{label}: repr / == / into_data of {cls.__name__} built from {list(seq)!r} raised {type(e).__name__}: {e}', {'class': label})
                                continue
                            bad = [nm for nm in want if not _same(getattr(x, nm), want[nm])]
                            if bad:
                                out.violation(f'{prop}:noninit-tuple:value', f'from_data({list(seq)!r}, {label}) = {x!r}: field {bad[0]} should be {want[bad[0]]!r} '
                                              f'(the element converted with the type of the field it binds to)', {'class': label, 'value': repr(seq)})
                                continue
                            y = pane.from_data(dict(zip([nm for nm, _ in init_fields], seq)), cls)
                            if not _same(x, y):
                                out.violation(f'{prop}:noninit-tuple:layouts-disagree', f'{label}: sequence {list(seq)!r} gives {x!r}, the mapping spelling gives {y!r}', {'class': label})
    return n


def _msg(e):
    try:
        return str(e)[:200]
    except Exception as e2:
        return f'<rendering the {type(e).__name__} raised {type(e2).__name__}: {e2}>'


def construction_paths_family(out, prop):
    """Defaults, factories and hooks on every construction path (constructor by position / by keyword, make_unchecked, mapping data,
    sequence data).  Oracle: a field that was not supplied holds its declared default -- the very object for default=, a FRESH
    product for default_factory -- whatever was built before; a hook that assigns a field of a non-frozen class runs once on
    every path and its effect is visible; all paths give equal instances."""
    import pane
    from pane.errors import ConvertError
    n = 0

    def ident(v):
        return v

    class Bag(pane.PaneBase, in_format=('tuple', 'struct')):
        name: str
        items: t.List[int] = pane.field(default_factory=list)
        index: t.Dict[str, int] = pane.field(default_factory=dict)
        key: t.Any = ident                      # a function as a plain default: must come back as itself, not bound
        limit: t.Optional[int] = None

    class Box(pane.PaneBase, frozen=False, in_format=('tuple', 'struct')):
        width: int
        height: int
        area: int = 0

        def __post_init__(self):
            self.area = self.width * self.height
    paths = {
        'constructor by position': lambda: Bag('b'), 'constructor by keyword': lambda: Bag(name='b'), 'make_unchecked': lambda: Bag.make_unchecked('b'),
        'mapping data': lambda: pane.from_data({'name': 'b'}, Bag), 'sequence data': lambda: pane.from_data(['b'], Bag),
        'nested sequence data': lambda: pane.from_data([['b']], t.List[Bag])[0], 'convert': lambda: pane.convert({'name': 'b'}, Bag),
    }
    with warnings.catch_warnings():
        warnings.simplefilter('ignore')
        made = {}
        for label, mk in paths.items():
            n += 1
            try:
                a = mk()
                a.items.append(7)
                a.index['seven'] = 7
                b = mk()
            except Exception as e:
                out.violation(f'{prop}:construction-paths:{type(e).__name__}', f'{label}: {type(e).__name__}: {_msg(e)}', {'path': label})
                continue
            made[label] = b
            if b.items != [] or b.index != {} or b.items is a.items or b.index is a.index:
                out.violation(f'{prop}:default-factory-shared', f'{label}: a second instance has items={b.items!r}, index={b.index!r} after the first one\'s were modified '
                              '(each instance must get a fresh product of the factory)', {'path': label})
            if b.key is not ident or b.limit is not None:
                out.violation(f'{prop}:default-not-stored', f'{label}: the unsupplied field key is a {type(b.key).__name__}, expected its default (the function ident itself); limit={b.limit!r}', {'path': label})
            if set(b.__pane_set__) != {'name'}:
                out.violation(f'{prop}:set-record', f'{label}: set-field record {sorted(b.__pane_set__)}, only name was supplied', {'path': label})
        # the hook of a non-frozen class assigns a field
        hook_paths = {
            'constructor': lambda: Box(2, 3), 'constructor by keyword': lambda: Box(width=2, height=3), 'make_unchecked': lambda: Box.make_unchecked(2, 3),
            'mapping data': lambda: pane.from_data({'width': 2, 'height': 3}, Box), 'sequence data': lambda: pane.from_data([2, 3], Box),
            'nested mapping data': lambda: pane.from_data({'k': [{'width': 2, 'height': 3}]}, t.Dict[str, t.List[Box]])['k'][0],
            'copy': lambda: __import__('copy').copy(Box(2, 3)), 'replace': lambda: Box(2, 1).__replace__(height=3),
        }
        for label, mk in hook_paths.items():
            n += 1
            try:
                b = mk()
            except Exception as e:
                out.violation(f'{prop}:hook-assigning-field:{type(e).__name__}', f'{label}: building Box(width=2, height=3), whose __post_init__ assigns self.area, raised '
                              f'{type(e).__name__}: {_msg(e)}', {'path': label})
                continue
            if (b.width, b.height, b.area) != (2, 3, 6):
                out.violation(f'{prop}:hook-assigning-field', f'{label}: got {b!r}, expected Box(width=2, height=3, area=6)', {'path': label})
        # a hook that reads the set-field record: it sees the same record on every path (what was supplied, nothing else)
        seen = []

        class Watch(pane.PaneBase, in_format=('tuple', 'struct')):
            x: int
            y: int = 0
            z: t.Optional[str] = None

            def __post_init__(self):
                seen.append(sorted(self.__pane_set__))
                if 'z' in self.__pane_set__ and self.z is None:
                    raise ValueError('z was given as None')
        watch_paths = {
            'constructor': (lambda: Watch(1), ['x']), 'constructor by keyword': (lambda: Watch(x=1, y=2), ['x', 'y']), 'make_unchecked': (lambda: Watch.make_unchecked(1), ['x']),
            'mapping data': (lambda: pane.from_data({'x': 1}, Watch), ['x']), 'mapping data with y': (lambda: pane.from_data({'x': 1, 'y': 2}, Watch), ['x', 'y']),
            'sequence data': (lambda: pane.from_data([1], Watch), ['x']), 'Watch.from_data': (lambda: Watch.from_data({'x': 1}), ['x']),
            'nested mapping data': (lambda: pane.from_data([{'x': 1}], t.List[Watch])[0], ['x']),
            'union member': (lambda: pane.from_data({'x': 1}, t.Union[int, Watch]), ['x']),
            'copy': (lambda: __import__('copy').copy(Watch(1)), ['x']), 'replace': (lambda: Watch(1).__replace__(y=2), ['x', 'y']),
        }
        for label, (mk, want) in watch_paths.items():
            n += 1
            del seen[:]
            try:
                b = mk()
            except Exception as e:
                out.violation(f'{prop}:hook-reading-set-record:{type(e).__name__}', f'{label}: building Watch(x=1, ...), whose __post_init__ reads self.__pane_set__, raised '
                              f'{type(e).__name__}: {_msg(e)} (the hook saw {seen})', {'path': label})
                continue
            if not seen or any(s_ != want for s_ in seen[-1:]) or sorted(b.__pane_set__) != want:
                out.violation(f'{prop}:hook-reading-set-record', f'{label}: the hook saw the set-field record {seen}, the instance ends with {sorted(b.__pane_set__)}, '
                              f'supplied were {want}', {'path': label})
        n += 1
        try:
            pane.from_data({'x': 1, 'z': None}, Watch)
            out.violation(f'{prop}:hook-reading-set-record', 'mapping data with z: None was accepted although the hook refuses an explicit None', {'path': 'z given'})
        except ConvertError:
            pass
        except Exception as e:
            out.violation(f'{prop}:hook-reading-set-record:{type(e).__name__}', f'mapping data with z: None raised {type(e).__name__}: {_msg(e)}', {'path': 'z given'})
    return n


def same_class_union_serialisation(out, prop):
    """Untagged unions whose members accept values of the SAME Python class and differ only in the contents they accept
    (List[int] | List[float], two tuple lengths, Dict[str, int] | Dict[str, Fraction], Literal | float).  Every value, in every
    order of serialisation through the same (memoised) converter, is written as its own left-most accepting member writes it."""
    import fractions
    import pane
    from pane.convert import make_converter
    from pane.converters import ParseInterrupt
    n = 0
    fams = [
        (t.Union[t.List[int], t.List[float]], [[1, 2], [1.5, 2.5], [], [3]]),
        (t.Union[t.Tuple[int, int], t.Tuple[int, int, int]], [(1, 2), (1, 2, 3), (4, 5)]),
        (t.Union[t.Dict[str, int], t.Dict[str, fractions.Fraction]], [{'a': 1}, {'a': fractions.Fraction(1, 3)}, {'b': 2}]),
        (t.Union[t.Literal[1], float], [1, 2.0, 1]),
        (t.Union[t.List[t.Literal['a']], t.List[str]], [['a'], ['b', 'a'], ['a', 'a']]),
    ]
    import itertools
    with warnings.catch_warnings():
        warnings.simplefilter('ignore')
        for U, vals in fams:
            members = [type(None) if a is None else a for a in t.get_args(U)]

            def own(v):
                for m in members:
                    cv = make_converter(m)
                    try:
                        cv.try_convert(v)
                        return cv.into_data(v)
                    except ParseInterrupt:
                        continue
                return None
            want = [own(v) for v in vals]

            class Holder(pane.PaneBase):
                u: U
                us: t.List[U] = pane.field(default_factory=list)
            for order in itertools.permutations(range(len(vals))):
                got = {}
                for i in order:
                    n += 1
                    got[i] = pane.into_data(vals[i], U)
                bad = [i for i in order if got[i] != want[i] or type(got[i]) is not type(want[i])]
                if bad:
                    i = bad[0]
                    out.violation(f'{prop}:same-class-union-serialisation', f'into_data({vals[i]!r}, {U!r}) = {got[i]!r} after serialising {[vals[j] for j in order[:order.index(i)]]!r} '
                                  f'through the same converter; its left-most accepting member writes {want[i]!r}', {'union': repr(U), 'order': [repr(vals[j]) for j in order]})
                    break
            n += 1
            h = Holder.make_unchecked(vals[0], list(vals))
            d = h.into_data()
            if d['us'] != want or d['u'] != want[0]:
                out.violation(f'{prop}:same-class-union-serialisation', f'a dataclass with u: {U!r} and us: List[...] holding {vals!r} serialises to {d!r}; expected u={want[0]!r}, us={want!r}',
                              {'union': repr(U)})
    return n


def scalar_subclass_family(out, prop):
    """Targets that are SUBCLASSES of the scalar types (class MyStr(str), MyBytes(bytes), MyInt(int), MyFloat(float)): they read
    what their base type reads -- never a sequence of elements -- and return an instance of the subclass holding the base's value;
    in every embedding context."""
    import pane
    from pane.errors import ConvertError
    n = 0

    class MyStr(str):
        pass

    class MyBytes(bytes):
        pass

    class MyInt(int):
        pass

    class MyFloat(float):
        pass
    table = [
        (MyStr, str, ['abc', '', 'ü'], [['a', 'b'], ('a',), 5, b'ab', None, {'a': 1}, [], 1.5]),
        (MyBytes, bytes, [b'ab', bytearray(b'q'), b''], [[1, 2], 'x', 5, (1,), None, []]),
        (MyInt, int, [5, True, 0], ['5', 2.5, [5], None, b'5']),
        (MyFloat, float, [1.5, 2, True], ['1.5', [1.5], None, 1j]),
    ]
    with warnings.catch_warnings():
        warnings.simplefilter('ignore')
        for sub, base, goods, bads in table:
            class Holder(pane.PaneBase):
                f: sub
            contexts = [('top', sub, lambda v: v, lambda r: r), ('list element', t.List[sub], lambda v: [v], lambda r: r[0]),
                        ('mapping value', t.Dict[str, sub], lambda v: {'k': v}, lambda r: r['k']), ('optional', t.Optional[sub], lambda v: v, lambda r: r),
                        ('dataclass field', Holder, lambda v: {'f': v}, lambda r: r.f), ('union member', t.Union[sub, t.List[int]], lambda v: v, lambda r: r)]
            for label, ty, wrap, unwrap in contexts:
                for v in goods:
                    n += 1
                    try:
                        r = unwrap(pane.from_data(wrap(v), ty))
                    except Exception as e:
                        out.violation(f'{prop}:scalar-subclass:rejects-base-value', f'{label}: from_data({wrap(v)!r}, {ty!r}) raised {type(e).__name__}; {sub.__name__} is a {base.__name__} '
                                      f'and {base.__name__} reads {v!r}', {'target': sub.__name__, 'context': label, 'value': repr(v)})
                        continue
                    if type(r) is not sub or base(r) != base(v):
                        out.violation(f'{prop}:scalar-subclass:wrong-image', f'{label}: from_data({wrap(v)!r}, {ty!r}) gave {r!r} of class {type(r).__name__}, expected {sub.__name__}({base(v)!r})',
                                      {'target': sub.__name__, 'context': label, 'value': repr(v)})
                for v in bads:
                    if label in ('optional',) and v is None:
                        continue
                    if label == 'union member' and isinstance(v, (list, tuple)) and all(type(e) is int for e in v):
                        continue
                    n += 1
                    try:
                        r = pane.from_data(wrap(v), ty)
                    except ConvertError:
                        continue
                    except Exception as e:
                        out.violation(f'{prop}:scalar-subclass:{type(e).__name__}', f'{label}: from_data({wrap(v)!r}, {ty!r}) raised {type(e).__name__}: {e}', {'target': sub.__name__})
                        continue
                    out.violation(f'{prop}:scalar-subclass:cross-kind-accepted', f'{label}: from_data({wrap(v)!r}, {ty!r}) = {r!r}: {base.__name__} does not read a '
                                  f'{type(v).__name__}, so {sub.__name__} must not either', {'target': sub.__name__, 'context': label, 'value': repr(v)})
    return n
