"""Generators of type terms and interchange values (one PRNG passed in everywhere)."""
from __future__ import annotations

import random
import string

from terms import fresh_name

WORDS = ['a', 'b', 'x', 'y', 'id', 'name', 'val', 'my_field', 'kind', 'ab', 'zz', 'foo', 'bar']
STRS = ['', 'a', 'b', 'ab', 'xy', 'foo', '1', '1/0', '(', 'a{4294967296}', 'None', 'x y']


def g_int(rng):
    r = rng.random()
    if r < 0.6:
        return rng.randint(-3, 5)
    if r < 0.8:
        return rng.choice([0, 1, -1, 2, 10, 100, -100])
    if r < 0.9:
        return rng.choice([2**53, 2**53 + 1, -(2**53) - 1, 2**63, 10**20])
    return rng.choice([10**400, -(10**400), 2**1024, 2**1023]) if rng.random() < 0.3 else rng.randint(-9, 9)


def g_float(rng):
    r = rng.random()
    if r < 0.7:
        return rng.choice([0.0, 1.0, -1.0, 0.5, 2.5, -0.25, 1e10, 3.0, 100.0])
    if r < 0.85:
        return rng.choice([float('inf'), float('-inf'), float('nan')])
    return rng.uniform(-10, 10)


def g_str(rng):
    return rng.choice(STRS + WORDS)


def g_scalar_value(rng, kinds=None):
    k = rng.choice(kinds or ['none', 'bool', 'int', 'float', 'complex', 'str', 'bytes', 'bytearray'])
    if k == 'none':
        return None
    if k == 'bool':
        return rng.random() < 0.5
    if k == 'int':
        return g_int(rng)
    if k == 'float':
        return g_float(rng)
    if k == 'complex':
        return complex(rng.choice([0.0, 1.0, -2.5]), rng.choice([0.0, 1.0, 3.5]))
    if k == 'str':
        return g_str(rng)
    if k == 'bytes':
        return rng.choice([b'', b'a', b'xy'])
    return bytearray(rng.choice([b'', b'a', b'xy']))


def g_key(rng):
    """dict keys of interchange data: str mostly; None/bool/int/tuples occasionally"""
    r = rng.random()
    if r < 0.8:
        return rng.choice(WORDS)
    if r < 0.9:
        return rng.randint(0, 3)
    if r < 0.94:
        return None
    if r < 0.97:
        return (rng.randint(0, 2), rng.choice(['a', 'b']))
    return rng.random() < 0.5


def g_arbitrary(rng, depth=2):
    r = rng.random()
    if depth <= 0 or r < 0.5:
        return g_scalar_value(rng)
    if r < 0.7:
        return [g_arbitrary(rng, depth - 1) for _ in range(rng.randint(0, 3))]
    if r < 0.8:
        return tuple(g_arbitrary(rng, depth - 1) for _ in range(rng.randint(0, 3)))
    d = {}
    for _ in range(rng.randint(0, 3)):
        d[g_key(rng)] = g_arbitrary(rng, depth - 1)
    return d


# ---------------------------------------------------------------- types

SCALAR_NAMES = ['bool', 'int', 'float', 'complex', 'str', 'bytes', 'bytearray']


def g_cond(rng, depth=2, for_len=False):
    r = rng.random()
    if depth <= 0 or r < 0.45:
        if for_len:
            return rng.choice([('adj', 'empty'), ('adj', 'nonempty'), ('lenrange', rng.choice([None, 0, 1, 2]), rng.choice([1, 2, 3]))])
        return ('adj', rng.choice(['positive', 'negative', 'nonpositive', 'nonnegative', 'finite']))
    if r < 0.6:
        lo = rng.choice([None, -1, 0, 1, 2])
        hi = rng.choice([None, 1, 2, 3, 5]) if lo is not None else rng.choice([1, 2, 3, 5])
        if for_len:
            return ('lenrange', None if lo is None else max(lo, 0), hi)
        return ('valrange', lo, hi)
    if r < 0.72:
        return ('all', [g_cond(rng, depth - 1, for_len) for _ in range(rng.randint(2, 3))])
    if r < 0.82:
        return ('any', [g_cond(rng, depth - 1, for_len) for _ in range(rng.randint(2, 3))])
    if r < 0.9:
        return ('not', g_cond(rng, depth - 1, for_len))
    if r < 0.95:
        return ('raise', fresh_name('boom' if rng.random() < 0.6 else 'truth'))
    return ('const', fresh_name('konst'), rng.random() < 0.5)


def g_field_type(rng, depth, cfg):
    return g_type(rng, depth, cfg, top=False)


def g_class(rng, depth, cfg, tag=None):
    """a dataclass spec; tag=(field, value) adds a Literal tag field with a default"""
    n = rng.randint(0 if tag else 1, 3)
    names = rng.sample(['a', 'b', 'c', 'x', 'y', 'my_field', 'val'], n)
    tuple_in = rng.random() < 0.35
    nd = (cfg or {}).get('naming_density', 1.0)
    cls_rename = rng.random() < min(0.6, 0.18 * nd)
    dense = (2.5 if cls_rename else 1.0) * nd   # field-level naming options interact with class-level styles
    fields = []
    seen_default = False
    kw_only_started = False
    for nm in names:
        f = {'name': nm, 'ty': g_field_type(rng, depth - 1, cfg)}
        want_default = seen_default or rng.random() < 0.4
        if not kw_only_started and rng.random() < 0.15:
            kw_only_started = True
            fields.append({'kw_marker': True})
        if kw_only_started:
            want_default = want_default or tuple_in
        if want_default:
            from gen import g_valid  # noqa
            dv = g_valid(rng, f['ty'], 2)
            if rng.random() < 0.5 or isinstance(dv, (list, dict, set, bytearray)):
                f['default'] = ('factory', dv)
            else:
                f['default'] = ('value', dv)
            if not kw_only_started:
                seen_default = True
        if rng.random() < min(0.85, 0.26 * dense):
            kind = rng.choices(['aliases', 'in_names', 'rename'], [12, 8, 6 if dense <= 1 else 10])[0]
            if kind == 'aliases':
                f['aliases'] = [nm + '_alias', nm[0].upper()]
            elif kind == 'in_names':
                f['in_names'] = [nm + '_in', nm]
            else:
                f['rename'] = rng.choice([nm + 'R', nm + '_id', 'the' + nm.title() + 'ID'])
        if rng.random() < 0.08 * dense:
            f['out_name'] = nm + '_out'
        if rng.random() < 0.06 and 'default' in f:
            f['exclude'] = True
        fields.append(f)
    if tag:
        fields.append({'name': tag[0], 'ty': ('literal', [tag[1]]), 'default': ('value', tag[1])})
    opts = {}
    if tuple_in:
        opts['in_format'] = rng.choice([('tuple', 'struct'), ('struct', 'tuple'), ('tuple',)])
        if rng.random() < 0.5:
            opts['out_format'] = 'tuple'
    if rng.random() < 0.2:
        opts['allow_extra'] = True
    if cls_rename:
        if rng.random() < 0.7:
            opts['rename'] = rng.choice(['camel', 'pascal', 'kebab', 'scream', 'snake'])
        else:
            opts['in_rename'] = rng.sample(['snake', 'camel', 'kebab'], 2)
            if rng.random() < 0.5:
                opts['out_rename'] = rng.choice(opts['in_rename'] + ['pascal'])
    hook = None
    real = [f for f in fields if not f.get('kw_marker')]
    r = rng.random()
    if r < 0.05:
        hook = ('raise_always',)
    elif r < 0.2 and real:
        hook = ('raise_if_lt', rng.choice(real)['name'], rng.choice([0, 1, 3]))
    return {'name': fresh_name('C'), 'fields': fields, 'opts': opts, 'hook': hook}


def g_type(rng, depth, cfg=None, top=True):
    cfg = cfg or {}
    w = dict(cfg.get('weights') or {})
    kinds = {
        'scalar': 5, 'none': 0.6, 'any': 0.5, 'seq': 2.2, 'tuple': 1.2, 'dict': 1.3, 'union': 2.0, 'literal': 0.9,
        'enum': 0.7, 'class': 1.6, 'cond': 1.3, 'tagged': 0.7, 'struct': 0.5 if top else 0.0, 'std': 0.0,
    }
    kinds.update(w)
    if not top:
        kinds['struct'] = 0
    if depth <= 0:
        for k in ('seq', 'tuple', 'dict', 'union', 'class', 'cond', 'tagged', 'struct'):
            kinds[k] = 0
    ks = list(kinds)
    k = rng.choices(ks, [kinds[x] for x in ks])[0]
    if k == 'scalar':
        return ('scalar', rng.choices(SCALAR_NAMES, [1.2, 3, 2, 0.6, 3, 0.6, 0.3])[0])
    if k in ('none', 'any'):
        return (k,)
    if k == 'std':
        return ('std', rng.choice(['decimal', 'fraction', 'datetime', 'date', 'time', 'path', 'pathlike', 'pattern', 'pattern_str', 'pattern_bytes']
                                  + (['enum_tuple'] * 3 + ['enum_complex', 'enum_complex', 'enum_limit', 'enum_limit'] + ['vol_int', 'vol_tuple', 'vol_tuple', 'vol_list', 'vol_list'] if (cfg or {}).get('enum_tuple') else [])))
    if k == 'seq':
        return ('seq', rng.choices(['list', 'tuple', 'set', 'frozenset'], [4, 3, 1.2, 0.8])[0], g_type(rng, depth - 1, cfg, False))
    if k == 'tuple':
        n = rng.choice([0, 1, 2, 2, 3])
        form = 'literal' if top and rng.random() < 0.3 else 'typing'
        return ('tuple', [g_type(rng, depth - 1, cfg, top and form == 'literal') for _ in range(n)], form)
    if k == 'dict':
        kt = rng.choices([('scalar', 'str'), ('scalar', 'int'), ('any',), ('seq', 'list', ('scalar', 'int')),
                          ('seq', 'tuple', ('scalar', 'int')), ('literal', ['a', 'b'])], [6, 1.5, 1, 0.5, 0.6, 0.5])[0]
        return ('dict', kt, g_type(rng, depth - 1, cfg, False))
    if k == 'struct':
        names = rng.sample(['x', 'y', 'name', 'val'], rng.randint(1, 3))
        return ('struct', [(n, g_type(rng, depth - 1, cfg, True)) for n in names])
    if k == 'union' and cfg.get('overlap') and rng.random() < 0.5:
        fam = rng.choice([
            [('scalar', 'int'), ('scalar', 'float')], [('scalar', 'float'), ('scalar', 'int')],
            [('scalar', 'bool'), ('scalar', 'int')], [('scalar', 'int'), ('scalar', 'bool')],
            [('scalar', 'float'), ('scalar', 'complex'), ('scalar', 'int')],
            [('seq', 'list', ('scalar', 'int')), ('seq', 'tuple', ('scalar', 'float'))],
            [('seq', 'tuple', ('scalar', 'float')), ('seq', 'list', ('scalar', 'int')), ('tuple', [('scalar', 'int'), ('scalar', 'int')])],
            [('scalar', 'str'), ('literal', ['a', 'b'])], [('literal', ['a', 'b']), ('scalar', 'str')],
            [('literal', [1, 2]), ('scalar', 'float')],
            [('dict', ('scalar', 'str'), ('scalar', 'int')), ('class', g_class(rng, 1, cfg))],
            [('class', g_class(rng, 1, cfg)), ('dict', ('scalar', 'str'), ('any',))],
            [('class', g_class(rng, 1, cfg)), ('class', g_class(rng, 1, cfg))],
            [('seq', 'set', ('scalar', 'int')), ('seq', 'list', ('scalar', 'int'))],
            [('none',), ('scalar', 'int'), ('scalar', 'float')],
            [('std', 'date'), ('std', 'datetime')], [('std', 'time'), ('std', 'datetime')], [('std', 'datetime'), ('std', 'date')],
            [('std', 'decimal'), ('std', 'fraction')], [('std', 'pattern'), ('scalar', 'str')], [('scalar', 'int'), ('std', 'decimal')],
            [('cond', ('scalar', 'int'), ('adj', 'positive')), ('scalar', 'int')],
            [('cond', ('scalar', 'int'), ('adj', 'positive')), ('cond', ('scalar', 'float'), ('adj', 'negative')), ('scalar', 'str')],
        ])
        return ('union', fam)
    if k == 'union':
        ms = []
        for _ in range(rng.randint(2, 4)):
            m = g_type(rng, depth - 1, cfg, False)
            if m[0] not in ('union', 'any') and m not in ms:
                ms.append(m)
        if rng.random() < 0.3 and ('none',) not in ms:
            ms.append(('none',))
        if len(ms) < 2:
            return ms[0] if ms else ('scalar', 'int')
        return ('union', ms)
    if k == 'literal':
        pool = [1, 2, 0, 'a', 'b', 'yes', True, False, None, -1]
        vals = []
        for v in rng.sample(pool, rng.randint(1, 3)):
            if not any(v == u and type(v) is type(u) for u in vals):
                vals.append(v)
        vals.sort(key=lambda v: (type(v).__name__, repr(v)))
        return ('literal', vals)
    if k == 'enum':
        style = rng.random()
        if style < 0.4:
            members = [('A', 1), ('B', 2), ('C', 3)][:rng.randint(1, 3)]
        elif style < 0.7:
            members = [('RED', 'red'), ('GREEN', 'green')]
        else:
            members = [('A', 1), ('B', 'b'), ('N', None)][:rng.randint(2, 3)]
        return ('enum', fresh_name('E'), members)
    if k == 'class':
        return ('class', g_class(rng, depth, cfg))
    if k == 'cond':
        inner = g_type(rng, depth - 1, cfg, False)
        while inner[0] in ('cond', 'tagged'):
            inner = g_type(rng, depth - 1, cfg, False)
        for_len = inner[0] in ('seq', 'dict', 'tuple') or inner == ('scalar', 'str')
        return ('cond', inner, g_cond(rng, 2, for_len))
    if k == 'tagged':
        tag = rng.choice(['kind', 'type', 't'])
        tagvals = rng.sample(['a', 'b', 'c', 1, 2], rng.randint(2, 3))
        lay = rng.choice(['internal', 'internal', 'external', ('adjacent', 'tag', 'content')])
        return ('tagged', tag, lay, [(tv, ('class', g_class(rng, depth - 1, cfg, tag=(tag, tv)))) for tv in tagvals])
    raise AssertionError(k)


STD_POOL = {'decimal': ['1.5', '-2', 'NaN', 3, 2.5, 'abc', '1e5'], 'fraction': ['1/3', '2', '1/0', 5, 0.5, 'x/y'],
                'datetime': ['2020-01-02T03:04:05', '2020-01-02', 'nope', '2020-13-01T00:00:00', '2021-05-06T07:08:09'],
                'date': ['2020-01-02', '2020-02-30', 'x'], 'time': ['03:04:05', '25:00', '03:04'],
                'path': ['a/b', '', '/x', 'c.txt'], 'pathlike': ['a/b', 'x'],
                'pattern': ['a+b', '(', 'a{4294967296}', '[a-z]*', ''], 'pattern_str': ['a+b', '(', '\\d+'],
                'pattern_bytes': [b'a+', b'(', b'x'],
                'enum_tuple': [[1, 2], (3, 4), [[1], [2]], [1, [2]], [1, 2, 3], 5, 'x', [1, 2.0], [True, 2], [{}, 2], []],
                'enum_complex': [1j, 2j, 0, -1j, 'x', 1, [1j]], 'enum_limit': [['limit', None], ['limit', 2], ('limit', 1), 'x', ['limit'], ['limit', 'a']],
                'vol_int': [5, [1, 2], [], 'x', [1, 'x'], 2.5, (3,), [7], [0], [[7]]],
                'vol_tuple': [[1, 2], [[1, 2], [3, 4]], (5, 6), [1], [1, 2, 3], 'x', [[1, 2], [3]], [1, 'x'], [[1, 2]], [[0, 0]]],
                'vol_list': [[1, 2], [[1], [2, 3]], [], 5, [[1], 'x'], [1, [2]], [[1]], [[]], [[1, 2]]],
                'vol_range': [[0, 10, 11], {'start': 0, 'end': 10, 'n': 6}, [[0, 10, 11]], [0, 10], 'x', [[0, 10, 11], [1, 2, 3]]],
                'range_int': [[0, 10, 11], {'start': 0, 'end': 10, 'n': 6}, {'start': 0, 'end': 10, 'step': 2}, [0], 'x', {'start': 0}]}
for _k in ('datetime', 'date', 'time'):
    STD_POOL[_k] += [0, 1e20, 10 ** 30, -10 ** 30, 1.5, float('nan'), float('inf'), True, 253402300800, -62135596801]
STD_POOL['pattern'] += ['x{1,4294967295}', '(?P<n>a)(?P<n>b)', 'a**', '(' * 120 + ')' * 120]
STD_POOL['pattern_str'] += ['b{4294967296}', '[']
STD_POOL['pattern_bytes'] += [b'[0-9]{1,4294967295}', b'[', 'text']


# ---------------------------------------------------------------- values from types

def _hashable_version(v):
    if isinstance(v, list):
        return tuple(_hashable_version(x) for x in v)
    if isinstance(v, (dict, set, bytearray)):
        return None
    return v


def cond_holds(c, v):
    try:
        k = c[0]
        if k == 'adj':
            import math
            return {'positive': lambda: v > 0, 'negative': lambda: v < 0, 'nonpositive': lambda: v <= 0,
                    'nonnegative': lambda: v >= 0, 'finite': lambda: math.isfinite(v), 'empty': lambda: len(v) == 0,
                    'nonempty': lambda: len(v) != 0}[c[1]]()
        if k == 'valrange':
            return (c[1] is None or v >= c[1]) and (c[2] is None or v <= c[2])
        if k == 'lenrange':
            return (c[1] is None or len(v) >= c[1]) and (c[2] is None or len(v) <= c[2])
        if k == 'all':
            return all(cond_holds(x, v) for x in c[1])
        if k == 'any':
            return any(cond_holds(x, v) for x in c[1])
        if k == 'not':
            return not cond_holds(c[1], v)
        if k == 'const':
            return c[2]
        return False
    except Exception:
        return False


def g_valid(rng, term, depth=3):
    """a data value meant to be accepted by `term` (best effort)"""
    k = term[0]
    if k == 'any':
        return g_arbitrary(rng, 1)
    if k == 'none':
        return None
    if k == 'scalar':
        s = term[1]
        if s == 'bool':
            return rng.random() < 0.5
        if s == 'int':
            return g_int(rng) if rng.random() < 0.92 else (rng.random() < 0.5)
        if s == 'float':
            return g_float(rng) if rng.random() < 0.7 else g_int(rng)
        if s == 'complex':
            return g_scalar_value(rng, ['complex', 'float', 'int'])
        if s == 'str':
            return g_str(rng)
        return g_scalar_value(rng, ['bytes', 'bytearray'])
    if k == 'std':
        s = term[1]
        pool = STD_POOL[s]
        return rng.choice(pool)
    if k == 'seq':
        items = [g_valid(rng, term[2], depth - 1) for _ in range(rng.choice([0, 1, 2, 2, 3]))]
        return items if rng.random() < 0.7 else tuple(items)
    if k == 'tuple':
        items = [g_valid(rng, x, depth - 1) for x in term[1]]
        return items if rng.random() < 0.6 else tuple(items)
    if k == 'dict':
        d = {}
        for _ in range(rng.choice([0, 1, 2, 3])):
            key = _hashable_version(g_valid(rng, term[1], depth - 1))
            try:
                hash(key)
            except TypeError:
                continue
            d[key] = g_valid(rng, term[2], depth - 1)
        return d
    if k == 'struct':
        return {n: g_valid(rng, x, depth - 1) for n, x in term[1]}
    if k == 'union':
        return g_valid(rng, rng.choice(term[1]), depth - 1)
    if k == 'literal':
        v = rng.choice(term[1])
        if type(v) is int and rng.random() < 0.1:
            return float(v)
        return v
    if k == 'enum':
        return rng.choice(term[2])[1]
    if k == 'class':
        return g_valid_class(rng, term[1], depth)
    if k == 'cond':
        for _ in range(6):
            v = g_valid(rng, term[1], depth)
            if cond_holds(term[2], v):
                return v
        return v
    if k == 'tagged':
        tag, lay, variants = term[1], term[2], term[3]
        tv, vt = rng.choice(variants)
        body = g_valid_class(rng, vt[1], depth, force_struct=True)
        if not isinstance(body, dict):
            return body
        body = {kk: vv for kk, vv in body.items() if kk != tag}
        shape = rng.random()
        if shape < 0.22:
            # near-valid shapes of the three layouts: surplus key, missing key, odd tag value
            extra_key = rng.choice(['zz', 'comment', 'extra', 1])
            # (a tuple is hashable by type only: one that holds a list or a mapping is not, and one holding the tag is not the tag)
            odd_tag = rng.choice([None, [1], {}, 'zzz', 1.5, True, ([tv],), (tv, {}), (tv,), ((), [])])
            if lay == 'internal':
                d = dict(body)
                d[tag] = tv if shape < 0.11 else odd_tag
                if shape < 0.11:
                    d[extra_key] = g_scalar_value(rng)
                return d
            if lay == 'external':
                return rng.choice([{tv: body, extra_key: 1}, {}, {'zzz': body}, {tv: body, 'other': body}])
            return rng.choice([{lay[1]: tv, lay[2]: body, extra_key: None}, {lay[1]: tv}, {lay[2]: body},
                               {lay[1]: 'zzz', lay[2]: body}, {lay[1]: tv, extra_key: body}, {lay[1]: [1], lay[2]: body},
                               {lay[1]: odd_tag, lay[2]: body}])
        if lay == 'internal':
            d = dict(body)
            d[tag] = tv
            if rng.random() < 0.5:
                d = {tag: tv, **body}
            return d
        if lay == 'external':
            return {tv: body}
        return {lay[1]: tv, lay[2]: body}
    raise AssertionError(k)


def g_valid_class(rng, spec, depth, force_struct=False):
    fields = [f for f in spec['fields'] if not f.get('kw_marker')]
    opts = spec.get('opts') or {}
    in_format = opts.get('in_format', ('struct',))
    use_tuple = 'tuple' in in_format and not force_struct and (rng.random() < 0.5 or 'struct' not in in_format)
    kw_started = False
    pos = []
    for f in spec['fields']:
        if f.get('kw_marker'):
            kw_started = True
            continue
        if not kw_started and not f.get('kw_only'):
            pos.append(f)
    if use_tuple:
        n_req = sum(1 for f in pos if 'default' not in f)
        n = rng.randint(n_req, len(pos))
        items = [g_valid(rng, f['ty'], depth - 1) for f in pos[:n]]
        return items if rng.random() < 0.6 else tuple(items)
    d = {}
    cls_rename = opts.get('rename')
    for f in fields:
        if 'default' in f and rng.random() < 0.45:
            continue
        key = f['name']
        if f.get('rename'):
            key = f['rename']
        elif f.get('in_names'):
            key = rng.choice(f['in_names'])
        elif f.get('aliases') and rng.random() < 0.5:
            key = rng.choice(f['aliases'])
        elif cls_rename or opts.get('in_rename'):
            from pane.field import rename_field
            style = cls_rename or rng.choice(opts['in_rename'])
            try:
                key = rename_field(f['name'], style)
            except ValueError:
                pass
        d[key] = g_valid(rng, f['ty'], depth - 1)
    if rng.random() < 0.5:
        items = list(d.items())
        rng.shuffle(items)
        d = dict(items)
    return d


# ---------------------------------------------------------------- near-valid mutation

def _paths(v, path=()):
    yield path
    if isinstance(v, (list, tuple)):
        for i, x in enumerate(v):
            yield from _paths(x, path + (i,))
    elif isinstance(v, dict):
        for k, x in v.items():
            yield from _paths(x, path + (('k', k),))


def _get(v, path):
    for p in path:
        v = v[p[1]] if isinstance(p, tuple) else v[p]
    return v


def _set(v, path, new):
    if not path:
        return new
    p = path[0]
    if isinstance(p, tuple):
        d = dict(v)
        d[p[1]] = _set(v[p[1]], path[1:], new)
        return d
    seq = list(v)
    seq[p] = _set(v[p], path[1:], new)
    return seq if isinstance(v, list) else tuple(seq)


def mutate(rng, v):
    """one type-blind edit at a random position of the value tree"""
    paths = list(_paths(v))
    path = rng.choice(paths)
    old = _get(v, path)
    r = rng.random()
    if isinstance(old, dict) and r < 0.7:
        d = dict(old)
        c = rng.random()
        if d and c < 0.3:
            del d[rng.choice(list(d))]
        elif c < 0.1 + 0.3:
            d[rng.choice(['kind', 'type', 't', 'tag'])] = rng.choice([[1], {}, {'a': 1}, None, 1.5, 'zz', ('a',)])
        elif c < 0.55:
            d[rng.choice(['zz', 'extra', 'a', 'A', 'kind', 'a_alias', 'my_field', 'myField', 'a_in'])] = g_scalar_value(rng)
        elif d and c < 0.8:
            k = rng.choice(list(d))
            val = d.pop(k)
            newk = rng.choice([str(k) + '_alias', str(k).upper(), 'kind', 'zz', 1, None]) if isinstance(k, str) else 'k'
            d[newk] = val
        else:
            k = rng.choice(list(d)) if d else 'a'
            d[k] = g_arbitrary(rng, 1)
        new = d
    elif isinstance(old, (list, tuple)) and r < 0.7:
        seq = list(old)
        c = rng.random()
        if seq and c < 0.35:
            seq.pop(rng.randrange(len(seq)))
        elif c < 0.7:
            seq.insert(rng.randint(0, len(seq)), g_arbitrary(rng, 1))
        elif c < 0.85:
            new = tuple(seq) if isinstance(old, list) else list(seq)
            return _set(v, path, new)
        else:
            return _set(v, path, {str(i): x for i, x in enumerate(seq)})
        new = seq if isinstance(old, list) else tuple(seq)
    elif isinstance(old, str) and r < 0.3:
        new = list(old)
    else:
        new = g_arbitrary(rng, 1)
    try:
        return _set(v, path, new)
    except TypeError:
        return new


def g_value_for(rng, term):
    """(value, stream) with stream in valid / near / arbitrary"""
    r = rng.random()
    if r < 0.45:
        return g_valid(rng, term), 'valid'
    if r < 0.85:
        v = g_valid(rng, term)
        for _ in range(rng.choice([1, 1, 2])):
            v = mutate(rng, v)
        return v, 'near'
    return g_arbitrary(rng, 2), 'arbitrary'


TWIN_FAMILIES = [
    ([('scalar', 'int'), ('scalar', 'float')], [1, 2, 1.5, True]),
    ([('scalar', 'float'), ('scalar', 'complex')], [1, 2.5]),
    ([('scalar', 'bool'), ('scalar', 'int')], [True, 0, 1]),
    ([('seq', 'list', ('scalar', 'int')), ('seq', 'tuple', ('scalar', 'int'))], [[1, 2], (3,), []]),
    ([('scalar', 'str'), ('literal', ['a'])], ['a', 'b']),
    ([('literal', [1]), ('scalar', 'float')], [1, 1.0, 2]),
    ([('seq', 'set', ('scalar', 'int')), ('seq', 'list', ('scalar', 'int'))], [[1, 1, 2]]),
    ([('dict', ('scalar', 'str'), ('scalar', 'int')), ('dict', ('scalar', 'str'), ('scalar', 'float'))], [{'a': 1}, {'a': 1.5}]),
    ([('scalar', 'int'), ('scalar', 'float'), ('none',)], [1, None, 2.5]),
]


def twin_union_cases(rng):
    """for each overlapping family: the union in both member orders, alone and under every wrapper
    (typing generics and the tuple / struct *literal* type forms), with values from the overlap.
    Both orders are used in the same process: the result must not depend on which was seen first."""
    out = []
    for members, vals in TWIN_FAMILIES:
        orders = [list(members), list(reversed(members))]
        if rng.random() < 0.5:
            orders.reverse()
        for ms in orders:
            u = ('union', ms)
            wrappers = [
                (u, lambda v: v), (('seq', 'list', u), lambda v: [v]), (('dict', ('scalar', 'str'), u), lambda v: {'k': v}),
                (('tuple', [u], 'typing'), lambda v: [v]), (('tuple', [u], 'literal'), lambda v: [v]),
                (('tuple', [u, ('scalar', 'str')], 'literal'), lambda v: (v, 's')), (('struct', [('f', u)]), lambda v: {'f': v}),
                (('struct', [('f', ('tuple', [u], 'literal'))]), lambda v: {'f': [v]}),
                (('union', [('seq', 'list', u), ('none',)]), lambda v: [v]),
            ]
            for term, wrapv in wrappers:
                for v in vals:
                    out.append((term, wrapv(v)))
    return out


def subclass_union_cases(rng):
    """untagged unions that list a dataclass and one of its subclasses, in both orders, at top level, as list element, with None,
    and as (list-typed) fields of an enclosing dataclass; values for the base and for the subclass.  A subclass instance is not
    a base instance for serialisation: each value must be written by its own class."""
    import terms
    out = []
    for out_fmt in ('struct', 'tuple'):
        base_spec = {'name': terms.fresh_name('Shape'), 'fields': [{'name': 'name', 'ty': ('scalar', 'str')}],
                     'opts': {'out_format': out_fmt}, 'hook': None}
        base_cls = terms.make_class(base_spec)
        sub_spec = {'name': terms.fresh_name('Circle'), 'fields': [{'name': 'radius', 'ty': ('scalar', 'float')}],
                    'opts': {'out_format': out_fmt}, 'hook': None, 'bases': (base_cls,), '_parent_spec': base_spec}
        b, s = ('class', base_spec), ('class', sub_spec)
        vals = [{'name': 'c', 'radius': 2.0}, {'name': 's'}, {'name': 'c', 'radius': 1}]
        if out_fmt == 'tuple':
            vals += [['c', 2.5], ['s']]
        for ms in ([b, s], [s, b]):
            u = ('union', list(ms))
            holder = {'name': terms.fresh_name('Drawing'), 'fields': [{'name': 'item', 'ty': u}, {'name': 'items', 'ty': ('seq', 'list', u), 'default': ('factory', [])}],
                      'opts': {}, 'hook': None}
            for v in vals:
                out.append((u, v))
                out.append((('seq', 'list', u), [v, v]))
                out.append((('union', list(ms) + [('none',)]), v))
                out.append((('dict', ('scalar', 'str'), u), {'k': v}))
                out.append((('class', holder), {'item': v, 'items': [v]}))
    return out


def tagged_shape_cases(rng):
    """Every layout of a tagged union x every near-valid shape, deterministically (the random stream reaches each shape only a few
    times per run): valid bodies for each variant, a surplus key next to an otherwise valid value, a missing tag / content key,
    unknown and ill-kinded and unhashable tags, wrong body kinds, non-mappings.  (term, value) pairs."""
    import terms
    out = []
    for lay in ('internal', 'external', ('adjacent', 't', 'c'), ('adjacent', 'tag', 'content')):
        for tvs in (['a', 'b'], [1, 'x'], [1, False], [True, 0], [None, 'b'], [0, '']):     # tags of several kinds, one equal (==) to a value of another's kind; None and falsy tags
            tag = 'kind'
            variants = []
            for i, tv in enumerate(tvs):
                fields = [{'name': 'x', 'ty': ('scalar', 'int')}] if i == 0 else [{'name': 'y', 'ty': ('scalar', 'str'), 'default': ('value', 'd')}]
                fields.append({'name': tag, 'ty': ('literal', [tv]), 'default': ('value', tv)})
                variants.append((tv, ('class', {'name': terms.fresh_name('Tv'), 'fields': fields, 'opts': {}, 'hook': None})))
            term = ('tagged', tag, lay, variants)
            bodies = [(tvs[0], {'x': 1}), (tvs[0], {'x': 'no'}), (tvs[0], {}), (tvs[1], {'y': 's'}), (tvs[1], {}), (tvs[1], {'y': 2}), (tvs[0], {'x': 1, 'zz': 0}), (tvs[0], [1]), (tvs[1], None)]
            odd_tags = [None, 'zzz', 1.5, True, [1], {}, (tvs[0],), ([tvs[0]],), 2, 0, False, 1, 1.0, 0.0, '']
            odd_tags = [ot for ot in odd_tags if not any(type(ot) is type(tv) and ot == tv for tv in tvs)]
            vals = [5, 'a', None, [], {}, [tvs[0], {'x': 1}]]
            for tv, body in bodies:
                if lay == 'internal':
                    if isinstance(body, dict):
                        vals += [{tag: tv, **body}, {**body, tag: tv}, {**body, tag: tv, 'surplus': None}, dict(body)]
                        vals += [{**body, tag: ot} for ot in odd_tags[:4]]
                elif lay == 'external':
                    vals += [{tv: body}, {tv: body, 'surplus': None}, {tv: body, tvs[1] if tv == tvs[0] else tvs[0]: body}, {'zzz': body}]
                else:
                    t_r, c_r = lay[1], lay[2]
                    vals += [{t_r: tv, c_r: body}, {c_r: body, t_r: tv}, {t_r: tv, c_r: body, 'surplus': None}, {t_r: tv, c_r: body, 1: 2, 'more': 3},
                             {t_r: tv}, {c_r: body}, {t_r: tv, 'surplus': body}, {'surplus': tv, c_r: body}]
            for ot in odd_tags:
                if lay == 'internal':
                    vals += [{tag: ot, 'x': 1}]
                elif lay == 'external':
                    try:
                        vals += [{ot: {'x': 1}}]
                    except TypeError:
                        pass
                else:
                    vals += [{lay[1]: ot, lay[2]: {'x': 1}}, {lay[1]: ot, lay[2]: {'x': 1}, 'surplus': 0}]
            for v in vals:
                out.append((term, v))
            # the same union one level down: as a list element and as a mapping value
            for v in vals[6:18]:
                out.append((('seq', 'list', term), [v]))
                out.append((('dict', ('scalar', 'str'), term), {'k': v}))
    return out


def std_kind_cases(rng):
    """every library-type target with every value of its pool, deterministically: alone, as list element, as mapping value,
    in a union before / after str, as a dataclass field.  (term, value) pairs."""
    import terms
    out = []
    for kind in ('decimal', 'fraction', 'datetime', 'date', 'time', 'path', 'pathlike', 'pattern', 'pattern_str', 'pattern_bytes',
                 'enum_tuple', 'enum_complex', 'enum_limit', 'vol_int', 'vol_tuple', 'vol_list', 'vol_range'):
        term = ('std', kind)
        holder = {'name': terms.fresh_name('Std'), 'fields': [{'name': 'v', 'ty': term}, {'name': 'n', 'ty': ('scalar', 'int'), 'default': ('value', 0)}], 'opts': {}, 'hook': None}
        for v in STD_POOL[kind]:
            out.append((term, v))
            out.append((('seq', 'list', term), [v]))
            out.append((('dict', ('scalar', 'str'), term), {'k': v}))
            out.append((('union', [term, ('scalar', 'str')]), v))
            out.append((('union', [('scalar', 'int'), term]), v))
            out.append((('class', holder), {'v': v}))
    return out

def literal_boundary_cases(rng):
    """Literal types that list values which compare equal but are different values (0 / False, 1 / True), in both orders
    and beside other values, with every listed value, the equal values of kinds that are NOT listed (1.0, 0.0, the other of
    int / bool) and an unlisted value: alone, as list element, as mapping value, in a union before str, as a dataclass field.
    Deterministic.  (term, value) pairs."""
    import terms
    out = []
    lists = [[False, 0], [0, False], [True, 1, 2], [1, True], [False, 0, 1, 2], [2, 1, 0, False], [None, 0, False], ['', 0, False],
             ['a', 1, True], [True, 1], [0], [False], [1, 2], ['1', 1]]
    probes = [0, False, 1, True, 2, 0.0, 1.0, -0.0, None, '', 'a', '1', 3]
    for vals in lists:
        term = ('literal', list(vals))
        holder = {'name': terms.fresh_name('Lit'), 'fields': [{'name': 'v', 'ty': term}, {'name': 'n', 'ty': ('scalar', 'int'), 'default': ('value', 0)}], 'opts': {}, 'hook': None}
        for v in probes:
            out.append((term, v))
            out.append((('seq', 'list', term), [v]))
            out.append((('dict', ('scalar', 'str'), term), {'k': v}))
            out.append((('union', [term, ('scalar', 'str')]), v))
            out.append((('class', holder), {'v': v}))
        out.append((('seq', 'list', term), list(vals) + list(vals)[::-1]))
    return out

def degenerate_class_cases(rng):
    """dataclasses at the edges of the field list -- no field at all, only init=False fields, only keyword-only fields, only
    defaulted fields, a single required field; with and without the tuple layout -- given the empty mapping, the empty
    sequence, a surplus key / element, None and a non-container: alone, as list element, as Optional, as mapping value and as
    a field of another dataclass.  Deterministic.  (term, value) pairs."""
    import terms
    I, S = ('scalar', 'int'), ('scalar', 'str')
    shapes = [
        ('Empty', [], {}),
        ('EmptyT', [], {'in_format': ('tuple', 'struct')}),
        ('EmptyX', [], {'allow_extra': True}),
        ('NonInit', [{'name': 'a', 'ty': I, 'init': False, 'default': ('value', 0)}], {}),
        ('NonInitT', [{'name': 'a', 'ty': I, 'init': False, 'default': ('value', 0)}], {'in_format': ('tuple', 'struct')}),
        ('KwOnly', [{'kw_marker': True}, {'name': 'a', 'ty': I, 'default': ('value', 1)}], {'in_format': ('tuple', 'struct')}),
        ('Defaults', [{'name': 'a', 'ty': I, 'default': ('value', 0)}, {'name': 'b', 'ty': S, 'default': ('value', '')}], {'in_format': ('tuple', 'struct')}),
        ('OneReq', [{'name': 'a', 'ty': I}], {'in_format': ('tuple', 'struct')}),
        ('NonInitFirst', [{'name': 'z', 'ty': S, 'init': False, 'default': ('value', 'z')}, {'name': 'a', 'ty': I}, {'name': 'b', 'ty': I, 'default': ('value', 0)}],
         {'in_format': ('tuple', 'struct')}),
    ]
    values = [{}, [], (), {'a': 1}, [1], {'zz': 1}, None, '', 0, [1, 2], ['x'], [1, 'x'], {'a': 'x'}, [1, 2, 3]]
    out = []
    for nm, fields, opts in shapes:
        spec = {'name': terms.fresh_name(nm), 'fields': [dict(f) for f in fields], 'opts': dict(opts), 'hook': None}
        term = ('class', spec)
        holder = {'name': terms.fresh_name('Holds' + nm), 'fields': [{'name': 'inner', 'ty': term}, {'name': 'n', 'ty': I, 'default': ('value', 0)}], 'opts': {}, 'hook': None}
        for v in values:
            out.append((term, v))
            out.append((('seq', 'list', term), [v]))
            out.append((('union', [term, ('none',)]), v))
            out.append((('dict', S, term), {'k': v}))
            out.append((('class', holder), {'inner': v}))
    return out


def raising_predicate_cases(rng):
    """conditions whose predicate fails to evaluate (it raises / its result has no truth value), alone and under every combinator,
    on scalar, sequence and dataclass-field targets, at top level and nested.  (term, value) pairs."""
    import terms
    out = []
    for flavour in ('boom', 'truth'):
        r = lambda: ('raise', terms.fresh_name(flavour))      # noqa: E731
        conds = [r(), ('not', r()), ('all', [('adj', 'positive'), r()]), ('all', [r(), ('adj', 'positive')]), ('any', [('adj', 'negative'), r()]),
                 ('any', [r(), ('const', terms.fresh_name('k'), True)]), ('all', [('const', terms.fresh_name('k'), False), r()])]
        for cd in conds:
            ti = ('cond', ('scalar', 'int'), cd)
            holder = {'name': terms.fresh_name('Pr'), 'fields': [{'name': 'v', 'ty': ti}], 'opts': {}, 'hook': None}
            for v in (1, -1, 0, 'x'):
                out.append((ti, v))
                out.append((('seq', 'list', ti), [v, v]))
                out.append((('union', [ti, ('scalar', 'str')]), v))
                out.append((('dict', ('scalar', 'str'), ti), {'k': v}))
                out.append((('class', holder), {'v': v}))
        tl = ('cond', ('seq', 'list', ('scalar', 'int')), r())
        for v in ([1, 2], [], ['x'], 5):
            out.append((tl, v))
            out.append((('seq', 'list', tl), [v]))
    return out


def cond_on_converted_cases(rng):
    """conditions over types whose conversion changes what the predicate sees: a set built from a sequence with repeats (its
    length), a Decimal / Fraction read from text (its sign), a tuple read from a list, a dataclass read from a mapping.  Both
    passes and from_data must judge the CONVERTED value.  (term, value) pairs."""
    import terms
    out = []
    setint = ('seq', 'set', ('scalar', 'int'))
    fs = ('seq', 'frozenset', ('scalar', 'int'))
    rows = [
        (('cond', setint, ('lenrange', 2, None)), [[1, 1], [1, 2], [1, 1, 2], [], [3, 3, 3]]),
        (('cond', setint, ('lenrange', None, 1)), [[1, 1], [1, 2], [], [2, 2, 2]]),
        (('cond', fs, ('adj', 'nonempty')), [[], [1, 1]]),
        (('cond', fs, ('lenrange', 1, 1)), [[4, 4], [4, 5]]),
        (('cond', ('std', 'decimal'), ('adj', 'positive')), ['1.5', '-2', '0', 3, 'abc']),
        (('cond', ('std', 'decimal'), ('valrange', 0, 10)), ['1.5', '11', '-1', 5]),
        (('cond', ('std', 'fraction'), ('adj', 'negative')), ['-1/3', '1/3', '0', 'x/y']),
        (('cond', ('scalar', 'float'), ('adj', 'positive')), [1, 0, -1, True, 2.5]),
        (('cond', ('scalar', 'complex'), ('adj', 'finite')), [1, 2.5]),
        (('cond', ('seq', 'tuple', ('scalar', 'int')), ('lenrange', 2, 2)), [[1, 2], (1, 2), [1], [1, 2, 3]]),
        (('cond', ('dict', ('scalar', 'str'), ('scalar', 'int')), ('lenrange', 1, None)), [{}, {'a': 1}]),
    ]
    for term, vals in rows:
        holder = {'name': terms.fresh_name('Cc'), 'fields': [{'name': 'v', 'ty': term}], 'opts': {}, 'hook': None}
        for v in vals:
            out.append((term, v))
            out.append((('seq', 'list', term), [v]))
            out.append((('union', [term, ('scalar', 'str')]), v))
            out.append((('class', holder), {'v': v}))
    return out
