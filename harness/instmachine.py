"""Instance state machine (Model/Instance.v) against pane: generated classes, a first construction by keywords, and a sequence
of operations (assign, delete, copy, deepcopy, replace); copy and replace move on to the new instance.  Every random choice comes
from the rng handed in.  Used by props/c16.py."""
import copy
import warnings

import terms
from terms import build, coq_list, coq_str, val_to_coq

# field type pool: (type term, members, near-members that convert, non-members)
POOL = [
    (('scalar', 'int'), [0, 1, -7, 2 ** 70, True], [], ['a', 1.5, None, [1]]),
    (('scalar', 'str'), ['', 'a', 'xyz'], [], [1, None, ['a'], b'a']),
    (('scalar', 'float'), [0.5, -2.25, 3, 7], [], ['a', None, [1.0]]),
    (('scalar', 'bool'), [True, False], [], [0, 1, 'a', None]),
    (('seq', 'list', ('scalar', 'int')), [[], [1, 2], [3]], [(1, 2), ()], [['a'], 'ab', 5, None, {1: 2}]),
    (('union', [('scalar', 'int'), ('none',)]), [None, 4, 0], [], ['a', 2.5, [1]]),
    (('tuple', [('scalar', 'int'), ('scalar', 'str')], 'typing'), [(1, 'a'), (0, '')], [[2, 'b']], [(1,), ('a', 1), 5, None]),
    (('seq', 'list', ('seq', 'list', ('scalar', 'int'))), [[], [[1], []], [[2, 3]]], [([1],)], [[1], [['a']], None]),
]


def gen_case(rng, idx):
    nf = rng.randint(1, 4)
    picks = [rng.randrange(len(POOL)) for _ in range(nf)]
    fields, meta = [], []
    # required fields first (a required positional parameter cannot follow one with a default)
    n_req = rng.randint(0, nf) if rng.random() < 0.7 else 0
    for i, p in enumerate(picks):
        term, members, near, non = POOL[p]
        f = {'name': f'f{i}', 'ty': term}
        required = i < n_req
        if not required:
            d = rng.choice(members)
            f['default'] = ('value', d)
            if rng.random() < 0.25:
                f['init'] = False
        fields.append(f)
        meta.append((term, members, near, non))
    frozen = rng.random() < 0.35
    spec = {'name': terms.fresh_name('Im'), 'fields': fields, 'opts': {'frozen': frozen}, 'hook': None}
    # constructor keywords: every required field, some of the others; mostly members
    kw = {}
    for f, (term, members, near, non) in zip(fields, meta):
        if f.get('init') is False:
            if rng.random() < 0.04:
                kw[f['name']] = rng.choice(members)        # not a constructor argument: TypeError
            continue
        if 'default' not in f or rng.random() < 0.5:
            r = rng.random()
            kw[f['name']] = rng.choice(non) if r < 0.05 else rng.choice(near) if (near and r < 0.2) else rng.choice(members)
    if rng.random() < 0.03 and kw:
        kw.pop(rng.choice(sorted(kw)))                       # possibly a missing required argument
    ops = []
    for _ in range(rng.randint(2, 7)):
        r = rng.random()
        i = rng.randrange(nf)
        term, members, near, non = meta[i]
        if r < 0.3:
            rr = rng.random()
            v = rng.choice(non) if rr < 0.15 else rng.choice(near) if (near and rr < 0.3) else rng.choice(members)
            ops.append(('assign', f'f{i}', v))
        elif r < 0.36:
            ops.append(('delete', f'f{i}'))
        elif r < 0.5:
            ops.append(('copy',))
        elif r < 0.62:
            ops.append(('deepcopy',))
        else:
            ch = {}
            for j in rng.sample(range(nf), rng.randint(0, min(2, nf))):
                term, members, near, non = meta[j]
                rr = rng.random()
                ch[f'f{j}'] = rng.choice(non) if rr < 0.15 else rng.choice(near) if (near and rr < 0.35) else rng.choice(members)
            if rng.random() < 0.04:
                ch['nosuch'] = 1
            ops.append(('replace', ch))
    return spec, kw, ops


def _state(inst, spec):
    return ([(f['name'], copy.deepcopy(getattr(inst, f['name']))) for f in spec['fields']], sorted(inst.__pane_set__))


def _classify(e):
    import dataclasses
    from pane.errors import ConvertError
    if isinstance(e, ConvertError):
        return ('convert',)
    if isinstance(e, dataclasses.FrozenInstanceError):
        return ('frozen',)
    if isinstance(e, AttributeError):
        return ('attr',)
    if isinstance(e, TypeError):
        return ('type',)
    return ('escape', type(e).__name__)


def _show(op):
    if op[0] == 'assign':
        return f'inst.{op[1]} = {op[2]!r}'
    if op[0] == 'delete':
        return f'del inst.{op[1]}'
    if op[0] == 'replace':
        return f'replace({", ".join(f"{k}={v!r}" for k, v in op[1].items())})'
    return f'copy.{op[0]}(inst)'


def _expected(cls, spec, before, op):
    """what the property asks of one operation, written from its text (not from pane's __replace__): copies have the same values
    and the same record; replace keeps every field it does not name, holds the re-validated value for those it names, and its
    record is the old one plus the named fields; names that are no constructor arguments are a TypeError, values outside the
    field's type a ConvertError; assignment and deletion on a frozen instance are refused"""
    import pane
    from pane.errors import ConvertError
    vals, st = before
    if op[0] == 'assign':
        return ('frozen',) if cls.__pane_info__.opts.frozen else ('none',)
    if op[0] == 'delete':
        return ('attr',)
    if op[0] in ('copy', 'deepcopy'):
        return ('inst', (vals, st))
    fields = {f.name: f for f in cls.__pane_info__.fields}
    for k in op[1]:
        if k not in fields or not fields[k].init:
            return ('type',)
    new = []
    for k, v in vals:
        if k in op[1]:
            try:
                new.append((k, pane.convert(copy.deepcopy(op[1][k]), fields[k].type)))
            except ConvertError:
                return ('convert',)
        elif k in st and fields[k].init:
            # a set field is handed to the constructor again: a value that was ASSIGNED (assignment does not validate) and
            # lies outside the field's type is refused there; a member of the type comes back unchanged
            try:
                new.append((k, pane.convert(copy.deepcopy(v), fields[k].type)))
            except ConvertError:
                return ('convert',)
        else:
            new.append((k, v))
    return ('inst', (new, sorted(set(st) | set(op[1]))))


def run_pane(spec, kw, ops):
    """-> (observation of the construction, [observation per op], notes); notes = monitor-side facts (source unchanged, ...)"""
    cls = terms.make_class(spec)
    notes = []
    with warnings.catch_warnings():
        warnings.simplefilter('ignore')
        try:
            cur = cls(**copy.deepcopy(kw))
        except Exception as e:
            return _classify(e), [], notes
        o0 = ('inst', _state(cur, spec))
        obs = []
        for op in ops:
            before = _state(cur, spec)
            try:
                if op[0] == 'assign':
                    setattr(cur, op[1], copy.deepcopy(op[2]))
                    obs.append(('none',))
                    if cls.__pane_info__.opts.frozen:
                        notes.append(f'{_show(op)} on a frozen instance was accepted: {cur!r}')
                    elif getattr(cur, op[1]) != op[2] or op[1] not in cur.__pane_set__:
                        notes.append(f'{_show(op)} left {cur!r} with set-record {sorted(cur.__pane_set__)}')
                elif op[0] == 'delete':
                    delattr(cur, op[1])
                    obs.append(('none',))
                    notes.append(f'{_show(op)} was accepted: {cur!r}')
                else:
                    want = _expected(cls, spec, before, op)
                    new = copy.copy(cur) if op[0] == 'copy' else copy.deepcopy(cur) if op[0] == 'deepcopy' else cur.__replace__(**copy.deepcopy(op[1]))
                    if want[0] != 'inst':
                        notes.append(f'{_show(op)} on {cur!r} returned {new!r}; the property asks for {want[0]}')
                    elif _state(new, spec) != want[1]:
                        notes.append(f'{_show(op)} on {cur!r} with set-record {before[1]} gave {_state(new, spec)}; the property asks for {want[1]}')
                    if _state(cur, spec) != before:
                        notes.append(f'{op[0]} changed the source instance: {before} -> {_state(cur, spec)}')
                    if new is cur:
                        notes.append(f'{op[0]} returned the same object')
                    if op[0] in ('copy', 'deepcopy') and not (new == cur) and cls.__pane_info__.opts.eq:
                        notes.append(f'{op[0]} of {cur!r} is not equal to it: {new!r}')
                    if type(new) is not type(cur):
                        notes.append(f'{op[0]} gave a {type(new).__name__}')
                    cur = new
                    obs.append(('inst', _state(cur, spec)))
            except Exception as e:
                obs.append(_classify(e))
                want = _expected(cls, spec, before, op)
                if want[0] != obs[-1][0]:
                    notes.append(f'{_show(op)} on {cur!r} with set-record {before[1]} raised {type(e).__name__}: {str(e)[:120]!r}; the property asks for '
                                 f'{want[1] if want[0] == "inst" else want[0]}')
                if _state(cur, spec) != before:
                    notes.append(f'a failed {op[0]} changed the instance: {before} -> {_state(cur, spec)}')
    return o0, obs, notes


def _kw_coq(d):
    return coq_list(f'({coq_str(k)}, {val_to_coq(v)})' for k, v in d.items())


def _obs_coq(o):
    if o[0] == 'inst':
        vals, st = o[1]
        return f'(OutInst (mkIState {coq_list(f"({coq_str(k)}, {val_to_coq(v)})" for k, v in vals)} {coq_list(coq_str(s) for s in st)}))'
    return {'none': 'OutNone', 'frozen': 'OutFrozen', 'attr': 'OutAttrError', 'type': 'OutTypeError', 'convert': 'OutConvertError'}.get(o[0], '(OutEscape EOther)')


def case_to_coq(spec, kw, ops, o0, obs):
    cls = terms.make_class(spec)
    flds = []
    by_name = {f.name: f for f in cls.__pane_info__.fields}
    from pane.field import _MISSING
    for f in spec['fields']:
        pf = by_name[f['name']]
        if pf.default is not _MISSING:
            d = f'(Some {val_to_coq(pf.default)})'
        elif pf.default_factory is not None:
            d = f'(Some {val_to_coq(pf.default_factory())})'
        else:
            d = 'None'
        flds.append(f'(mkIFld {coq_str(pf.name)} {build(f["ty"]).coq} {"true" if pf.init else "false"} {d})')
    icls = f'(mkICls {"true" if cls.__pane_info__.opts.frozen else "false"} {coq_list(flds)})'
    cops = []
    for op in ops:
        if op[0] == 'assign':
            cops.append(f'(OpAssign {coq_str(op[1])} {val_to_coq(op[2])})')
        elif op[0] == 'delete':
            cops.append(f'(OpDelete {coq_str(op[1])})')
        elif op[0] == 'copy':
            cops.append('OpCopy')
        elif op[0] == 'deepcopy':
            cops.append('OpDeepCopy')
        else:
            cops.append(f'(OpReplace {_kw_coq(op[1])})')
    return f'({icls}, {_kw_coq(kw)}, {_obs_coq(o0)}, {coq_list(cops)}, {coq_list(_obs_coq(o) for o in obs)})'
