"""Type expressions for the subclass-cache model (coq/Model/TypeKey.v): generation, the typing objects they denote, their Coq
terms, and what pane / typing do with them.  Used by props/c10.py (obligation corr_typekey)."""
import functools
import operator
import typing as t

ATOMS = [int, float, str, bool, bytes, type(None), complex]        # XAtom (10 + index)
APPS = {2: ('list', 1), 3: ('dict', 2), 4: ('tuple', None), 5: ('set', 1), 6: ('frozenset', 1)}
APP_PY = {2: list, 3: dict, 4: tuple, 5: set, 6: frozenset}
LIT_VALUES = [(2, 1), (2, 2), (2, 3), (3, 'a'), (3, 'b'), (4, True), (4, False), (2, 0)]     # (type tag, value)
LIT_Z = {'a': 100, 'b': 101, True: 1, False: 0}


def gen_tx(rng, depth):
    r = rng.random()
    if depth <= 0 or r < 0.3:
        return ('atom', rng.randrange(len(ATOMS)))
    if r < 0.6:
        o = rng.choice(list(APPS))
        name, arity = APPS[o]
        n = arity if arity is not None else rng.randint(1, 3)
        args = [gen_tx(rng, depth - 1) for _ in range(n)]
        if o == 3:
            args[0] = ('atom', 2)                       # dict[str, ...]
        if o in (5, 6):
            args = [('atom', rng.choice([0, 1, 2, 3]))]  # hashable elements
        return ('app', o, args)
    if r < 0.85:
        ms = []
        for _ in range(rng.randint(2, 3)):
            m = gen_tx(rng, depth - 1)
            if m[0] == 'union':
                m = ('atom', rng.randrange(len(ATOMS)))   # typing flattens nested unions
            if not any(py_eq(m, x) for x in ms):
                ms.append(m)
        if len(ms) < 2:
            return ms[0]
        return ('union', ms)
    vals = rng.sample(LIT_VALUES, rng.randint(1, 3))
    return ('lit', vals)


def twin(rng, x):
    """a type expression that == identifies with x but writes some union / literal in another order (or x itself)"""
    k = x[0]
    if k == 'atom':
        return x
    if k == 'app':
        return ('app', x[1], [twin(rng, a) for a in x[2]])
    if k == 'union':
        ms = [twin(rng, m) for m in x[1]]
        if rng.random() < 0.7:
            ms = ms[::-1] if len(ms) == 2 or rng.random() < 0.5 else ms[1:] + ms[:1]
        return ('union', ms)
    vals = list(x[1])
    if rng.random() < 0.7:
        vals = vals[::-1]
    return ('lit', vals)


def py_eq(a, b):
    """reference reading of == on typing objects (used by the generator only, to keep union members distinct)"""
    if a[0] != b[0]:
        return False
    if a[0] == 'atom':
        return a[1] == b[1]
    if a[0] == 'app':
        return a[1] == b[1] and len(a[2]) == len(b[2]) and all(py_eq(x, y) for x, y in zip(a[2], b[2]))
    if a[0] == 'union':
        return all(any(py_eq(x, y) for y in b[1]) for x in a[1]) and all(any(py_eq(x, y) for x in a[1]) for y in b[1])
    return set(a[1]) == set(b[1])


def to_py(x):
    k = x[0]
    if k == 'atom':
        return ATOMS[x[1]]
    if k == 'app':
        args = tuple(to_py(a) for a in x[2])
        return APP_PY[x[1]][args if len(args) > 1 else args[0]]       # builtin generics: never interned
    if k == 'union':
        return functools.reduce(operator.or_, [to_py(m) for m in x[1]])   # PEP 604 where possible: not interned by equality
    return t.Literal[tuple(v for _, v in x[1])]


def from_py(ty):
    """the structure a typing object actually has (typing interns some spellings by equality; a case whose objects do not have
    the generated structure is dropped)"""
    import types
    origin = t.get_origin(ty)
    if origin is t.Union or origin is getattr(types, 'UnionType', None):
        return ('union', [from_py(a) for a in t.get_args(ty)])
    if origin is t.Literal:
        return ('lit', [({int: 2, str: 3, bool: 4}[type(v)], v) for v in t.get_args(ty)])
    if origin is not None:
        o = {v: k for k, v in APP_PY.items()}[origin]
        return ('app', o, [from_py(a) for a in t.get_args(ty)])
    return ('atom', ATOMS.index(ty))


def same_structure(a, b):
    if a[0] != b[0]:
        return False
    if a[0] == 'atom':
        return a[1] == b[1]
    if a[0] == 'app':
        return a[1] == b[1] and len(a[2]) == len(b[2]) and all(same_structure(x, y) for x, y in zip(a[2], b[2]))
    if a[0] == 'union':
        return len(a[1]) == len(b[1]) and all(same_structure(x, y) for x, y in zip(a[1], b[1]))
    return [(tt, type(v), v) for tt, v in a[1]] == [(tt, type(v), v) for tt, v in b[1]]


def to_coq(x):
    k = x[0]
    if k == 'atom':
        return f'(XAtom {10 + x[1]})'
    if k == 'app':
        return f'(XApp {x[1]} [{"; ".join(to_coq(a) for a in x[2])}])'
    if k == 'union':
        return f'(XUnion [{"; ".join(to_coq(m) for m in x[1])}])'
    return '(XLit [' + '; '.join(f'({tt}, {LIT_Z.get(v, v) if not isinstance(v, bool) else int(v)}%Z)' for tt, v in x[1]) + '])'


def show(x):
    return repr(to_py(x))
