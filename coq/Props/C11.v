(* C11 -- untagged unions: the left-most accepting member wins.
   The specification side mentions only "member i accepts / rejects", never the loop. *)
From Coq Require Import List.
Require Import Base.Outcome Model.Values Model.Types Model.Conv Lemmas.AgreeLemmas Lemmas.AgreeThm Lemmas.UnionLemmas.
Import ListNotations.

Theorem C11_leftmost : forall ms v x,
  tc (TUnion ms) v = Ok x <->
  exists pre m post, ms = pre ++ m :: post /\ Forall (fun m' => tc m' v = Reject) pre /\ tc m v = Ok x.
Proof. exact union_leftmost. Qed.
Print Assumptions C11_leftmost.

Theorem C11_rejects_iff_all_reject : forall ms v,
  tc (TUnion ms) v = Reject <-> Forall (fun m => tc m v = Reject) ms.
Proof. exact union_rejects_iff. Qed.
Print Assumptions C11_rejects_iff_all_reject.

Theorem C11_flatten : forall pre inner post v,
  tc (TUnion (pre ++ TUnion inner :: post)) v = tc (TUnion (pre ++ inner ++ post)) v.
Proof. exact union_flatten. Qed.
Print Assumptions C11_flatten.

Theorem C11_optional_idem : forall t v,
  tc (TUnion [TUnion [t; TNone]; TNone]) v = tc (TUnion [t; TNone]) v.
Proof. exact optional_idem. Qed.
Print Assumptions C11_optional_idem.

Theorem C11_convert_iff_some_member : forall ms v,
  wf_ty (TUnion ms) ->
  ((exists x, convert (TUnion ms) v = COk x) <-> exists m, In m ms /\ exists x, tc m v = Ok x).
Proof. exact union_convert_iff. Qed.
Print Assumptions C11_convert_iff_some_member.
