(* C10 -- results are independent of call history (memoisation is transparent).
   (1) pane.util.KeyCache, unbounded and LRU (maxsize >= 1), as state machines: after ANY
       sequence of calls every answer is the value of the memoised function; the LRU mode
       keeps at most maxsize distinct keys in recency order and evicts the least recently used;
       for several threads with the code's critical sections ([locked lookup] [unlocked
       compute] [locked insert]) the invariant holds in EVERY interleaving.
   (2) the converter cache is keyed on id(type object): in a world where a collected object's
       id may be given to the next object, a lookup answers with the structure of the object
       it was asked about after ANY history of builds, drops, collections and lookups --
       provided a cache entry keeps its type object alive, which is read from the source
       (Gen/GenCache.v: unbounded_pins_args); without it the statement is false (_refuted).
   PARTIAL for threads: byte-code level preemption inside CPython is not modelled. *)
From Coq Require Import List Arith.
Require Import Gen.GenCache Model.Cache Lemmas.CacheLemmas Model.TypeKey Lemmas.TypeKeyLemmas.
Import ListNotations.

Theorem C10_unbounded_cache_transparent : forall (V : Type) (f : nat -> V) ks,
  map fst (snd (run_calls V (ucall V f) ks)) = map f ks.
Proof. exact unbounded_history_transparent. Qed.
Print Assumptions C10_unbounded_cache_transparent.

Theorem C10_lru_cache_transparent : forall (V : Type) (f : nat -> V) m ks,
  1 <= m -> map fst (snd (run_calls V (lcall V f m) ks)) = map f ks.
Proof. exact lru_history_transparent. Qed.
Print Assumptions C10_lru_cache_transparent.

Theorem C10_lru_refines_memo : forall (V : Type) (f : nat -> V) m c k,
  1 <= m -> lru_inv V f m c ->
  let '(c', v, _) := lcall V f m c k in
  v = f k /\ lru_inv V f m c' /\ (exists pre, keys V c' = pre ++ [k]).
Proof. exact lcall_refines_memo. Qed.

Theorem C10_lru_evicts_least_recent : forall (V : Type) (f : nat -> V) m c k,
  lookup V k c = None -> length c = m -> 1 <= m ->
  fst (fst (lcall V f m c k)) = tl c ++ [(k, f k)].
Proof. exact lcall_evicts_oldest. Qed.

Theorem C10_all_thread_interleavings : forall (V : Type) (f : nat -> V) m steps,
  match m with Some mx => 1 <= mx | None => True end ->
  conc_inv V f m (fold_left (conc_step V f m) steps (mkC V [] [])).
Proof. exact conc_all_interleavings. Qed.
Print Assumptions C10_all_thread_interleavings.

(* the converter cache, with the pinning the current source has *)
Theorem C10_source_pins_type_objects : unbounded_pins_args = true /\ converter_key = KeyIdAndHandlers.
Proof. split; reflexivity. Qed.

Theorem C10_lookup_history_free : forall (S : Type) ops i s,
  snd (wstep S unbounded_pins_args (wrun S unbounded_pins_args ops) (Lookup S i)) = Some s ->
  exists o, find_obj S i (live S (wrun S unbounded_pins_args ops)) = Some o /\ s = ostruct S o.
Proof. exact history_free. Qed.
Print Assumptions C10_lookup_history_free.

Theorem C10_without_pinning_refuted :
  exists ops i s o, snd (wstep nat false (wrun nat false ops) (Lookup nat i)) = Some s /\
                    find_obj nat i (live nat (wrun nat false ops)) = Some o /\ s <> ostruct nat o.
Proof. exact unpinned_refuted. Qed.

(* ---------------------------------------------------------------------------------------------
   The second memo table: the cache of generic subclasses behind  G[params]  (Model/TypeKey.v,
   tied to pane and typing by corr_typekey).  typing's == identifies Union[int, float] with
   Union[float, int] and Literal[1, 2] with Literal[2, 1]; pane's ordered key does not. *)
Theorem C10_ordered_key_determines_the_parameter : forall a b,
  xwf a = true -> xwf b = true -> okey a = okey b -> a = b.
Proof. exact okey_injective. Qed.
Print Assumptions C10_ordered_key_determines_the_parameter.

(* any sequence of specialisations of one generic class, any cache size (evictions included): each
   result is the class built for ITS OWN parameter -- member order, literal order and all *)
Theorem C10_subclass_cache_transparent : forall (C : Type) (build : tx -> C) m ps,
  forallb xwf ps = true -> sc_run C build pane_same m [] ps = map build ps.
Proof. intros C build m ps W. apply sc_run_transparent; [intros b v []|exact W]. Qed.
Print Assumptions C10_subclass_cache_transparent.

Theorem C10_equality_keyed_subclass_cache_refuted :
  exists ps, forallb xwf ps = true /\ sc_run tx (fun a => a) old_same_class 256 [] ps <> map (fun a => a) ps.
Proof. exact old_key_refuted. Qed.

Theorem C10_equality_keyed_subclass_cache_refuted_literal :
  exists ps, forallb xwf ps = true /\ sc_run tx (fun a => a) old_same_class 256 [] ps <> map (fun a => a) ps.
Proof. exact old_key_refuted_literal. Qed.
