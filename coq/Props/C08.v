(* C08 -- error messages are total and complete.
   [render] (Model/Render.v) models ErrorNode.print_error, including the fusing of
   non-branching product chains into dotted keys, the one-level flattening of sums and
   the inside_sum variants; [render_str] models str(ConvertError).  RRaises = the
   renderer raised; RUnmodelled = the text contains str() of a float / a traceback,
   which the model does not spell out (such trees are compared on pane only).
   Determinism: [render] is a function of the tree, and the two SETS of a product node
   (missing / unexpected field names) are printed sorted ([canon_tree], Model/RenderSort.v),
   so that the text is the same however those sets are enumerated (the order of a Python set of
   strings changes with the interpreter's hash seed): C08_message_independent_of_set_order.
   [render_message] = str(ConvertError) = render_str after canon_tree. *)
From Coq Require Import List String.
From Coq Require Import Sorting.Permutation.
Require Import Model.Values Model.Types Model.Conv Model.Render Model.RenderSort Lemmas.AgreeLemmas Lemmas.RenderLemmas Lemmas.RenderSortLemmas.
Import ListNotations.

(* rendering the tree of ANY failed conversion (any well-formed type, any value) never raises *)
Theorem C08_render_total : forall t v e,
  wf_ty t -> ce t v = CTree e -> render_message e <> RRaises.
Proof. exact render_message_total. Qed.
Print Assumptions C08_render_total.

(* every tree the diagnostic pass produces is well shaped: no duplicate-key leaf directly
   under a sum, no absent child, every product node has a child / missing / extra entry *)
Theorem C08_produced_trees_well_shaped : forall t, wf_ty t -> forall v e, ce t v = CTree e -> tree_ok true e.
Proof. exact ce_tree_ok. Qed.
Print Assumptions C08_produced_trees_well_shaped.

(* the message mentions every path component (also when chains are fused into a.b.c),
   the expectation of every leaf, every missing / unexpected / duplicated field, the
   extra info line and the name of a failed condition: each is a token of the text *)
Theorem C08_message_mentions : forall t v e toks,
  wf_ty t -> ce t v = CTree e -> render EmptyString false None (canon_tree e) = RText toks -> incl (mentioned e) toks.
Proof. exact render_message_mentions. Qed.
Print Assumptions C08_message_mentions.

(* one and the same failure -- the same nodes, their sets of missing and unexpected names
   enumerated in any other order -- gives one and the same text *)
Theorem C08_message_independent_of_set_order : forall e e', set_equiv e e' -> render_message e = render_message e'.
Proof. exact message_independent_of_set_order. Qed.
Print Assumptions C08_message_independent_of_set_order.

Example C08_two_enumerations_of_one_failure :
  let a := EProduct "struct S" [] (VDict []) ["beta"; "gamma"; "alpha"] [VStr "zeta"; VStr "eta"] in
  let b := EProduct "struct S" [] (VDict []) ["gamma"; "alpha"; "beta"] [VStr "eta"; VStr "zeta"] in
  set_equiv a b /\ a <> b /\
  render_message a = RText ["Expected struct S" ++ nl ++ "  Missing required field 'alpha'" ++ nl ++ "  Missing required field 'beta'" ++ nl
                            ++ "  Missing required field 'gamma'" ++ nl ++ "  Unexpected field 'eta'" ++ nl ++ "  Unexpected field 'zeta'"]%string.
Proof.
  simpl. split; [|split; [discriminate|vm_compute; reflexivity]].
  repeat split; auto.
  - apply Permutation_sym. apply perm_trans with ["alpha"; "beta"; "gamma"]%string; [|apply perm_swap || idtac].
    + apply perm_trans with ["alpha"; "gamma"; "beta"]%string; [apply perm_swap|apply perm_skip, perm_swap].
    + apply perm_trans with ["beta"; "alpha"; "gamma"]%string; [apply perm_swap|apply perm_skip, perm_swap].
  - apply perm_swap.
  - intros x y [<-|[<-|[]]] [<-|[<-|[]]] H; try reflexivity; vm_compute in H; discriminate.
Qed.

Example C08_fused_chain :
  render_message (EProduct "struct Out" [(KVal (VStr "a"), EProduct "struct Mid" [(KVal (VStr "b"),
      EProduct "struct In" [] (VDict []) ["z"] [])] (VDict []) [] [])] (VDict []) [] [])
  = RText ["Expected struct Out" ++ nl ++ "  Missing required field 'a.b.z'"]%string.
Proof. vm_compute. reflexivity. Qed.
