(* C08 -- error messages are total and complete.
   [render] (Model/Render.v) models ErrorNode.print_error, including the fusing of
   non-branching product chains into dotted keys, the one-level flattening of sums and
   the inside_sum variants; [render_str] models str(ConvertError).  RRaises = the
   renderer raised; RUnmodelled = the text contains str() of a float / a traceback,
   which the model does not spell out (such trees are compared on pane only).
   Determinism is the fact that [render] is a function. *)
From Coq Require Import List String.
Require Import Model.Values Model.Types Model.Conv Model.Render Lemmas.AgreeLemmas Lemmas.RenderLemmas.
Import ListNotations.

(* rendering the tree of ANY failed conversion (any well-formed type, any value) never raises *)
Theorem C08_render_total : forall t v e,
  wf_ty t -> ce t v = CTree e -> render_str e <> RRaises.
Proof. exact render_total. Qed.
Print Assumptions C08_render_total.

(* every tree the diagnostic pass produces is well shaped: no duplicate-key leaf directly
   under a sum, no absent child, every product node has a child / missing / extra entry *)
Theorem C08_produced_trees_well_shaped : forall t, wf_ty t -> forall v e, ce t v = CTree e -> tree_ok true e.
Proof. exact ce_tree_ok. Qed.
Print Assumptions C08_produced_trees_well_shaped.

(* the message mentions every path component (also when chains are fused into a.b.c),
   the expectation of every leaf, every missing / unexpected / duplicated field, the
   extra info line and the name of a failed condition: each is a token of the text *)
Theorem C08_message_mentions : forall t v e toks,
  wf_ty t -> ce t v = CTree e -> render EmptyString false None e = RText toks -> incl (mentioned e) toks.
Proof. exact message_mentions. Qed.
Print Assumptions C08_message_mentions.

Example C08_fused_chain :
  render_str (EProduct "struct Out" [(KVal (VStr "a"), EProduct "struct Mid" [(KVal (VStr "b"),
      EProduct "struct In" [] (VDict []) ["z"] [])] (VDict []) [] [])] (VDict []) [] [])
  = RText ["Expected struct Out" ++ nl ++ "  Missing required field 'a.b.z'"]%string.
Proof. vm_compute. reflexivity. Qed.
