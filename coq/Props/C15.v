(* C15 -- dataclass data layouts and field-name resolution.
   Name derivation: Model/FieldNames.v models FieldSpec.make_field (tied by an exhaustive
   correspondence over field options x class rename styles); the renamed spellings are the
   canonical ones of C20.  Binding: the decision table, read off the conversion model
   (tied by corr_convert).  [find_field k fs] = the field a key binds to. *)
From Coq Require Import ZArith List Bool String.
Require Import Base.Styles Base.Outcome Model.Rename Model.FieldNames Model.Values Model.Vocab Model.Types Model.Conv Model.Into.
Require Import Gen.GenGates Lemmas.RenameLemmas Lemmas.AgreeThm Lemmas.ClassLemmas Lemmas.NamesLemmas.
Import ListNotations.

(* ---- names ---- *)
Theorem C15_names_default : forall name, make_field_names name no_options None None = MFOk [name] name.
Proof. exact names_default. Qed.
Theorem C15_names_class_styles : forall ws styles st,
  snake_words ws ->
  make_field_names (snake ws) no_options (Some styles) (Some st)
  = MFOk (map (fun s => canonical s ws) styles) (canonical st ws).
Proof. exact names_class_styles. Qed.
Print Assumptions C15_names_class_styles.
Theorem C15_names_out_name_wins : forall name sp ir orr o i out,
  s_out_name sp = Some o -> make_field_names name sp ir orr = MFOk i out -> out = o.
Proof. exact names_out_name. Qed.
Theorem C15_names_aliases_additional : forall ws al st i out,
  snake_words ws ->
  make_field_names (snake ws) (mkSpec None None (Some al) None) (Some [st]) (Some st) = MFOk i out ->
  In out i /\ Forall (fun a => In a i) al.
Proof. exact names_aliases_keep_output_readable. Qed.
Print Assumptions C15_names_aliases_additional.

(* ---- binding from a mapping ---- *)
Theorem C15_key_binds_iff_input_name : forall k f,
  field_accepts k f = true <->
  f_init f = true /\ exists n, k = VStr n /\ (n = f_name f \/ In n (f_in_names f)).
Proof. exact key_binds_iff_input_name. Qed.
Theorem C15_bound_field_accepts_key : forall k (fs : list (fld * ty)) f t,
  find_field k fs = Some (f, t) -> field_accepts k f = true /\ In (f, t) fs.
Proof. intros k fs f t. apply find_field_accepts. Qed.
Theorem C15_unknown_key : forall fs ae k x r vals,
  find_field k fs = None ->
  struct_try_loop tc fs ae ((k, x) :: r) vals = if ae then struct_try_loop tc fs ae r vals else Reject.
Proof. exact struct_loop_unknown_key. Qed.
Theorem C15_duplicate_key_rejected : forall fs ae k x r vals f t,
  find_field k fs = Some (f, t) -> has_value (f_name f) vals = true ->
  struct_try_loop tc fs ae ((k, x) :: r) vals = Reject.
Proof. exact struct_loop_duplicate. Qed.
Theorem C15_known_key_converted_with_field_type : forall fs ae k x r vals f t y,
  find_field k fs = Some (f, t) -> has_value (f_name f) vals = false -> tc t x = Ok y ->
  struct_try_loop tc fs ae ((k, x) :: r) vals = struct_try_loop tc fs ae r (vals ++ [(f_name f, y)]).
Proof. exact struct_loop_known. Qed.
Theorem C15_missing_required_field : forall fs vals f,
  In f fs -> f_init f = true -> field_get (f_name f) vals = None -> f_default f = DNone ->
  fill_defaults fs vals = None.
Proof. exact fill_defaults_missing. Qed.
Print Assumptions C15_known_key_converted_with_field_type.

(* ---- layouts ---- *)
Theorem C15_disabled_layouts_rejected : forall h fs v,
  (pane_seq_gate_try (kind_of v) = true -> has_fmt FTuple h = false -> tc (TClass h fs) v = Reject) /\
  (pane_seq_gate_try (kind_of v) = false -> pane_map_gate_try (kind_of v) = true -> has_fmt FStruct h = false ->
   tc (TClass h fs) v = Reject) /\
  (pane_seq_gate_try (kind_of v) = false -> pane_map_gate_try (kind_of v) = false -> tc (TClass h fs) v = Reject).
Proof. exact disabled_layouts_rejected. Qed.
Theorem C15_sequence_length_must_be_in_range : forall h fs v,
  pane_seq_gate_try (kind_of v) = true ->
  (let '(mn, mx) := pos_args (map fst fs) in
   (mn <=? List.length (items_of v))%nat && (List.length (items_of v) <=? mx)%nat = false) ->
  tc (TClass h fs) v = Reject.
Proof. exact sequence_length_out_of_range. Qed.
Theorem C15_positional_binding_in_field_order : forall (fs : list (fld * ty)) xs vals,
  tuple_try_loop tc fs xs = Ok vals ->
  exists n, map fst vals = firstn n (map (fun ft => f_name (fst ft)) (filter (fun ft => f_init (fst ft)) fs)).
Proof. exact tuple_loop_binds_in_order. Qed.
Theorem C15_output_names_and_exclusion : forall (fs : list (fld * ty)) attrs out,
  class_into into_data fs attrs = Ok out ->
  map fst out = map (fun ft => f_out_name (fst ft)) (filter (fun ft => negb (f_exclude (fst ft))) fs).
Proof. exact class_into_names. Qed.
Print Assumptions C15_output_names_and_exclusion.
