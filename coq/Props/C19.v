(* C19 -- JSON / YAML file round trip and stream ownership.   PARTIAL: json and PyYAML are
   oracles ([dump] / [load] with the law  load (dump opts d) = normalise d  for representable
   data, validated by testing only).  Proved: the ownership state machine of open_file (caller
   streams are left as they were; a path is opened by pane and closed on normal and exceptional
   exit; every reader / writer goes through open_file, UTF-8 by default) -- read from the source
   by AST; the file round trip as a composition of the serialiser law, the list-vs-tuple
   insensitivity of reading (proved for [norm_ty]: scalars, None, scalar literals, sequences, tuples,
   mappings, struct literal types, unions, conditions and DATACLASSES in both input formats, at any nesting) and C05. *)
From Coq Require Import List Bool String.
Require Import Base.Outcome Model.Values Model.Vocab Model.Types Model.Conv Model.Into Model.IO Gen.GenIO Lemmas.IOLemmas Lemmas.NestedRoundTrip Lemmas.FileRoundTrip.
Import ListNotations.

Theorem C19_caller_stream_left_open : forall s i, with_file s (Stream i) = (s, i).
Proof. exact stream_left_as_it_was. Qed.
Print Assumptions C19_caller_stream_left_open.

Theorem C19_path_opened_and_closed : forall s,
  (forall i, In i (map fst (handles s)) -> i < next_id s) ->
  let '(s', h) := with_file s Path in
  is_open h (handles s') = Some false /\ (forall j, j <> h -> is_open j (handles s') = is_open j (handles s)).
Proof. exact path_handle_closed. Qed.
Print Assumptions C19_path_opened_and_closed.

Theorem C19_all_readers_and_writers_use_open_file_utf8 :
  forallb (fun p => snd p) io_functions_use_open_file = true /\ default_encoding = "utf-8"%string.
Proof. exact all_io_functions_go_through_open_file. Qed.

Theorem C19_file_roundtrip_composition : forall (opts : Type) (dump : opts -> pyval -> string) (load : string -> option pyval),
  (forall o d, load (dump o d) = Some (normalise d)) ->
  forall t o x d,
  into_data t x = Ok d -> tc t (normalise d) = tc t d -> tc t d = Ok x ->
  exists text, write opts dump o t x = Ok text /\ read load t text = COk x.
Proof. exact file_roundtrip. Qed.
Print Assumptions C19_file_roundtrip_composition.

Theorem C19_reading_ignores_list_vs_tuple_partial : forall t, norm_ty t -> forall v, tc t (normalise v) = tc t v.
Proof. exact norm_insensitive. Qed.
Print Assumptions C19_reading_ignores_list_vs_tuple_partial.
(* non-vacuity: a dataclass with a list-of-tuples field and an optional struct field is in the fragment *)
Example C19_norm_fragment_example :
  norm_ty (TClass (mkCls "P" [FStruct; FTuple] false false HNone)
     [(mkFld "pts" ["pts"] "pts" true false false DNone, TSeq SeqList (TTuple [TScalar SFloat; TScalar SFloat]));
      (mkFld "meta" ["meta"] "meta" true false false (DValue VNone), TUnion [TStruct [("k"%string, TScalar SStr)]; TNone])]).
Proof. repeat constructor. Qed.
(* the file round trip itself, for every type in both fragments (in particular nested plain
   dataclasses with list / tuple / mapping / Optional fields): what is read back is the value
   that was written, up to the set-field records *)
Theorem C19_file_roundtrip_for_types : forall (opts : Type) (dump : opts -> pyval -> string) (load : string -> option pyval),
  (forall o d, load (dump o d) = Some (normalise d)) ->
  forall t o v x, rt2_ty t -> norm_ty t -> tc t v = Ok x ->
  exists text x', write opts dump o t x = Ok text /\ read load t text = COk x' /\ same_val x' x.
Proof. exact file_roundtrip_types. Qed.
Print Assumptions C19_file_roundtrip_for_types.
