(* C06 -- typed values are fixed points of convert.
   convert(x, T) is modelled as  tc T (into_auto x)  (serialise by the value's own
   class, then parse as T), exactly as pane.convert does.
   Full statement (kept visible): forall t v x, wf_ty t -> no external/adjacent tag in t ->
       tc t v = Ok x -> exists d, into_auto x = Ok d /\ tc t d = Ok x.
   Proved: the statement on the fragment [rt_ty] of C05 (scalars, None, scalar literals,
   lists, tuples, conditions, kind-disjoint unions; _partial), idempotence there, and that
   a typed value offered as data is accepted unchanged.  pane.types.Range and ValueOrList are recorded findings (known_findings.json). *)
From Coq Require Import List String.
Require Import Base.Outcome Model.Values Model.Vocab Model.Types Model.Conv Model.Into Lemmas.RoundTrip Lemmas.ClassRoundTrip.
From Coq Require Import List.

Definition convert_obj (t : ty) (x : pyval) : outcome pyval :=
  match into_auto x with Ok d => tc t d | Reject => Reject | Escape e => Escape e end.

Theorem C06_fixed_point_partial : forall t v x,
  rt_ty t -> tc t v = Ok x -> convert_obj t x = Ok x.
Proof.
  intros t v x R H. unfold convert_obj.
  destruct (fixed_point_core t v x R H) as (d & -> & E). exact E.
Qed.
Print Assumptions C06_fixed_point_partial.

(* convert(convert(v, T), T) = convert(v, T) *)
Theorem C06_idempotent_partial : forall t v x,
  rt_ty t -> convert_obj t v = Ok x -> convert_obj t x = Ok x.
Proof.
  intros t v x R H. unfold convert_obj in H.
  destruct (into_auto v) as [d| |e]; try discriminate.
  eapply C06_fixed_point_partial; eauto.
Qed.
Print Assumptions C06_idempotent_partial.
(* a value already of the type is itself accepted, unchanged, when offered as data *)
Theorem C06_typed_value_is_accepted_unchanged_partial : forall t v x,
  rt_ty t -> tc t v = Ok x -> tc t x = Ok x.
Proof. exact typed_self_core. Qed.
Print Assumptions C06_typed_value_is_accepted_unchanged_partial.

(* dataclass instances: convert(x, Cls) serialises x by its own class -- which is Cls -- and parses
   the result as Cls.  For plain dataclasses (struct or sequence layout, class-level renaming
   included) the result has the same class and the same field values; its set-field record lists
   every field, since every field was written (== on instances does not look at the record). *)
Definition convert_own (t : ty) (x : pyval) : outcome pyval :=
  match into_data t x with Ok d => tc t d | Reject => Reject | Escape e => Escape e end.

Theorem C06_dataclass_instance_fixed_point : forall h fs v x,
  plain_class h fs -> tc (TClass h fs) v = Ok x ->
  exists fields setf, x = VInst (c_name h) fields setf /\
                      convert_own (TClass h fs) x = Ok (VInst (c_name h) fields (map fst fields)).
Proof.
  intros h fs v x P H. destruct (class_roundtrip h fs v x P H) as (fields & setf & d & -> & I & T).
  exists fields, setf. split; [reflexivity|]. unfold convert_own. now rewrite I.
Qed.
Print Assumptions C06_dataclass_instance_fixed_point.

Theorem C06_dataclass_instance_fixed_point_sequence_layout : forall h fs v x,
  plain_tuple_class h fs -> tc (TClass h fs) v = Ok x ->
  exists fields setf, x = VInst (c_name h) fields setf /\
                      convert_own (TClass h fs) x = Ok (VInst (c_name h) fields (map fst fields)).
Proof.
  intros h fs v x P H. destruct (class_roundtrip_tuple h fs v x P H) as (fields & setf & d & -> & I & T).
  exists fields, setf. split; [reflexivity|]. unfold convert_own. now rewrite I.
Qed.
