(* C13 -- conditions restrict exactly by their predicate.
   Operators and constants of the stock conditions are re-extracted from
   pane/annotations.py on every run (Gen/GenConds.v); numbers are exact. *)
From Coq Require Import ZArith List Bool String.
Require Import Base.PyNum Base.Outcome Model.Values Model.Vocab Model.Types Model.Expected Model.Conv Model.Into Lemmas.CondLemmas.
Import ListNotations.

Theorem C13_exact : forall inner c v x,
  tc (TCond inner c) v = Ok x <-> tc inner v = Ok x /\ eval_cond c x = ROk true.
Proof. exact cond_exact. Qed.
Print Assumptions C13_exact.

Theorem C13_raise_is_failed_condition : forall inner c v x e,
  tc inner v = Ok x -> eval_cond c x = RRaise e ->
  tc (TCond inner c) v = Reject /\
  ce (TCond inner c) v = CTree (ECondFailed (expected (TCond inner c) false) v (cond_name c) true).
Proof. exact cond_raise_rejects. Qed.
Print Assumptions C13_raise_is_failed_condition.

Theorem C13_false_is_failed_condition : forall inner c v x,
  tc inner v = Ok x -> eval_cond c x = ROk false ->
  tc (TCond inner c) v = Reject /\
  ce (TCond inner c) v = CTree (ECondFailed (expected (TCond inner c) false) v (cond_name c) false).
Proof. exact cond_false_rejects. Qed.
Print Assumptions C13_false_is_failed_condition.

Theorem C13_serialisation_ignores_conditions : forall inner c x,
  into_data (TCond inner c) x = into_data inner x.
Proof. exact cond_serialise_ignored. Qed.

Theorem C13_all_is_conjunction : forall l v,
  Forall (total_on v) l -> eval_cond (CAll l) v = ROk (forallb (fun c => truth c v) l).
Proof. exact eval_all. Qed.
Theorem C13_any_is_disjunction : forall l v,
  Forall (total_on v) l -> eval_cond (CAny l) v = ROk (existsb (fun c => truth c v) l).
Proof. exact eval_any. Qed.
Theorem C13_not_is_negation : forall c v, total_on v c -> eval_cond (CNot c) v = ROk (negb (truth c v)).
Proof. exact eval_not. Qed.
Print Assumptions C13_all_is_conjunction.

Theorem C13_stock_sign_conditions : forall z,
  eval_cond (CAdj APositive) (VInt z) = ROk (0 <? z)%Z /\
  eval_cond (CAdj ANegative) (VInt z) = ROk (z <? 0)%Z /\
  eval_cond (CAdj ANonPositive) (VInt z) = ROk (z <=? 0)%Z /\
  eval_cond (CAdj ANonNegative) (VInt z) = ROk (0 <=? z)%Z.
Proof. exact stock_int. Qed.
Print Assumptions C13_stock_sign_conditions.

Theorem C13_val_range_inclusive : forall lo hi z,
  eval_cond (CValRange (Some lo) (Some hi)) (VInt z) = ROk ((lo <=? z) && (z <=? hi))%Z.
Proof. exact val_range_int. Qed.
Print Assumptions C13_val_range_inclusive.

Theorem C13_len_range_inclusive : forall lo hi l,
  eval_cond (CLenRange (Some lo) (Some hi)) (VList l) =
  ROk ((lo <=? List.length l) && (List.length l <=? hi))%nat.
Proof. exact len_range_list. Qed.
Print Assumptions C13_len_range_inclusive.

Theorem C13_empty_nonempty : forall l,
  eval_cond (CAdj AEmpty) (VList l) = ROk (Nat.eqb (List.length l) 0) /\
  eval_cond (CAdj ANonEmpty) (VList l) = ROk (negb (Nat.eqb (List.length l) 0)).
Proof. exact empty_nonempty_list. Qed.

Theorem C13_finite : forall f, eval_cond (CAdj AFinite) (VFloat f) = ROk (f_isfinite f).
Proof. exact finite_float. Qed.
