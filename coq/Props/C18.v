(* C18 -- custom converter precedence and reach.
   Proved against the dispatch order / handler iteration order / class-handler composition
   reflected from the current source.  Reach (call-level handlers at every depth, both
   directions) is checked on pane over all subsets of the sources x nesting shapes. *)
From Coq Require Import List Bool.
Require Import Gen.GenDispatch Model.Handlers.
Import ListNotations.

(* the documented precedence *)
Theorem C18_priority_order :
  priority = [SrcField; SrcCall; SrcNearest; SrcOuter; SrcProtocol; SrcScalar; SrcRegistered; SrcStructural].
Proof. vm_compute. reflexivity. Qed.
Print Assumptions C18_priority_order.

(* the converter used is the first source, in that order, that answers: for every subset of sources *)
Theorem C18_first_answering_source_wins : forall answers s,
  resolve answers = Some s <->
  exists pre post, priority = pre ++ s :: post /\ answers s = true /\ forallb (fun x => negb (answers x)) pre = true.
Proof.
  intros answers s. unfold resolve. generalize priority. intros l. split.
  - induction l as [|x r IH]; simpl; [discriminate|].
    destruct (answers x) eqn:A.
    + intros H; inversion H; subst. exists [], r. repeat split; auto.
    + intros H. destruct (IH H) as (pre & post & -> & As & F). exists (x :: pre), post. repeat split; auto. simpl. now rewrite A.
  - intros (pre & post & -> & As & F). induction pre as [|x pre IH]; simpl in *.
    + now rewrite As.
    + apply andb_prop in F as [F1 F2]. apply negb_true_iff in F1. rewrite F1. now apply IH.
Qed.
Print Assumptions C18_first_answering_source_wins.

(* a source that answers NotImplemented (does not answer) defers to the next one *)
Theorem C18_not_answering_defers : forall answers s,
  answers s = false -> resolve answers = resolve (fun x => if source_eqb x s then false else answers x).
Proof.
  intros answers s H. unfold resolve. induction priority as [|x r IH]; simpl; [reflexivity|].
  destruct (source_eqb x s) eqn:E.
  - assert (x = s) by (destruct x, s; simpl in E; congruence). subst. rewrite H. exact IH.
  - destruct (answers x); [reflexivity|exact IH].
Qed.

(* registered global handlers come after the scalar built-ins but before the structural converters *)
Theorem C18_registered_between_scalar_and_structural :
  exists a b c, priority = a ++ SrcScalar :: b ++ SrcRegistered :: c /\ In SrcStructural c.
Proof. exists [SrcField; SrcCall; SrcNearest; SrcOuter; SrcProtocol], [], [SrcStructural]. vm_compute. split; [reflexivity|now left]. Qed.

Theorem C18_mapping_form_handler_matches_exact_type_only : mapping_handler_exact_type = true.
Proof. reflexivity. Qed.
