(* C12 -- tagged unions dispatch on the tag alone; the three layouts are symmetric.
   [find_variant tagv vs] is the variant whose declared tag equals the tag in the
   data; [tag_extract] reads tag and body per layout.  Duplicate declared tags are
   refused when the type is built (checked on pane; the model's types are post-build). *)
From Coq Require Import ZArith List Bool String.
Require Import Base.Outcome Model.Values Model.Vocab Model.Types Model.Expected Model.Conv Model.Into.
Require Import Gen.GenGates Lemmas.AgreeThm Lemmas.TagLemmas.
Import ListNotations.

Theorem C12_dispatch_on_tag_alone : forall tag lay vs v,
  tc (TTagged tag lay vs) v = dispatch_spec tag lay vs v.
Proof. exact tag_dispatch. Qed.
Print Assumptions C12_dispatch_on_tag_alone.

Theorem C12_body_error_is_the_variants : forall tag lay vs kvs tagv body t',
  tag_extract tag lay kvs = Some (tagv, body) -> hashable tagv = true -> find_variant tagv vs = Some t' ->
  ce (TTagged tag lay vs) (VDict kvs) = ce t' body /\ tc (TTagged tag lay vs) (VDict kvs) = tc t' body.
Proof. exact tag_error_local. Qed.
Print Assumptions C12_body_error_is_the_variants.

Theorem C12_unknown_or_illkinded_tag_named : forall tag lay vs kvs tagv body,
  tag_extract tag lay kvs = Some (tagv, body) ->
  (hashable tagv = false \/ find_variant tagv vs = None) ->
  exists e, ce (TTagged tag lay vs) (VDict kvs) = CTree (EWrongType e tagv false None) /\ contains tag e.
Proof. exact tag_unknown_names_tag. Qed.
Print Assumptions C12_unknown_or_illkinded_tag_named.

(* "the variant whose declared tag equals the tag in the data": equal AND of the same kind --
   True or 1.0 in the data never selects the variant tagged 1; a tag whose kind no variant
   declares selects nothing (and is then named by the error above) *)
Theorem C12_chosen_variant_has_the_tag_of_the_data : forall (tagv : pyval) (vs : list (pyval * ty)) t,
  find_variant tagv vs = Some t -> exists tv, In (tv, t) vs /\ kind_of tagv = kind_of tv /\ py_eqb tagv tv = true.
Proof. exact (@find_variant_same_kind ty). Qed.
Print Assumptions C12_chosen_variant_has_the_tag_of_the_data.

Theorem C12_ill_kinded_tag_selects_nothing : forall (tagv : pyval) (vs : list (pyval * ty)),
  (forall tv, In tv (map fst vs) -> kind_of tv <> kind_of tagv) -> find_variant tagv vs = None.
Proof. exact (@find_variant_ill_kinded ty). Qed.

Theorem C12_absent_tag_named_internal : forall tag vs kvs,
  dict_get (VStr tag) kvs = None ->
  exists e, ce (TTagged tag LInternal vs) (VDict kvs) = CTree (EWrongType e (VDict kvs) false None) /\ contains tag e.
Proof. exact tag_absent_internal. Qed.

Theorem C12_absent_tag_named_adjacent : forall tag tk ck vs kvs,
  tag_extract tag (LAdjacent tk ck) kvs = None ->
  exists e, ce (TTagged tag (LAdjacent tk ck) vs) (VDict kvs) = CTree (EWrongType e (VDict kvs) false None)
            /\ contains tk e /\ contains ck e.
Proof. exact tag_absent_adjacent. Qed.

Theorem C12_non_mapping_rejected : forall tag lay vs v,
  gate_mapping (kind_of v) = false -> tc (TTagged tag lay vs) v = Reject.
Proof. exact tag_non_mapping. Qed.

(* what the writer emits for each layout is read back into the same variant *)
Theorem C12_symmetric_external : forall tag vs tagv inner t',
  hashable tagv = true -> find_variant tagv vs = Some t' ->
  tc (TTagged tag LExternal vs) (VDict [(tagv, inner)]) = tc t' inner.
Proof. exact symmetric_external. Qed.
Theorem C12_symmetric_adjacent : forall tag tk ck vs tagv inner t',
  String.eqb tk ck = false -> hashable tagv = true -> find_variant tagv vs = Some t' ->
  tc (TTagged tag (LAdjacent tk ck) vs) (VDict [(VStr tk, tagv); (VStr ck, inner)]) = tc t' inner.
Proof. exact symmetric_adjacent. Qed.
Theorem C12_symmetric_internal : forall tag vs kvs tagv t',
  dict_get (VStr tag) kvs = Some tagv -> hashable tagv = true -> find_variant tagv vs = Some t' ->
  tc (TTagged tag LInternal vs) (VDict kvs) = tc t' (VDict (dict_remove (VStr tag) kvs)).
Proof. exact symmetric_internal. Qed.
Theorem C12_writer_external : forall tag vs c attrs setf tagv t' inner,
  field_get tag attrs = Some tagv -> hashable tagv = true -> find_variant tagv vs = Some t' ->
  into_data t' (VInst c attrs setf) = Ok inner ->
  into_data (TTagged tag LExternal vs) (VInst c attrs setf) = Ok (VDict [(tagv, inner)]).
Proof. exact writer_external. Qed.
Print Assumptions C12_symmetric_adjacent.
Print Assumptions C12_writer_external.
