(* C01 -- conversion accepts exactly the members of the type and returns the typed value.
   [typed T x] is an independent description of "x is the deep, exactly-typed image for T"
   (a list for List, a tuple for Tuple/Sequence, a set for Set, the instance with typed supplied
   fields and defaults, the enum member, ...).  Verdict and value depend on nothing but T and v
   because [tc] / [convert] are functions; the memoisation in front of them is C10.
   Acceptance is characterised rule by rule (the documented element-wise rules): None, literals,
   scalars (the C02 matrix), lists, variadic tuples here; fixed tuples, mappings, unions (C11),
   conditions (C13), tagged unions (C12), dataclass binding (C15) in the respective files.
   The rules are assembled into ONE membership relation [member] (Lemmas/Denotes.v, a
   specification by recursion on the type that never mentions the loops of the fast pass) for
   the structural fragment -- Any, None, scalars, literals, the four sequence classes, fixed
   tuples, mappings, struct literal types, unions, conditions, closed under nesting -- and
   [C01_accepts_exactly_the_members] says the fast pass accepts exactly its members and returns
   exactly their image.  PARTIAL: enums, dataclasses and tagged unions are outside [structural];
   their rules stay the separate theorems of C02 / C12 / C15. *)
From Coq Require Import ZArith List Bool String.
Require Import Base.Outcome Model.Values Model.Vocab Model.Types Model.Conv Gen.GenGates.
Require Import Lemmas.AgreeLemmas Lemmas.AgreeThm Lemmas.StrictLemmas Lemmas.TypedLemmas Lemmas.Denotes.
Import ListNotations.

(* every accepted value is mapped to the deep, exactly-typed image -- ALL types, ALL values *)
Theorem C01_image_is_exactly_typed : forall t v x, tc t v = Ok x -> typed t x.
Proof. exact images_are_typed. Qed.
Print Assumptions C01_image_is_exactly_typed.

(* in every other case: ConvertError (never another exception, never a wrong-typed value) *)
Theorem C01_accept_or_convert_error : forall t v,
  wf_ty t -> (exists x, convert t v = COk x /\ typed t x) \/ (exists e, convert t v = CErr e).
Proof.
  intros t v WF. destruct (convert_total t v WF) as [[x H]|[e H]]; [left|right; eauto].
  exists x. split; [exact H|]. unfold convert, convert_with in H.
  destruct (tc t v) as [y| |z] eqn:E; try discriminate.
  - inversion H; subst. eapply images_are_typed; eauto.
  - destruct (ce t v); discriminate.
Qed.
Print Assumptions C01_accept_or_convert_error.

Theorem C01_accepts_none : forall v x, tc TNone v = Ok x <-> v = VNone /\ x = VNone.
Proof. exact accepts_none. Qed.
(* a literal is matched by an equal value of the literal's own kind only (1.0 and True are not Literal[1]) *)
Theorem C01_accepts_literal : forall vals v x,
  tc (TLiteral vals) v = Ok x <-> x = v /\ exists l, In l vals /\ kind_of v = kind_of l /\ py_eqb v l = true.
Proof. exact accepts_literal. Qed.
Theorem C01_accepts_scalar : forall s v x,
  tc (TScalar s) v = Ok x <-> strict_ok s (kind_of v) = true /\ scalar_ctor s v = ROk x.
Proof. exact accepts_scalar. Qed.
Theorem C01_accepts_list : forall e v x,
  tc (TSeq SeqList e) v = Ok x <->
  gate_sequence (kind_of v) = true /\ exists ys, x = VList ys /\ Forall2 (fun vi yi => tc e vi = Ok yi) (items_of v) ys.
Proof. exact accepts_list. Qed.
Theorem C01_accepts_variadic_tuple : forall e v x,
  tc (TSeq SeqTuple e) v = Ok x <->
  gate_sequence (kind_of v) = true /\ exists ys, x = VTuple ys /\ Forall2 (fun vi yi => tc e vi = Ok yi) (items_of v) ys.
Proof. exact accepts_vtuple. Qed.
Print Assumptions C01_accepts_list.

(* the rules assembled: on the structural fragment, at any nesting, for every value and every image *)
Theorem C01_accepts_exactly_the_members : forall t, structural t ->
  forall v x, tc t v = Ok x <-> member t v x.
Proof. exact tc_exactly_member. Qed.
Print Assumptions C01_accepts_exactly_the_members.
(* ... hence from_data on a well-formed structural type: the image of a member, ConvertError otherwise *)
Theorem C01_members_convert_and_non_members_are_refused : forall t v,
  structural t -> wf_ty t ->
  (exists x, member t v x /\ convert t v = COk x) \/ ((forall x, ~ member t v x) /\ exists e, convert t v = CErr e).
Proof.
  intros t v S WF. destruct (convert_total t v WF) as [[x H]|[e H]].
  - left. exists x. split; [|exact H]. apply (tc_exactly_member t S).
    unfold convert, convert_with in H. destruct (tc t v) as [y| |z]; try discriminate.
    + now inversion H.
    + destruct (ce t v); discriminate.
  - right. split; [|eauto]. intros x M. apply (tc_exactly_member t S) in M.
    unfold convert, convert_with in H. rewrite M in H. discriminate.
Qed.
Print Assumptions C01_members_convert_and_non_members_are_refused.
Theorem C01_image_is_a_function_of_type_and_value : forall t, structural t ->
  forall v x y, member t v x -> member t v y -> x = y.
Proof. exact member_functional. Qed.
Theorem C01_optional : forall t v x, structural t ->
  member (TUnion [t; TNone]) v x <-> member t v x \/ (tc t v = Reject /\ v = VNone /\ x = VNone).
Proof. exact member_optional. Qed.
Example C01_member_example :
  structural denotes_example_ty /\
  member denotes_example_ty (VList [VTuple [VInt 1; VNone]; VList [VInt 2; VStr "a"]])
                            (VList [VTuple [VInt 1; VNone]; VTuple [VInt 2; VStr "a"]]) /\
  (forall x, ~ member denotes_example_ty (VList [VTuple [VStr "1"; VNone]]) x).
Proof. exact (conj denotes_example_structural (conj denotes_example_member denotes_example_non_member)). Qed.
