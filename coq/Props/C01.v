(* C01 -- conversion accepts exactly the members of the type and returns the typed value.
   [typed T x] is an independent description of "x is the deep, exactly-typed image for T"
   (a list for List, a tuple for Tuple/Sequence, a set for Set, the instance with typed supplied
   fields and defaults, the enum member, ...).  Verdict and value depend on nothing but T and v
   because [tc] / [convert] are functions; the memoisation in front of them is C10.
   Acceptance is characterised rule by rule (the documented element-wise rules): None, literals,
   scalars (the C02 matrix), lists, variadic tuples here; fixed tuples, mappings, unions (C11),
   conditions (C13), tagged unions (C12), dataclass binding (C15) in the respective files.
   The rules are assembled into ONE membership relation [member] (Lemmas/Denotes.v, a
   specification by recursion on the type that never mentions the loops of the fast pass) for
   EVERY type of the model's grammar -- Any, None, scalars, literals, the four sequence classes,
   fixed tuples, mappings, struct literal types, unions, conditions, enums, dataclasses in both
   layouts, tagged unions in the three layouts, closed under nesting -- and
   [C01_accepts_exactly_the_members] says the fast pass accepts exactly its members and returns
   exactly their image.  PARTIAL only in what the model leaves out of the grammar: the library
   scalar types (Decimal, dates, paths, patterns: monitors and the correspondence of the 'std'
   kinds), NestedSequence / ValueOrList and custom converters (C18). *)
From Coq Require Import ZArith List Bool String.
Require Import Base.Outcome Model.Values Model.Vocab Model.Types Model.Conv Gen.GenGates.
Require Import Lemmas.AgreeLemmas Lemmas.AgreeThm Lemmas.StrictLemmas Lemmas.TypedLemmas Lemmas.Denotes.
Import ListNotations.

(* every accepted value is mapped to the deep, exactly-typed image -- ALL types, ALL values *)
Theorem C01_image_is_exactly_typed : forall t v x, tc t v = Ok x -> typed t x.
Proof. exact images_are_typed. Qed.
Print Assumptions C01_image_is_exactly_typed.

(* in every other case: ConvertError (never another exception, never a wrong-typed value) *)
Theorem C01_accept_or_convert_error : forall t v,
  wf_ty t -> (exists x, convert t v = COk x /\ typed t x) \/ (exists e, convert t v = CErr e).
Proof.
  intros t v WF. destruct (convert_total t v WF) as [[x H]|[e H]]; [left|right; eauto].
  exists x. split; [exact H|]. unfold convert, convert_with in H.
  destruct (tc t v) as [y| |z] eqn:E; try discriminate.
  - inversion H; subst. eapply images_are_typed; eauto.
  - destruct (ce t v); discriminate.
Qed.
Print Assumptions C01_accept_or_convert_error.

Theorem C01_accepts_none : forall v x, tc TNone v = Ok x <-> v = VNone /\ x = VNone.
Proof. exact accepts_none. Qed.
(* a literal is matched by an equal value of the literal's own kind only (1.0 and True are not Literal[1]) *)
Theorem C01_accepts_literal : forall vals v x,
  tc (TLiteral vals) v = Ok x <-> x = v /\ exists l, In l vals /\ kind_of v = kind_of l /\ py_eqb v l = true.
Proof. exact accepts_literal. Qed.
Theorem C01_accepts_scalar : forall s v x,
  tc (TScalar s) v = Ok x <-> strict_ok s (kind_of v) = true /\ scalar_ctor s v = ROk x.
Proof. exact accepts_scalar. Qed.
Theorem C01_accepts_list : forall e v x,
  tc (TSeq SeqList e) v = Ok x <->
  gate_sequence (kind_of v) = true /\ exists ys, x = VList ys /\ Forall2 (fun vi yi => tc e vi = Ok yi) (items_of v) ys.
Proof. exact accepts_list. Qed.
Theorem C01_accepts_variadic_tuple : forall e v x,
  tc (TSeq SeqTuple e) v = Ok x <->
  gate_sequence (kind_of v) = true /\ exists ys, x = VTuple ys /\ Forall2 (fun vi yi => tc e vi = Ok yi) (items_of v) ys.
Proof. exact accepts_vtuple. Qed.
Print Assumptions C01_accepts_list.

(* the rules assembled: for every type of the grammar, at any nesting, for every value and every image *)
Theorem C01_accepts_exactly_the_members : forall t v x, tc t v = Ok x <-> member t v x.
Proof. exact tc_is_member. Qed.
Print Assumptions C01_accepts_exactly_the_members.
(* ... hence from_data on a well-formed type: the image of a member, ConvertError otherwise *)
Theorem C01_members_convert_and_non_members_are_refused : forall t v,
  wf_ty t ->
  (exists x, member t v x /\ convert t v = COk x) \/ ((forall x, ~ member t v x) /\ exists e, convert t v = CErr e).
Proof.
  intros t v WF. destruct (convert_total t v WF) as [[x H]|[e H]].
  - left. exists x. split; [|exact H]. apply tc_is_member.
    unfold convert, convert_with in H. destruct (tc t v) as [y| |z]; try discriminate.
    + now inversion H.
    + destruct (ce t v); discriminate.
  - right. split; [|eauto]. intros x M. apply tc_is_member in M.
    unfold convert, convert_with in H. rewrite M in H. discriminate.
Qed.
Print Assumptions C01_members_convert_and_non_members_are_refused.
Theorem C01_image_is_a_function_of_type_and_value : forall t v x y, member t v x -> member t v y -> x = y.
Proof. exact member_is_functional. Qed.
Theorem C01_optional : forall t v x,
  member (TUnion [t; TNone]) v x <-> member t v x \/ (tc t v = Reject /\ v = VNone /\ x = VNone).
Proof. intros t v x. apply member_optional. apply all_structural. Qed.
Example C01_member_example :
  structural denotes_example_ty /\
  member denotes_example_ty (VList [VTuple [VInt 1; VNone]; VList [VInt 2; VStr "a"]])
                            (VList [VTuple [VInt 1; VNone]; VTuple [VInt 2; VStr "a"]]) /\
  (forall x, ~ member denotes_example_ty (VList [VTuple [VStr "1"; VNone]]) x).
Proof. exact (conj denotes_example_structural (conj denotes_example_member denotes_example_non_member)). Qed.

(* an enum: the data converted at the members' value types, then the FIRST member equal to it in kind and value *)
Theorem C01_enum_membership : forall n members v x,
  member (TEnum n members) v x <->
  exists y, leftmost (fun h => head_member h v y) (fun h => tc_head h v = Reject) (value_types members) /\
            hashable y = true /\
            exists mname mval, find (fun m => lit_match y (snd m)) members = Some (mname, mval) /\ x = VEnum n mname mval.
Proof. intros. reflexivity. Qed.
Example C01_enum_example :
  structural denotes_enum_ty /\
  member denotes_enum_ty (VList [VInt 1; VStr "g"]) (VList [VEnum "Color" "RED" (VInt 1); VEnum "Color" "GREEN" (VStr "g")]) /\
  (forall x, ~ member denotes_enum_ty (VList [VStr "zz"]) x).
Proof. exact (conj denotes_enum_structural (conj denotes_enum_member denotes_enum_non_member)). Qed.

(* dataclasses: both layouts, and what is NOT a member (two keys for one field, a required field absent, a key for an
   init=False field, one element too many) *)
Example C01_dataclass_example : forall x,
  member denotes_class_ty (VDict [(VStr "A", VInt 1)])
         (VInst "P" [("note"%string, VStr "n"); ("a"%string, VInt 1); ("b"%string, VStr "d")] ["a"%string]) /\
  member denotes_class_ty (VList [VInt 1; VStr "x"])
         (VInst "P" [("note"%string, VStr "n"); ("a"%string, VInt 1); ("b"%string, VStr "x")] ["a"%string; "b"%string]) /\
  ~ member denotes_class_ty (VDict [(VStr "a", VInt 1); (VStr "A", VInt 2)]) x /\
  ~ member denotes_class_ty (VDict [(VStr "b", VStr "x")]) x /\
  ~ member denotes_class_ty (VDict [(VStr "a", VInt 1); (VStr "note", VStr "m")]) x /\
  ~ member denotes_class_ty (VList [VInt 1; VStr "x"; VStr "y"]) x.
Proof. intros x. exact (conj denotes_class_member_mapping (conj denotes_class_member_sequence (denotes_class_non_members x))). Qed.
(* tagged unions: the variant is selected by the kind AND value of the tag (the shape of seed C12h) *)
Example C01_tagged_example : forall x,
  member denotes_tagged_ty (VDict [(VStr "t", VBool false); (VStr "c", VDict [(VStr "x", VInt 5)])])
         (VInst "Off" [("x"%string, VInt 5); ("kind"%string, VBool false)] ["x"%string]) /\
  ~ member denotes_tagged_ty (VDict [(VStr "t", VBool true); (VStr "c", VDict [(VStr "x", VInt 5)])]) x /\
  ~ member denotes_tagged_ty (VDict [(VStr "t", VInt 0); (VStr "c", VDict [(VStr "x", VInt 5)])]) x /\
  ~ member denotes_tagged_ty (VDict [(VStr "t", VInt 1)]) x.
Proof. intros x. exact (conj denotes_tagged_member (denotes_tagged_non_members x)). Qed.
