Require Import Model.Conv.
