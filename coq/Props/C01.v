(* C01 -- conversion accepts exactly the members of the type and returns the typed value.
   [typed T x] is an independent description of "x is the deep, exactly-typed image for T"
   (a list for List, a tuple for Tuple/Sequence, a set for Set, the instance with typed supplied
   fields and defaults, the enum member, ...).  Verdict and value depend on nothing but T and v
   because [tc] / [convert] are functions; the memoisation in front of them is C10.
   Acceptance is characterised rule by rule (the documented element-wise rules): None, literals,
   scalars (the C02 matrix), lists, variadic tuples here; fixed tuples, mappings, unions (C11),
   conditions (C13), tagged unions (C12), dataclass binding (C15) in the respective files.
   PARTIAL: the rules are not assembled into one inductive `denotes` relation. *)
From Coq Require Import ZArith List Bool String.
Require Import Base.Outcome Model.Values Model.Vocab Model.Types Model.Conv Gen.GenGates.
Require Import Lemmas.AgreeLemmas Lemmas.AgreeThm Lemmas.StrictLemmas Lemmas.TypedLemmas.
Import ListNotations.

(* every accepted value is mapped to the deep, exactly-typed image -- ALL types, ALL values *)
Theorem C01_image_is_exactly_typed : forall t v x, tc t v = Ok x -> typed t x.
Proof. exact images_are_typed. Qed.
Print Assumptions C01_image_is_exactly_typed.

(* in every other case: ConvertError (never another exception, never a wrong-typed value) *)
Theorem C01_accept_or_convert_error : forall t v,
  wf_ty t -> (exists x, convert t v = COk x /\ typed t x) \/ (exists e, convert t v = CErr e).
Proof.
  intros t v WF. destruct (convert_total t v WF) as [[x H]|[e H]]; [left|right; eauto].
  exists x. split; [exact H|]. unfold convert, convert_with in H.
  destruct (tc t v) as [y| |z] eqn:E; try discriminate.
  - inversion H; subst. eapply images_are_typed; eauto.
  - destruct (ce t v); discriminate.
Qed.
Print Assumptions C01_accept_or_convert_error.

Theorem C01_accepts_none : forall v x, tc TNone v = Ok x <-> v = VNone /\ x = VNone.
Proof. exact accepts_none. Qed.
(* a literal is matched by an equal value of the literal's own kind only (1.0 and True are not Literal[1]) *)
Theorem C01_accepts_literal : forall vals v x,
  tc (TLiteral vals) v = Ok x <-> x = v /\ exists l, In l vals /\ kind_of v = kind_of l /\ py_eqb v l = true.
Proof. exact accepts_literal. Qed.
Theorem C01_accepts_scalar : forall s v x,
  tc (TScalar s) v = Ok x <-> strict_ok s (kind_of v) = true /\ scalar_ctor s v = ROk x.
Proof. exact accepts_scalar. Qed.
Theorem C01_accepts_list : forall e v x,
  tc (TSeq SeqList e) v = Ok x <->
  gate_sequence (kind_of v) = true /\ exists ys, x = VList ys /\ Forall2 (fun vi yi => tc e vi = Ok yi) (items_of v) ys.
Proof. exact accepts_list. Qed.
Theorem C01_accepts_variadic_tuple : forall e v x,
  tc (TSeq SeqTuple e) v = Ok x <->
  gate_sequence (kind_of v) = true /\ exists ys, x = VTuple ys /\ Forall2 (fun vi yi => tc e vi = Ok yi) (items_of v) ys.
Proof. exact accepts_vtuple. Qed.
Print Assumptions C01_accepts_list.
