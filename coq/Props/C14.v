(* C14 -- dataclass construction is conversion; defaults; set-field record; the hook always runs.
   [construct h fs vals] models what every constructing path ends in (from_dict_unchecked /
   make_unchecked / __init__): fill in the fields that were not supplied, run __post_init__.
   [vals] = the supplied fields after conversion, by Python name.
   Proved here: the record of explicitly set fields is exactly the supplied ones; a field that
   was not supplied holds its default value or the product of its factory -- never nothing and
   never the factory; a missing required field makes construction impossible; the hook runs on
   every path and its failure is a failed conversion on both data paths.
   Equality of the three construction paths, identity-freshness of factory products and
   make_unchecked are checked on pane (monitor) and through corr_convert. *)
From Coq Require Import ZArith List Bool String.
Require Import Base.Outcome Model.Values Model.Vocab Model.Types Model.Conv Gen.GenGates Lemmas.ClassLemmas.
Import ListNotations.

Theorem C14_set_record_is_exactly_the_supplied_fields : forall h fs vals x,
  construct h fs vals = Some (ROk x) -> exists fields, x = VInst (c_name h) fields (map fst vals).
Proof. exact construct_set_record. Qed.
Print Assumptions C14_set_record_is_exactly_the_supplied_fields.

(* the fields an instance holds: those the constructor binds (supplied value, else default) and those kept out of the
   constructor (init=False) that have a default or factory -- these always hold it, whatever the data says *)
Theorem C14_fields_not_supplied_take_their_default : forall fs vals fields,
  fill_defaults fs vals = Some fields ->
  Forall2 (fun f nv => fst nv = f_name f /\
                       snd nv = (if f_init f
                                 then match field_get (f_name f) vals with
                                      | Some x => x
                                      | None => match default_value f with Some d => d | None => VNone end
                                      end
                                 else match default_value f with Some d => d | None => VNone end) /\
                       (f_init f = true -> field_get (f_name f) vals = None -> default_value f <> None))
          (filter held fs) fields.
Proof. exact fill_defaults_spec. Qed.
Print Assumptions C14_fields_not_supplied_take_their_default.

Theorem C14_missing_required_field_blocks_construction : forall fs vals f,
  In f fs -> f_init f = true -> field_get (f_name f) vals = None -> f_default f = DNone ->
  fill_defaults fs vals = None.
Proof. exact fill_defaults_missing. Qed.

Theorem C14_hook_runs_on_every_construction : forall h fs vals fields,
  fill_defaults fs vals = Some fields ->
  construct h fs vals = Some (match run_hook (c_hook h) fields with
                              | ROk _ => ROk (VInst (c_name h) fields (map fst vals))
                              | RRaise e => RRaise e
                              end).
Proof. exact construct_runs_hook. Qed.

Theorem C14_hook_failure_is_convert_error_mapping_path : forall h fs v vals fields e,
  pane_seq_gate_try (kind_of v) = false -> pane_map_gate_try (kind_of v) = true -> has_fmt FStruct h = true ->
  struct_try_loop tc fs (c_allow_extra h) (pairs_of v) [] = Ok vals ->
  fill_defaults (map fst fs) vals = Some fields -> run_hook (c_hook h) fields = RRaise e ->
  tc (TClass h fs) v = Reject.
Proof. exact hook_failure_rejects_struct. Qed.
Print Assumptions C14_hook_failure_is_convert_error_mapping_path.

Theorem C14_hook_failure_is_convert_error_sequence_path : forall h fs v vals fields e,
  pane_seq_gate_try (kind_of v) = true -> has_fmt FTuple h = true ->
  (let '(mn, mx) := pos_args (map fst fs) in (mn <=? List.length (items_of v))%nat && (List.length (items_of v) <=? mx)%nat = true) ->
  tuple_try_loop tc fs (items_of v) = Ok vals ->
  fill_defaults (map fst fs) vals = Some fields -> run_hook (c_hook h) fields = RRaise e ->
  tc (TClass h fs) v = Reject.
Proof. exact hook_failure_rejects_tuple. Qed.
