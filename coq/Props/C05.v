(* C05 -- serialise / parse round trip.
   Full statement (kept visible, NOT proved in general):
     forall t v x, wf_ty t -> rt_cfg t -> tc t v = Ok x ->
       exists d, into_data t x = Ok d /\ tc t d = Ok x
   where rt_cfg says that every dataclass' output form is enabled on input and no
   union member's serialised form is read by an earlier member.
   Proved here: the statement on the kind-disjoint core fragment [rt_ty] (scalars,
   None, homogeneous lists and variadic tuples, fixed tuples, at ANY nesting depth),
   hence named _partial; and that the side condition on unions is necessary
   (_refuted, witness replayed on pane by the check).  Dataclasses, mappings, sets,
   enums, conditions and tagged unions are covered by the correspondence
   (corr_convert, corr_into) and the monitor only. *)
From Coq Require Import ZArith List String.
Require Import Base.Outcome Model.Values Model.Vocab Model.Types Model.Conv Model.Into Lemmas.RoundTrip.
Import ListNotations.
Open Scope string_scope.

Definition C05_full_statement (rt_cfg : ty -> Prop) : Prop :=
  forall t v x, rt_cfg t -> tc t v = Ok x -> exists d, into_data t x = Ok d /\ tc t d = Ok x.

Theorem C05_roundtrip_partial : C05_full_statement rt_ty.
Proof. intros t v x R H. exact (roundtrip_core t v x R H). Qed.
Print Assumptions C05_roundtrip_partial.

Theorem C05_bool_stays_bool : forall b, into_data (TScalar SBool) (VBool b) = Ok (VBool b).
Proof. exact bool_stays_bool. Qed.
Print Assumptions C05_bool_stays_bool.

(* without the condition on unions the statement is false: Union[Tuple[None, ...], C]
   with C(out_format='tuple'): {'f0': None} -> C(f0=None) -> (None,) -> (None,) *)
Definition overlap_C : ty :=
  TClass (mkCls "C" [FStruct; FTuple] true false HNone) [(mkFld "f0" ["f0"] "f0" true false false DNone, TNone)].
Definition overlap_T : ty := TUnion [TSeq SeqTuple TNone; overlap_C].

Theorem C05_overlapping_union_refuted :
  exists v x d, tc overlap_T v = Ok x /\ into_data overlap_T x = Ok d /\ tc overlap_T d <> Ok x.
Proof.
  exists (VDict [(VStr "f0", VNone)]), (VInst "C" [("f0", VNone)] ["f0"]), (VTuple [VNone]).
  repeat split; try (vm_compute; reflexivity). vm_compute. discriminate.
Qed.
Print Assumptions C05_overlapping_union_refuted.

(* non-vacuity of the fragment *)
Example C05_fragment_example :
  rt_ty (TSeq SeqList (TTuple [TScalar SFloat; TSeq SeqTuple (TScalar SBool); TNone])).
Proof. repeat constructor. Qed.
