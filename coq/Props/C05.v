(* C05 -- serialise / parse round trip.
   Full statement (kept visible, NOT proved in general):
     forall t v x, wf_ty t -> rt_cfg t -> tc t v = Ok x ->
       exists d, into_data t x = Ok d /\ tc t d = Ok x
   where rt_cfg says that every dataclass' output form is enabled on input and no
   union member's serialised form is read by an earlier member.
   Proved here: the statement on the fragment [rt_ty] -- scalars, None, scalar literals,
   homogeneous lists and variadic tuples, fixed tuples, text-keyed mappings (Dict[str, T]),
   conditions, and unions (Optional
   included) whose members accept pairwise disjoint kinds of data ([pairwise_disjoint],
   a computed check against the generated gate and scalar tables), at ANY nesting depth --
   hence named _partial; and that the side condition on unions is necessary (_refuted,
   witness replayed on pane by the check); and the statement for DATACLASSES with any
   renaming, aliases and input names, as long as every field is read back under the key it is
   written under and no two fields share a key ([renamed_class]; [plain_class] is the special
   case of fields read and written under their own names), field types in [rt_ty], defaults
   of their field's type, from either input layout, together with
   what changes (the record of explicitly set fields becomes "all fields"); and the statement
   at ANY NESTING of plain dataclasses and sets inside lists, tuples, text-keyed mappings, other
   dataclasses and Optional ([rt2_ty]), up to that record ([same_val], what == compares).
   Renamed or excluded fields, enums, tagged unions and unions of dataclasses are covered
   by the correspondence (corr_convert, corr_into) and the monitor only. *)
From Coq Require Import ZArith List String.
Require Import Base.PyNum Base.Outcome Model.Values Model.Vocab Model.Types Model.Conv Model.Into Lemmas.RoundTrip Lemmas.ClassRoundTrip Lemmas.NestedRoundTrip.
Import ListNotations.
Open Scope string_scope.

Definition C05_full_statement (rt_cfg : ty -> Prop) : Prop :=
  forall t v x, rt_cfg t -> tc t v = Ok x -> exists d, into_data t x = Ok d /\ tc t d = Ok x.

Theorem C05_roundtrip_partial : C05_full_statement rt_ty.
Proof. intros t v x R H. exact (roundtrip_core t v x R H). Qed.
Print Assumptions C05_roundtrip_partial.

Theorem C05_bool_stays_bool : forall b, into_data (TScalar SBool) (VBool b) = Ok (VBool b).
Proof. exact bool_stays_bool. Qed.
Print Assumptions C05_bool_stays_bool.

(* without the condition on unions the statement is false: Union[Tuple[None, ...], C]
   with C(out_format='tuple'): {'f0': None} -> C(f0=None) -> (None,) -> (None,) *)
Definition overlap_C : ty :=
  TClass (mkCls "C" [FStruct; FTuple] true false HNone) [(mkFld "f0" ["f0"] "f0" true false false DNone, TNone)].
Definition overlap_T : ty := TUnion [TSeq SeqTuple TNone; overlap_C].

Theorem C05_overlapping_union_refuted :
  exists v x d, tc overlap_T v = Ok x /\ into_data overlap_T x = Ok d /\ tc overlap_T d <> Ok x.
Proof.
  exists (VDict [(VStr "f0", VNone)]), (VInst "C" [("f0", VNone)] ["f0"]), (VTuple [VNone]).
  repeat split; try (vm_compute; reflexivity). vm_compute. discriminate.
Qed.
Print Assumptions C05_overlapping_union_refuted.

(* non-vacuity of the fragment *)
Example C05_fragment_example :
  rt_ty (TSeq SeqList (TTuple [TScalar SFloat; TSeq SeqTuple (TScalar SBool); TNone])).
Proof. repeat constructor. Qed.
(* Optional[List[Union[int, str, None]]] with a condition, and a literal *)
Example C05_fragment_union_example :
  rt_ty (TUnion [TSeq SeqList (TUnion [TCond (TScalar SInt) (CValRange (Some 0%Z) None); TScalar SStr; TNone]);
                 TDict (TScalar SStr) (TTuple [TScalar SFloat; TScalar SBool]);
                 TLiteral [VStr "auto"; VInt 3]; TNone]).
Proof.
  apply rt_union; [repeat constructor|vm_compute; reflexivity].
Qed.
(* ... while Union[int, float] is outside it: float reads ints *)
Example C05_fragment_excludes_overlap : pairwise_disjoint [TScalar SInt; TScalar SFloat] = false.
Proof. vm_compute. reflexivity. Qed.

(* plain dataclasses, from the mapping or the sequence layout *)
Theorem C05_plain_dataclass_roundtrip : forall h fs v x,
  plain_class h fs -> tc (TClass h fs) v = Ok x ->
  exists fields setf d,
    x = VInst (c_name h) fields setf /\
    into_data (TClass h fs) x = Ok d /\
    tc (TClass h fs) d = Ok (VInst (c_name h) fields (map fst fields)).
Proof. exact class_roundtrip. Qed.
Print Assumptions C05_plain_dataclass_roundtrip.
(* non-vacuity: class P: x: int; y: Optional[List[float]] = None; name: str = "p"  -- built from a sequence *)
Definition ex_P_hdr : class_hdr := mkCls "P" [FStruct; FTuple] false false HNone.
Definition ex_P_fields : list (fld * ty) :=
  [(mkFld "x" ["x"] "x" true false false DNone, TScalar SInt);
   (mkFld "y" ["y"] "y" true false false (DValue VNone), TUnion [TSeq SeqList (TScalar SFloat); TNone]);
   (mkFld "name" ["name"] "name" true false false (DValue (VStr "p")), TScalar SStr)].
Example C05_plain_class_example :
  plain_class ex_P_hdr ex_P_fields /\
  (tc (TClass ex_P_hdr ex_P_fields) (VList [VInt 3; VList [VInt 1]]) =
    Ok (VInst "P" [("x", VInt 3); ("y", VList [VFloat (float_of_int_exact 1)]); ("name", VStr "p")] ["x"; "y"])).
Proof.
  split; [|vm_compute; reflexivity].
  repeat split; try (vm_compute; reflexivity).
  - repeat constructor; simpl; try (exists VNone; reflexivity); try (exists (VStr "p"); reflexivity).
  - repeat constructor; simpl; intuition discriminate.
Qed.

(* the sequence form (out_format='tuple'), when no field is keyword-only *)
Theorem C05_plain_dataclass_roundtrip_tuple_form : forall h fs v x,
  plain_tuple_class h fs -> tc (TClass h fs) v = Ok x ->
  exists fields setf d,
    x = VInst (c_name h) fields setf /\
    into_data (TClass h fs) x = Ok d /\
    tc (TClass h fs) d = Ok (VInst (c_name h) fields (map fst fields)).
Proof. exact class_roundtrip_tuple. Qed.
Print Assumptions C05_plain_dataclass_roundtrip_tuple_form.
(* ... and the condition is necessary: a keyword-only field is written at a position that reading
   does not have (recorded finding roundtrip-rejected:tuple-out-with-kw-only-field) *)
Definition ex_Q : ty :=
  TClass (mkCls "Q" [FStruct; FTuple] true false HNone)
    [(mkFld "a" ["a"] "a" true false false DNone, TScalar SInt);
     (mkFld "b" ["b"] "b" true false true DNone, TScalar SInt)].
Theorem C05_kw_only_tuple_output_refuted :
  exists v x d, tc ex_Q v = Ok x /\ into_data ex_Q x = Ok d /\ tc ex_Q d = Reject.
Proof.
  exists (VDict [(VStr "a", VInt 1); (VStr "b", VInt 2)]), (VInst "Q" [("a", VInt 1); ("b", VInt 2)] ["a"; "b"]), (VTuple [VInt 1; VInt 2]).
  repeat split; vm_compute; reflexivity.
Qed.

(* any nesting of plain dataclasses, lists, tuples, text-keyed mappings and Optional[dataclass]:
   the re-read value equals the original up to the set-field records of the instances inside it *)
Theorem C05_nested_roundtrip : forall t v x,
  rt2_ty t -> tc t v = Ok x -> exists d x', into_data t x = Ok d /\ tc t d = Ok x' /\ same_val x' x.
Proof. exact nested_roundtrip. Qed.
Print Assumptions C05_nested_roundtrip.
(* non-vacuity: Team(name: str, lead: Optional[P] = None, members: List[P], by_role: Dict[str, Tuple[P, int]], tags: Set[str]) *)
Example C05_nested_example :
  let P := TClass ex_P_hdr ex_P_fields in
  rt2_ty (TClass (mkCls "Team" [FStruct; FTuple] false false HNone)
     [(mkFld "name" ["name"] "name" true false false DNone, TScalar SStr);
      (mkFld "lead" ["lead"] "lead" true false false (DValue VNone), TUnion [P; TNone]);
      (mkFld "members" ["members"] "members" true false false DNone, TSeq SeqList P);
      (mkFld "by_role" ["by_role"] "by_role" true false false DNone, TDict (TScalar SStr) (TTuple [P; TScalar SInt]));
      (mkFld "tags" ["tags"] "tags" true false false DNone, TSeq SeqSet (TScalar SStr))]).
Proof.
  assert (RP : rt2_ty (TClass ex_P_hdr ex_P_fields)).
  { apply r2_class.
    - repeat constructor.
    - repeat constructor; simpl; try (exists VNone; reflexivity); try (exists (VStr "p"); reflexivity).
    - repeat constructor; simpl; intuition discriminate.
    - left. repeat split; try reflexivity; [repeat constructor; simpl; intuition discriminate|repeat (constructor; try reflexivity)]. }
  apply r2_class.
  - apply Forall_cons; [apply r2_base; constructor|].
    apply Forall_cons; [apply r2_optional; exact RP|].
    apply Forall_cons; [apply r2_list; exact RP|].
    apply Forall_cons; [|apply Forall_cons; [apply r2_set; constructor|constructor]]. apply r2_dict. apply r2_tuple.
    apply Forall_cons; [exact RP|]. apply Forall_cons; [apply r2_base; constructor|constructor].
  - repeat constructor; simpl. exists VNone. reflexivity.
  - repeat constructor; simpl; intuition discriminate.
  - left. repeat split; try reflexivity; [repeat constructor; simpl; intuition discriminate|repeat (constructor; try reflexivity)].
Qed.

(* renamed fields: class rename styles, aliases, explicit input / output names -- any naming under which every field reads back
   the key it is written under ([reads_own_output], computed with the very lookup the converter uses) and no two fields share a key *)
Theorem C05_renamed_dataclass_roundtrip : forall h fs v x,
  renamed_class h fs -> c_out_tuple h = false -> has_fmt FStruct h = true -> tc (TClass h fs) v = Ok x ->
  exists fields setf d,
    x = VInst (c_name h) fields setf /\
    into_data (TClass h fs) x = Ok d /\
    tc (TClass h fs) d = Ok (VInst (c_name h) fields (map fst fields)).
Proof. exact class_roundtrip_renamed. Qed.
Print Assumptions C05_renamed_dataclass_roundtrip.
(* non-vacuity: class R(rename='camel'): my_field: int = field(aliases=['mf']); other_one: str = 'o'  (written as myField / otherOne) *)
Example C05_renamed_class_example :
  let fs := [(mkFld "my_field" ["my_field"; "myField"; "mf"] "myField" true false false DNone, TScalar SInt);
             (mkFld "other_one" ["other_one"; "otherOne"] "otherOne" true false false (DValue (VStr "o")), TScalar SStr)] in
  renamed_class (mkCls "R" [FStruct] false false HNone) fs /\
  (tc (TClass (mkCls "R" [FStruct] false false HNone) fs) (VDict [(VStr "mf", VInt 4)]) =
     Ok (VInst "R" [("my_field", VInt 4); ("other_one", VStr "o")] ["my_field"])) /\
  (into_data (TClass (mkCls "R" [FStruct] false false HNone) fs) (VInst "R" [("my_field", VInt 4); ("other_one", VStr "o")] ["my_field"]) =
     Ok (VDict [(VStr "myField", VInt 4); (VStr "otherOne", VStr "o")])).
Proof.
  repeat split; try (vm_compute; reflexivity).
  - repeat constructor; simpl. exists (VStr "o"). reflexivity.
  - repeat constructor; simpl; intuition discriminate.
  - repeat constructor; simpl; intuition discriminate.
  - repeat (constructor; try reflexivity).
Qed.
(* ... and a field that does NOT read back its own key is outside: out_name 'X' with input names that do not list it *)
Example C05_asymmetric_name_is_outside :
  let fs := [(mkFld "a" ["a"] "X" true false false DNone, TScalar SInt)] in
  ~ Forall (reads_own_output fs) fs.
Proof. intros fs H. inversion H as [|? ? R _]. discriminate R. Qed.
