(* C04 -- only ConvertError escapes a conversion.
   In the model every call that can raise (stdlib constructor, hashing of a key or
   tag, user predicate, __post_init__ hook, enum lookup) is an explicit [raw]
   result routed through [guard site], and [caught site exn] is generated from
   the except clauses of the current source (Gen/GenExcept.v).  The theorems say
   that with those clauses no exception class other than Reject (-> ConvertError)
   leaves either pass, for every well-formed type and EVERY value. *)
From Coq Require Import List String.
Require Import Base.Outcome Model.Values Model.Vocab Model.Types Model.Conv Lemmas.AgreeLemmas Lemmas.AgreeThm.

Theorem C04_no_escape : forall t v,
  wf_ty t -> (forall e, tc t v <> Escape e) /\ (forall e, ce t v <> CEscape e).
Proof. exact no_escape. Qed.
Print Assumptions C04_no_escape.

(* from_data either returns or raises ConvertError (CErr): never CThrow *)
Theorem C04_only_convert_error : forall t v,
  wf_ty t -> (exists x, convert t v = COk x) \/ (exists e, convert t v = CErr e).
Proof. exact convert_total. Qed.
Print Assumptions C04_only_convert_error.

(* exactly which except-clause facts the proof consumes *)
Theorem C04_except_clauses_suffice : sites_total.
Proof. exact sites_total_holds. Qed.
Print Assumptions C04_except_clauses_suffice.
