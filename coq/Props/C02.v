(* C02 -- strictness: no coercion across value kinds, in every context.
   [strict_ok] is the matrix written from the property text; the scalar table and
   the isinstance gates it is compared with are re-extracted from the live source
   on every run (Gen/GenScalars.v, Gen/GenGates.v). *)
From Coq Require Import ZArith List Bool String.
Require Import Base.Outcome Model.Values Model.Vocab Model.Types Model.Conv.
Require Import Gen.GenScalars Gen.GenGates Lemmas.StrictLemmas Lemmas.TypedLemmas.
Import ListNotations.

(* complete finite sweep: every (scalar target, kind) cell *)
Theorem C02_scalar_table_is_the_matrix : forall s k, scalar_allowed s k = strict_ok s k.
Proof. exact scalar_table_strict. Qed.
Print Assumptions C02_scalar_table_is_the_matrix.

(* text / bytes are never sequences; a mapping is never a sequence nor the reverse --
   for the generic gates and for the dataclass gates of both passes *)
Theorem C02_gates_are_strict : forall k,
  gate_sequence k = is_seq_kind k /\ gate_mapping k = is_map_kind k /\
  pane_seq_gate_try k = is_seq_kind k /\ pane_map_gate_try k = is_map_kind k /\
  pane_seq_gate_collect k = is_seq_kind k /\ pane_map_gate_collect k = is_map_kind k.
Proof. exact gates_strict. Qed.
Print Assumptions C02_gates_are_strict.

(* whatever a type accepts has a kind the matrix allows for that type *)
Theorem C02_strict_at_top : forall t v x, tc t v = Ok x -> accepts_kind t (kind_of v) = true.
Proof. exact strict_at_top. Qed.
Print Assumptions C02_strict_at_top.

(* ... and containers / unions succeed only through their element conversions, so the
   previous theorem applies to every element, value, slot and member at every depth *)
Theorem C02_sequence_elements : forall c e v x,
  tc (TSeq c e) v = Ok x -> Forall (fun xi => exists yi, tc e xi = Ok yi) (items_of v).
Proof. exact seq_elements_converted. Qed.
Theorem C02_tuple_slots : forall es v x,
  tc (TTuple es) v = Ok x -> Forall2 (fun t xi => exists yi, tc t xi = Ok yi) es (items_of v).
Proof. exact tuple_slots_converted. Qed.
Theorem C02_mapping_entries : forall kt vt v x,
  tc (TDict kt vt) v = Ok x ->
  Forall (fun kv => (exists k', tc kt (fst kv) = Ok k') /\ (exists v', tc vt (snd kv) = Ok v')) (pairs_of v).
Proof. exact dict_entries_converted. Qed.
Theorem C02_union_member : forall ms v x, tc (TUnion ms) v = Ok x -> exists m, In m ms /\ tc m v = Ok x.
Proof. exact union_member_converted. Qed.
Print Assumptions C02_mapping_entries.

(* the only changes of kind are the widenings towards the target; same kind = identity *)
Theorem C02_result_has_target_kind : forall s v x, tc (TScalar s) v = Ok x -> kind_of x = scalar_kind s.
Proof. exact scalar_result_kind. Qed.
Theorem C02_same_kind_is_identity : forall s v x,
  tc (TScalar s) v = Ok x -> kind_of v = scalar_kind s -> x = v.
Proof. exact scalar_same_kind_identity. Qed.
Print Assumptions C02_same_kind_is_identity.

(* members (enum) and variants (tagged union) are matched by value AND kind: after the value type's
   own conversion, 1.0 is not the member valued 1, True is not the tag 1 *)
Theorem C02_enum_member_has_the_kind_of_the_value : forall n members x mname v,
  enum_lookup n members x = ROk (VEnum n mname v) -> In (mname, v) members /\ kind_of x = kind_of v /\ py_eqb x v = true.
Proof. exact enum_lookup_same_kind. Qed.
Print Assumptions C02_enum_member_has_the_kind_of_the_value.
