(* C09 -- conversion never mutates its input.   PARTIAL (see the level note):
   (a) complete sweep of the generated table of mutating method calls / item
       assignments / deletions in every pass of every converter class: each receiver is
       a freshly built object or a copy, never the value passed in nor a sub-object of it;
   (b) heap model of the tag-stripping protocol of internally tagged unions: for every
       mapping and every key the caller's mapping is unchanged and the variant sees the
       mapping without the tag; and the protocol WITHOUT the copy does change the input
       (so the generated fact in (a) is what carries the property).
   Mutation by user hooks / custom converters / below the Python method level is outside
   the model; deep snapshots and instrumented containers on pane cover the global claim. *)
From Coq Require Import List Bool String.
Require Import Base.Outcome Model.Values Model.Types Model.Conv Gen.GenMut Model.Mut.
Import ListNotations.
Open Scope string_scope.

Theorem C09_no_mutating_operation_on_input : all_fresh = true.
Proof. vm_compute. reflexivity. Qed.
Print Assumptions C09_no_mutating_operation_on_input.

Theorem C09_tag_strip_leaves_input_unchanged : forall pass input k,
  (pass = "try_convert" \/ pass = "collect_errors") ->
  h_input (run (tag_protocol pass k) input) = input /\
  h_copy (run (tag_protocol pass k) input) = Some (dict_remove k input).
Proof. intros pass input k [-> | ->]; split; reflexivity. Qed.
Print Assumptions C09_tag_strip_leaves_input_unchanged.

(* what the variant sees is what the conversion model passes to it *)
Theorem C09_tag_strip_matches_model : forall tag kvs tagv body,
  tag_extract tag LInternal kvs = Some (tagv, body) ->
  Some body = option_map VDict (h_copy (run (tag_protocol "try_convert" (VStr tag)) kvs)).
Proof.
  intros tag kvs tagv body H. unfold tag_extract in H.
  destruct (dict_get (VStr tag) kvs); inversion H. reflexivity.
Qed.

(* the same operation applied to the input itself would be visible to the caller *)
Theorem C09_pop_on_input_refuted :
  exists input k, h_input (run [OPopInput k] input) <> input.
Proof. exists [(VStr "kind", VStr "a")], (VStr "kind"). vm_compute. discriminate. Qed.
