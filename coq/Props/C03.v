(* C03 -- the fast path and the diagnostic path always agree.
   [tc] models Converter.try_convert, [ce] models Converter.collect_errors (two
   separately written functions, Model/Conv.v), [convert] models Converter.convert /
   from_data.  Quantification: every well-formed type of the modelled grammar
   (unbounded nesting) and EVERY value (not only interchange data).
   wf_ty only asks that enum member values are interchange scalars. *)
From Coq Require Import ZArith List String.
Require Import Base.Outcome Model.Values Model.Vocab Model.Types Model.Conv Lemmas.AgreeLemmas Lemmas.AgreeThm.
Import ListNotations.

Theorem C03_fast_diag_agree : forall t v,
  wf_ty t ->
  (tc t v = Reject <-> exists e, ce t v = CTree e) /\
  ((exists x, tc t v = Ok x) <-> ce t v = CNone).
Proof. exact fast_diag_agree. Qed.
Print Assumptions C03_fast_diag_agree.

(* a failed conversion is a ConvertError carrying a tree, never the internal RuntimeError *)
Theorem C03_no_bug_error : forall t v, wf_ty t -> convert t v <> CThrow ERuntimeBug.
Proof. exact no_bug_error. Qed.
Print Assumptions C03_no_bug_error.

Theorem C03_convert_total : forall t v,
  wf_ty t -> (exists x, convert t v = COk x) \/ (exists e, convert t v = CErr e).
Proof. exact convert_total. Qed.
Print Assumptions C03_convert_total.

(* the facts about the except clauses of the current source that the proof uses *)
Theorem C03_sites : sites_total.
Proof. exact sites_total_holds. Qed.

(* non-vacuity: a nested type with a condition, a tagged union of dataclasses with a hook, an enum *)
Example C03_wf_example :
  wf_ty (TSeq SeqList (TUnion [
     TCond (TScalar SInt) (CAll [CAdj APositive; CRaise "boom"]);
     TEnum "E" [("A", VInt 1%Z); ("B", VStr "b")];
     TTagged "kind" LInternal
       [(VStr "a", TClass (mkCls "A" [FStruct; FTuple] false false (HRaiseIfIntLt "x" 0%Z))
                     [(mkFld "x" ["x"] "x" true false false DNone, TScalar SInt)])]])).
Proof. simpl. tauto. Qed.
