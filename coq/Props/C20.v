(* C20 -- Field renaming yields canonical, reversible names.
   Only statements here; proofs are in Lemmas/RenameThms.v.
   Domain: [snake_words ws] = a non-empty list of words of >= 2 lower-case ASCII
   letters; the identifier is [snake ws] = the words joined by single underscores. *)
From Coq Require Import String List.
Require Import Base.PyStr Base.Styles Model.Rename Lemmas.RenameLemmas Lemmas.RenameThms.
Import ListNotations.

Theorem C20_canonical : forall s ws,
  snake_words ws -> rename_field (snake ws) s = Some (canonical s ws).
Proof. exact rename_canonical. Qed.
Print Assumptions C20_canonical.

Theorem C20_injective : forall s ws ws',
  snake_words ws -> snake_words ws' ->
  rename_field (snake ws) s = rename_field (snake ws') s -> snake ws = snake ws'.
Proof. exact rename_injective. Qed.
Print Assumptions C20_injective.

Theorem C20_idempotent : forall s ws m,
  snake_words ws -> rename_field (snake ws) s = Some m -> rename_field m s = Some m.
Proof. exact rename_idempotent. Qed.
Print Assumptions C20_idempotent.

Theorem C20_reversible : forall s ws m,
  snake_words ws -> rename_field (snake ws) s = Some m ->
  rename_field m Snake = Some (snake ws).
Proof. exact rename_reversible. Qed.
Print Assumptions C20_reversible.

Theorem C20_style_pairs : forall s s' ws m,
  snake_words ws -> rename_field (snake ws) s = Some m ->
  rename_field m s' = rename_field (snake ws) s'.
Proof. exact rename_pairs. Qed.
Print Assumptions C20_style_pairs.

(* [None] models `raise ValueError` *)
Theorem C20_refuses : forall n s, malformed n -> rename_field n s = None.
Proof. exact rename_refuses. Qed.
Print Assumptions C20_refuses.

Example C20_domain_inhabited : snake_words ["my"; "field"; "name"]%string.
Proof. exact snake_words_example. Qed.
