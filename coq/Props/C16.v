(* C16 -- dataclass value semantics: equality, order, hash, (frozen, copy: checked on pane).
   The hash table is reflected from the live classes._hash_action and dataclasses._hash_action;
   [stdlib_rule] is written from the dataclasses documentation.  The laws are proved for field
   values in any domain where == is an equivalence and > a compatible total order. *)
From Coq Require Import ZArith List Bool Lia.
Require Import Gen.GenHash Model.ClassSem Lemmas.SemLemmas.
Import ListNotations.

Theorem C16_hash_table_is_the_stdlib_table : forall u e f h,
  pane_hash_action u e f h = stdlib_rule u e f h /\ pane_hash_action u e f h = stdlib_hash_action u e f h.
Proof. exact hash_table_is_stdlib. Qed.
Print Assumptions C16_hash_table_is_the_stdlib_table.

Section Laws.
  Variable V : Type.
  Variable veq vgt : V -> V -> bool.
  Variable vhash : V -> Z.
  Variable tuple_hash : list Z -> Z.
  Hypothesis veq_refl : forall x, veq x x = true.
  Hypothesis veq_sym : forall x y, veq x y = veq y x.
  Hypothesis veq_trans : forall x y z, veq x y = true -> veq y z = true -> veq x z = true.
  Hypothesis tricho : forall x y, veq x y = false -> vgt x y = negb (vgt y x).
  Hypothesis hash_respects_eq : forall x y, veq x y = true -> vhash x = vhash y.

  Theorem C16_eq_reflexive : forall a, inst_eq V veq a a = true.
  Proof. exact (eq_reflexive V veq veq_refl). Qed.
  Theorem C16_eq_symmetric : forall a b, same_shape V a b -> inst_eq V veq a b = true -> inst_eq V veq b a = true.
  Proof. exact (eq_symmetric V veq veq_sym). Qed.
  Theorem C16_eq_transitive : forall a b c, same_shape V a b -> same_shape V b c ->
    inst_eq V veq a b = true -> inst_eq V veq b c = true -> inst_eq V veq a c = true.
  Proof. exact (eq_transitive V veq veq_trans). Qed.
  Theorem C16_eq_ignores_generic_parameters : forall o c1 c2 fs,
    inst_eq V veq (mkInst V o c1 fs) (mkInst V o c2 fs) = true.
  Proof. exact (eq_ignores_generic_parameters V veq veq_refl). Qed.
  Theorem C16_trichotomy : forall a b, same_shape V a b ->
    exists o, inst_ord V veq vgt a b = Some o /\
      ((inst_lt V veq vgt a b = Some true /\ inst_eq V veq a b = false /\ inst_gt V veq vgt a b = Some false) \/
       (inst_lt V veq vgt a b = Some false /\ inst_eq V veq a b = true /\ inst_gt V veq vgt a b = Some false) \/
       (inst_lt V veq vgt a b = Some false /\ inst_eq V veq a b = false /\ inst_gt V veq vgt a b = Some true)).
  Proof. exact (trichotomy V veq vgt). Qed.
  Theorem C16_le_ge_derived : forall a b, same_shape V a b ->
    inst_le V veq vgt a b = Some (match inst_lt V veq vgt a b with Some true => true | _ => inst_eq V veq a b end) /\
    inst_ge V veq vgt a b = Some (match inst_gt V veq vgt a b with Some true => true | _ => inst_eq V veq a b end).
  Proof. exact (le_ge_derived V veq vgt). Qed.
  Theorem C16_lt_gt_converse : forall a b, same_shape V a b -> inst_lt V veq vgt a b = inst_gt V veq vgt b a.
  Proof. exact (lt_gt_converse V veq vgt veq_sym tricho). Qed.
  Theorem C16_equal_instances_hash_equal : forall a b, same_shape V a b -> hash_subset V a ->
    inst_eq V veq a b = true -> inst_hash V vhash tuple_hash a = inst_hash V vhash tuple_hash b.
  Proof. exact (eq_implies_hash_eq V veq vhash tuple_hash hash_respects_eq). Qed.
End Laws.
Print Assumptions C16_trichotomy.
Print Assumptions C16_equal_instances_hash_equal.

(* the side condition (every hash field is a compare field) is necessary -- as in the standard library *)
Theorem C16_hash_law_needs_subset_refuted :
  exists a b, inst_eq Z Z.eqb a b = true /\ inst_hash Z (fun z => z) (fun l => fold_left Z.add l 0%Z) a
                                            <> inst_hash Z (fun z => z) (fun l => fold_left Z.add l 0%Z) b.
Proof. exact hash_law_needs_subset. Qed.

(* the hypotheses are satisfiable: integers with Z.eqb / Z.gtb *)
Example C16_integers_satisfy_the_hypotheses :
  (forall x, Z.eqb x x = true) /\ (forall x y, Z.eqb x y = Z.eqb y x) /\
  (forall x y z, Z.eqb x y = true -> Z.eqb y z = true -> Z.eqb x z = true) /\
  (forall x y, Z.eqb x y = false -> Z.gtb x y = negb (Z.gtb y x)).
Proof.
  repeat split; intros.
  - apply Z.eqb_refl.
  - apply Z.eqb_sym.
  - apply Z.eqb_eq in H, H0. apply Z.eqb_eq. congruence.
  - apply Z.eqb_neq in H. rewrite !Z.gtb_ltb. destruct (Z.ltb_spec y x), (Z.ltb_spec x y); simpl; auto; lia.
Qed.
