(* C16 -- dataclass value semantics: equality, order, hash; frozen, copy, deepcopy, replace (second part of this file).
   The hash table is reflected from the live classes._hash_action and dataclasses._hash_action;
   [stdlib_rule] is written from the dataclasses documentation.  The laws are proved for field
   values in any domain where == is an equivalence and > a compatible total order. *)
From Coq Require Import ZArith List Bool Lia.
Require Import Gen.GenHash Model.ClassSem Lemmas.SemLemmas.
Require Import Base.Outcome Model.Values Model.Vocab Model.Types Model.Conv Model.Instance Lemmas.RoundTrip Lemmas.InstLemmas.
From Coq Require Import String.
Import ListNotations.

Theorem C16_hash_table_is_the_stdlib_table : forall u e f h,
  pane_hash_action u e f h = stdlib_rule u e f h /\ pane_hash_action u e f h = stdlib_hash_action u e f h.
Proof. exact hash_table_is_stdlib. Qed.
Print Assumptions C16_hash_table_is_the_stdlib_table.

Section Laws.
  Variable V : Type.
  Variable veq vgt : V -> V -> bool.
  Variable vhash : V -> Z.
  Variable tuple_hash : list Z -> Z.
  Hypothesis veq_refl : forall x, veq x x = true.
  Hypothesis veq_sym : forall x y, veq x y = veq y x.
  Hypothesis veq_trans : forall x y z, veq x y = true -> veq y z = true -> veq x z = true.
  Hypothesis tricho : forall x y, veq x y = false -> vgt x y = negb (vgt y x).
  Hypothesis hash_respects_eq : forall x y, veq x y = true -> vhash x = vhash y.

  Theorem C16_eq_reflexive : forall a, inst_eq V veq a a = true.
  Proof. exact (eq_reflexive V veq veq_refl). Qed.
  Theorem C16_eq_symmetric : forall a b, same_shape V a b -> inst_eq V veq a b = true -> inst_eq V veq b a = true.
  Proof. exact (eq_symmetric V veq veq_sym). Qed.
  Theorem C16_eq_transitive : forall a b c, same_shape V a b -> same_shape V b c ->
    inst_eq V veq a b = true -> inst_eq V veq b c = true -> inst_eq V veq a c = true.
  Proof. exact (eq_transitive V veq veq_trans). Qed.
  Theorem C16_eq_ignores_generic_parameters : forall o c1 c2 fs,
    inst_eq V veq (mkInst V o c1 fs) (mkInst V o c2 fs) = true.
  Proof. exact (eq_ignores_generic_parameters V veq veq_refl). Qed.
  Theorem C16_trichotomy : forall a b, same_shape V a b ->
    exists o, inst_ord V veq vgt a b = Some o /\
      ((inst_lt V veq vgt a b = Some true /\ inst_eq V veq a b = false /\ inst_gt V veq vgt a b = Some false) \/
       (inst_lt V veq vgt a b = Some false /\ inst_eq V veq a b = true /\ inst_gt V veq vgt a b = Some false) \/
       (inst_lt V veq vgt a b = Some false /\ inst_eq V veq a b = false /\ inst_gt V veq vgt a b = Some true)).
  Proof. exact (trichotomy V veq vgt). Qed.
  Theorem C16_le_ge_derived : forall a b, same_shape V a b ->
    inst_le V veq vgt a b = Some (match inst_lt V veq vgt a b with Some true => true | _ => inst_eq V veq a b end) /\
    inst_ge V veq vgt a b = Some (match inst_gt V veq vgt a b with Some true => true | _ => inst_eq V veq a b end).
  Proof. exact (le_ge_derived V veq vgt). Qed.
  Theorem C16_lt_gt_converse : forall a b, same_shape V a b -> inst_lt V veq vgt a b = inst_gt V veq vgt b a.
  Proof. exact (lt_gt_converse V veq vgt veq_sym tricho). Qed.
  Theorem C16_equal_instances_hash_equal : forall a b, same_shape V a b -> hash_subset V a ->
    inst_eq V veq a b = true -> inst_hash V vhash tuple_hash a = inst_hash V vhash tuple_hash b.
  Proof. exact (eq_implies_hash_eq V veq vhash tuple_hash hash_respects_eq). Qed.
End Laws.
Print Assumptions C16_trichotomy.
Print Assumptions C16_equal_instances_hash_equal.

(* the side condition (every hash field is a compare field) is necessary -- as in the standard library *)
Theorem C16_hash_law_needs_subset_refuted :
  exists a b, inst_eq Z Z.eqb a b = true /\ inst_hash Z (fun z => z) (fun l => fold_left Z.add l 0%Z) a
                                            <> inst_hash Z (fun z => z) (fun l => fold_left Z.add l 0%Z) b.
Proof. exact hash_law_needs_subset. Qed.

(* the hypotheses are satisfiable: integers with Z.eqb / Z.gtb *)
Example C16_integers_satisfy_the_hypotheses :
  (forall x, Z.eqb x x = true) /\ (forall x y, Z.eqb x y = Z.eqb y x) /\
  (forall x y z, Z.eqb x y = true -> Z.eqb y z = true -> Z.eqb x z = true) /\
  (forall x y, Z.eqb x y = false -> Z.gtb x y = negb (Z.gtb y x)).
Proof.
  repeat split; intros.
  - apply Z.eqb_refl.
  - apply Z.eqb_sym.
  - apply Z.eqb_eq in H, H0. apply Z.eqb_eq. congruence.
  - apply Z.eqb_neq in H. rewrite !Z.gtb_ltb. destruct (Z.ltb_spec y x), (Z.ltb_spec x y); simpl; auto; lia.
Qed.

(* ---------------------------------------------------------------------------------------------
   Frozen, copy, deepcopy, replace: the instance machine of Model/Instance.v (tied to pane by
   corr_inst: generated classes and operation sequences, compared step by step).
   State = every field's value + the record of explicitly set fields. *)

Theorem C16_frozen_instances_reject_assignment : forall c s n v,
  ic_frozen c = true -> step c s (OpAssign n v) = (s, OutFrozen).
Proof. exact frozen_rejects_assignment. Qed.

Theorem C16_deletion_is_rejected : forall c s n, step c s (OpDelete n) = (s, OutAttrError).
Proof. exact delete_rejected. Qed.

Theorem C16_copies_have_the_same_values_and_record : forall c s,
  step c s OpCopy = (s, OutInst s) /\ step c s OpDeepCopy = (s, OutInst s).
Proof. exact copies_are_the_same. Qed.

(* replace: a changed field holds the RE-VALIDATED value, every other field keeps its value,
   the record is the old one plus the changed names *)
Theorem C16_replace_field_by_field : forall c s ch,
  wf_cls c -> Inv c s -> changes_ok c ch = true ->
  (forall f v, In f (ic_fields c) -> field_get (if_name f) ch = Some v -> exists x, conv_arg (if_ty f) v = Ok x) ->
  exists s', replace c s ch = OutInst s' /\
    map fst (st_vals s') = names c /\
    (forall f, In f (ic_fields c) -> exists x, field_get (if_name f) (st_vals s') = Some x /\
        match field_get (if_name f) ch with
        | Some v => conv_arg (if_ty f) v = Ok x
        | None => field_get (if_name f) (st_vals s) = Some x
        end) /\
    (forall n, smem n (st_set s') = smem n (st_set s) || has_value n ch).
Proof. exact replace_spec. Qed.
Print Assumptions C16_replace_field_by_field.

Theorem C16_replace_rejects_a_value_outside_the_field_type : forall c s ch f v,
  wf_cls c -> Inv c s -> changes_ok c ch = true ->
  In f (ic_fields c) -> field_get (if_name f) ch = Some v -> conv_arg (if_ty f) v = Reject ->
  (forall g w e, In g (ic_fields c) -> field_get (if_name g) ch = Some w -> conv_arg (if_ty g) w <> Escape e) ->
  replace c s ch = OutConvertError.
Proof. exact replace_revalidates. Qed.

Theorem C16_replace_rejects_unknown_names : forall c s ch, changes_ok c ch = false -> replace c s ch = OutTypeError.
Proof. exact replace_unknown_name. Qed.

(* the invariant holds for every instance a constructor returns and is kept by every operation *)
Theorem C16_invariant_of_reachable_instances : forall c kw s0 ops,
  wf_cls c -> Forall (fun f => rt_ty (if_ty f)) (ic_fields c) ->
  construct_kw c kw = OutInst s0 -> Forall (op_typed c) ops -> Inv c (run c s0 ops).
Proof.
  intros c kw s0 ops W R C F. apply run_inv; auto using rt_fields_idem. eapply constructed_inv; eauto using rt_fields_idem.
Qed.
Print Assumptions C16_invariant_of_reachable_instances.

(* copy, deepcopy and replace() of EVERY reachable instance give the same values with the same record *)
Theorem C16_copy_deepcopy_replace_of_every_reachable_instance : forall c kw s0 ops,
  wf_cls c -> Forall (fun f => rt_ty (if_ty f)) (ic_fields c) ->
  construct_kw c kw = OutInst s0 -> Forall (op_typed c) ops ->
  let s := run c s0 ops in
  step c s OpCopy = (s, OutInst s) /\ step c s OpDeepCopy = (s, OutInst s) /\
  exists s', step c s (OpReplace []) = (s', OutInst s') /\ st_vals s' = st_vals s /\ same_record s' s.
Proof. intros c kw s0 ops W R. apply reachable_copy_replace; auto using rt_fields_idem. Qed.
Print Assumptions C16_copy_deepcopy_replace_of_every_reachable_instance.

(* the hypotheses are satisfiable: a class with a required field, a defaulted list field and an
   init=False field; the instance is constructed, its init=False field assigned, a field replaced
   (a tuple offered for the list field comes back as the list), and copied *)
Definition ex_cls : icls := mkICls false
  [mkIFld "x" (TScalar SInt) true None; mkIFld "y" (TSeq SeqList (TScalar SInt)) true (Some (VList []));
   mkIFld "z" (TScalar SStr) false (Some (VStr "d"))].
Definition ex_ops : list iop := [OpAssign "z" (VStr "q"); OpReplace [("y", VTuple [VInt 1; VInt 2])]; OpCopy].

Example C16_instance_hypotheses_satisfiable :
  wf_cls ex_cls /\ Forall (fun f => rt_ty (if_ty f)) (ic_fields ex_cls) /\
  construct_kw ex_cls [("x", VInt 1)] = OutInst (mkIState [("x", VInt 1); ("y", VList []); ("z", VStr "d")] ["x"]) /\
  Forall (op_typed ex_cls) ex_ops /\
  run ex_cls (mkIState [("x", VInt 1); ("y", VList []); ("z", VStr "d")] ["x"]) ex_ops
    = mkIState [("x", VInt 1); ("y", VList [VInt 1; VInt 2]); ("z", VStr "q")] ["x"; "y"; "z"].
Proof.
  split; [|split; [|split; [|split]]].
  - split.
    + repeat constructor; simpl; intuition discriminate.
    + intros f [<-|[<-|[<-|[]]]]; simpl; intros; discriminate.
  - repeat constructor.
  - vm_compute. reflexivity.
  - repeat constructor; simpl.
    intros f H. vm_compute in H. inversion H; subst. discriminate.
  - vm_compute. reflexivity.
Qed.
