(* C07 -- error trees localise failures compositionally.
   [agrees e] is the conclusion of C03 for the element type (it holds for every
   well-formed type: Lemmas.AgreeThm.agree_all), stated as a hypothesis here so
   that the theorems also read "for any element converter whose passes agree". *)
From Coq Require Import ZArith List Bool String.
Require Import Base.Outcome Model.Values Model.Vocab Model.Types Model.Expected Model.Conv.
Require Import Gen.GenGates Lemmas.AgreeLemmas Lemmas.AgreeThm Lemmas.TreeLemmas.
Import ListNotations.

(* homogeneous sequences: children = exactly the positions rejected on their own,
   each child = the element type's own tree; no missing / extra; the node records v *)
Theorem C07_sequence_children : forall c e v exp ch act mi ex,
  wf_ty e -> ce (TSeq c e) v = CTree (EProduct exp ch act mi ex) ->
  ch = children_spec (ce e) 0 (items_of v) /\ act = v /\ mi = [] /\ ex = [].
Proof. intros c e v exp ch act mi ex WF. apply seq_children. now apply agree_all. Qed.
Print Assumptions C07_sequence_children.

Theorem C07_tuple_children : forall es v exp ch act mi ex,
  ce (TTuple es) v = CTree (EProduct exp ch act mi ex) ->
  ch = zip_children_spec 0 es (items_of v) /\ act = v /\ mi = [] /\ ex = [].
Proof. exact tuple_children. Qed.
Print Assumptions C07_tuple_children.

(* a union node: one child per member, in declaration order, each the member's own tree *)
Theorem C07_union_children : forall ms v cs,
  wf_ty (TUnion ms) -> ce (TUnion ms) v = CTree (ESum cs) -> Forall2 (fun m c => ce m v = CTree c) ms cs.
Proof.
  intros ms v cs WF. apply union_children.
  simpl in WF. apply wf_list_ty in WF. eapply Forall_impl; [|exact WF]. intros a. apply agree_all.
Qed.
Print Assumptions C07_union_children.

(* struct types: extra = exactly the unknown keys, missing = exactly the absent fields *)
Theorem C07_struct_missing_extra : forall fs v exp ch act mi ex,
  ce (TStruct fs) v = CTree (EProduct exp ch act mi ex) ->
  ex = lit_extra_spec fs (pairs_of v) /\ mi = lit_missing fs (pairs_of v) /\ act = v.
Proof. exact struct_missing_extra. Qed.
Print Assumptions C07_struct_missing_extra.

(* every type-mismatch leaf produced at a node records the offending value itself
   (enum leaves record the value after the inner scalar conversion: a recorded finding) *)
Theorem C07_leaf_records_value : forall t v e a c i,
  (match t with TEnum _ _ | TTagged _ _ _ | TCond _ _ | TUnion _ => False | _ => True end) ->
  ce t v = CTree (EWrongType e a c i) -> a = v.
Proof. exact leaf_records_value. Qed.
Print Assumptions C07_leaf_records_value.
(* dataclasses read from a mapping: extra = exactly the keys that bind to no field (none when
   allow_extra), in the order of the data; missing = exactly the required fields that no key binds
   to, in declaration order; the node records v *)
Theorem C07_dataclass_missing_extra : forall h fs v exp ch act mi ex,
  pane_seq_gate_collect (kind_of v) = false ->
  ce (TClass h fs) v = CTree (EProduct exp ch act mi ex) ->
  ex = class_extra_spec fs (c_allow_extra h) (pairs_of v) /\ mi = class_missing_spec fs (pairs_of v) /\ act = v.
Proof. exact class_missing_extra. Qed.
Print Assumptions C07_dataclass_missing_extra.
(* non-vacuity: P(a: int, b: int = 0, c: str) read from {'a': 'x', 'zz': 1}: child a, extra zz, missing c *)
Open Scope string_scope.
Example C07_dataclass_example :
  let P := TClass (mkCls "P" [FStruct; FTuple] false false HNone)
             [(mkFld "a" ["a"] "a" true false false DNone, TScalar SInt);
              (mkFld "b" ["b"] "b" true false false (DValue (VInt 0)), TScalar SInt);
              (mkFld "c" ["c"] "c" true false false DNone, TScalar SStr)] in
  exists exp ch, ce P (VDict [(VStr "a", VStr "x"); (VStr "zz", VInt 1)]) =
                 CTree (EProduct exp ch (VDict [(VStr "a", VStr "x"); (VStr "zz", VInt 1)]) ["c"] [VStr "zz"]) /\ List.length ch = 1%nat.
Proof. vm_compute. eexists. eexists. split; reflexivity. Qed.

(* dataclasses, sequence layout: the positions of the INPUT are paired with the fields the constructor binds, in declaration
   order (a field with init=False takes no position); a position is a child exactly when the field's type rejects the
   element on its own, and the child is the tree that conversion alone reports; no missing, no extra *)
Theorem C07_dataclass_positional_children : forall h fs v exp ch act mi ex,
  pane_seq_gate_collect (kind_of v) = true ->
  ce (TClass h fs) v = CTree (EProduct exp ch act mi ex) ->
  ch = pos_children_spec 0 (positional_types fs) (items_of v) /\ ch <> [] /\ act = v /\ mi = [] /\ ex = [].
Proof. exact class_positional_children. Qed.
Print Assumptions C07_dataclass_positional_children.
(* non-vacuity: Q(note: str = field(init=False, default='n'), x: int, y: int) read from [1, 'two']: the only child is position 1 *)
Example C07_positional_example :
  let Q := TClass (mkCls "Q" [FStruct; FTuple] false false HNone)
             [(mkFld "note" ["note"] "note" false false false (DValue (VStr "n")), TScalar SStr);
              (mkFld "x" ["x"] "x" true false false DNone, TScalar SInt);
              (mkFld "y" ["y"] "y" true false false DNone, TScalar SInt)] in
  pane_seq_gate_collect (kind_of (VList [VInt 1; VStr "two"])) = true /\
  exists exp e, ce Q (VList [VInt 1; VStr "two"]) = CTree (EProduct exp [(KIdx 1, e)] (VList [VInt 1; VStr "two"]) [] []).
Proof. vm_compute. split; [reflexivity|]. eexists. eexists. reflexivity. Qed.
