(* C17 -- inheritance and generics resolve fields, order and types.
   [collect levels] models classes._process over the reversed MRO (the MRO itself is Python's C3
   linearisation and is taken from Python); [fields_of] adds the keyword-only reordering. *)
From Coq Require Import List Bool String Arith.
Require Import Model.Process Lemmas.ProcessLemmas.
Import ListNotations.

(* effective field names: first occurrence over bases-then-own declarations *)
Theorem C17_field_names_first_occurrence_order : forall levels,
  keys (collect levels) = fold_left (fun seen lv => add_new seen (keys (own_specs (l_kw_only lv) (l_items lv)))) levels [].
Proof. exact collected_names. Qed.
Print Assumptions C17_field_names_first_occurrence_order.

(* a redeclared field overrides in place: it keeps the position of the first declaration ... *)
Theorem C17_override_in_place : forall (V : Type) (specs own : list (string * V)) k,
  In k (keys specs) -> exists pre post, keys specs = (pre ++ k :: post)%list /\ exists post', keys (dict_update specs own) = (pre ++ k :: post')%list.
Proof. exact @override_in_place. Qed.
(* ... and takes the last declaration *)
Theorem C17_last_declaration_wins : forall (V : Type) k (specs own : list (string * V)),
  assoc_s k (dict_update specs own) = match last_decl k own with Some v => Some v | None => assoc_s k specs end.
Proof. exact @assoc_dict_update. Qed.
Print Assumptions C17_last_declaration_wins.

(* keyword-only fields go behind the positional ones, both groups keep their relative order *)
Theorem C17_keyword_only_moved_back : forall levels,
  fields_of levels = (filter (fun kv => negb (d_kw_only (snd kv))) (collect levels) ++ filter (fun kv => d_kw_only (snd kv)) (collect levels))%list
  /\ Forall (fun kv => d_kw_only (snd kv) = false) (filter (fun kv => negb (d_kw_only (snd kv))) (collect levels))
  /\ Forall (fun kv => d_kw_only (snd kv) = true) (filter (fun kv => d_kw_only (snd kv)) (collect levels)).
Proof. exact fields_partition. Qed.

(* type-variable substitution composes over any depth of generic inheritance and reaches every occurrence *)
Theorem C17_substitution_composes : forall sigma tau t, tsubst sigma (tsubst tau t) = tsubst (tcompose sigma tau) t.
Proof. exact subst_compose. Qed.
Theorem C17_substitution_reaches_every_occurrence : forall sigma t,
  (forall n, In n (tvars t) -> exists u, sigma n = Some u /\ tvars u = []) -> tvars (tsubst sigma t) = [].
Proof. exact subst_total. Qed.
Print Assumptions C17_substitution_composes.

(* a field redeclared by a bare annotation takes the value of the nearest ancestor that declared one, looking through a
   redeclaration without a value in between (class attribute lookup, as in the standard library):
     class L0: a: int = 0      class L1(L0): a: int = field(kw_only=True)      class L2(L1): a: int      -> L2.a has a default *)
Example C17_bare_redeclaration_sees_the_nearest_value :
  let int := EConst "int"%string in
  map (fun kv => (fst kv, d_kw_only (snd kv), d_has_default (snd kv)))
      (fields_of [mkLevel false [AField "a" false true int] []; mkLevel false [AField "a" true false int] []; mkLevel false [AField "a" false false int] []])
  = [("a"%string, false, true)].
Proof. vm_compute. reflexivity. Qed.
