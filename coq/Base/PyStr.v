(* ASCII model of the Python str methods pane uses on field names and phrases.
   Strings are Coq [string]s (lists of 8-bit characters); only the 7-bit letters
   are cased, every other character is "uncased" exactly as in Python for ASCII. *)
From Coq Require Import Ascii String List Bool Arith Lia.
Import ListNotations.
Open Scope string_scope.
Open Scope nat_scope.

Definition is_upper (c : ascii) : bool :=
  let n := nat_of_ascii c in (65 <=? n) && (n <=? 90).
Definition is_lower (c : ascii) : bool :=
  let n := nat_of_ascii c in (97 <=? n) && (n <=? 122).
Definition is_cased (c : ascii) : bool := is_upper c || is_lower c.

Definition to_upper (c : ascii) : ascii :=
  if is_lower c then ascii_of_nat (nat_of_ascii c - 32) else c.
Definition to_lower (c : ascii) : ascii :=
  if is_upper c then ascii_of_nat (nat_of_ascii c + 32) else c.

Fixpoint smap (f : ascii -> ascii) (s : string) : string :=
  match s with
  | EmptyString => EmptyString
  | String c s' => String (f c) (smap f s')
  end.

Fixpoint sall (p : ascii -> bool) (s : string) : bool :=
  match s with
  | EmptyString => true
  | String c s' => p c && sall p s'
  end.

Fixpoint sany (p : ascii -> bool) (s : string) : bool :=
  match s with
  | EmptyString => false
  | String c s' => p c || sany p s'
  end.

(* str.lower / str.upper *)
Definition str_lower : string -> string := smap to_lower.
Definition str_upper : string -> string := smap to_upper.

(* str.title(): a cased character is upper-cased when the previous character is
   uncased (or there is none) and lower-cased otherwise. *)
Fixpoint title_from (prev_cased : bool) (s : string) : string :=
  match s with
  | EmptyString => EmptyString
  | String c s' =>
      String (if prev_cased then to_lower c else to_upper c) (title_from (is_cased c) s')
  end.
Definition str_title : string -> string := title_from false.

(* str.capitalize(): first character upper, the rest lower *)
Definition str_capitalize (s : string) : string :=
  match s with
  | EmptyString => EmptyString
  | String c s' => String (to_upper c) (str_lower s')
  end.

(* str.isupper / islower: at least one cased character and no cased character
   of the other case *)
Definition str_isupper (s : string) : bool := sany is_cased s && negb (sany is_lower s).
Definition str_islower (s : string) : bool := sany is_cased s && negb (sany is_upper s).

(* str.istitle(), transcribed from CPython's unicode_istitle_impl *)
Fixpoint istitle_from (prev_cased seen_cased : bool) (s : string) : bool :=
  match s with
  | EmptyString => seen_cased
  | String c s' =>
      if is_upper c then (if prev_cased then false else istitle_from true true s')
      else if is_lower c then (if prev_cased then istitle_from true true s' else false)
      else istitle_from false seen_cased s'
  end.
Definition str_istitle : string -> bool := istitle_from false false.

(* sep.join(parts) *)
Fixpoint join (sep : string) (parts : list string) : string :=
  match parts with
  | [] => EmptyString
  | [p] => p
  | p :: ps => p ++ sep ++ join sep ps
  end.

Fixpoint sconcat (parts : list string) : string :=
  match parts with
  | [] => EmptyString
  | p :: ps => p ++ sconcat ps
  end.

(* re.split(r'[...]', s) for a one-character class: one part per separator
   occurrence plus one, empty parts kept *)
Fixpoint split_on (p : ascii -> bool) (s : string) : list string :=
  match s with
  | EmptyString => [EmptyString]
  | String c s' =>
      if p c then EmptyString :: split_on p s'
      else match split_on p s' with
           | [] => [String c EmptyString]
           | w :: ws => String c w :: ws
           end
  end.

(* re.split(r'([A-Z])', s) followed by pane's regrouping: the leading run that
   contains no capital (if non-empty), then every capital together with the run
   that follows it. [caps_aux] returns (leading run, later words). *)
Fixpoint caps_aux (cap : ascii -> bool) (s : string) : string * list string :=
  match s with
  | EmptyString => (EmptyString, [])
  | String c s' =>
      let (lead, ws) := caps_aux cap s' in
      if cap c then (EmptyString, String c lead :: ws) else (String c lead, ws)
  end.

Definition is_empty (s : string) : bool :=
  match s with EmptyString => true | _ => false end.

Definition split_caps (cap : ascii -> bool) (s : string) : list string :=
  let (lead, ws) := caps_aux cap s in
  if is_empty lead then ws else lead :: ws.

Definition mem_ascii (c : ascii) (l : list ascii) : bool :=
  existsb (Ascii.eqb c) l.
