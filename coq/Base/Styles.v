(* Vocabulary shared by the generated rename tables (Gen/GenRename.v) and the
   hand-written rename model (Model/Rename.v). *)
From Coq Require Import Ascii String List Bool.
Require Import Base.PyStr.
Import ListNotations.

Inductive style := Snake | Scream | Kebab | Camel | Pascal.
Definition all_styles : list style := [Snake; Scream; Kebab; Camel; Pascal].

Inductive casefn := CLower | CUpper | CTitle | CCapitalize | CId.
Definition apply_casefn (f : casefn) : string -> string :=
  match f with
  | CLower => str_lower | CUpper => str_upper | CTitle => str_title
  | CCapitalize => str_capitalize | CId => fun s => s
  end.

Inductive casetest := TIsUpper | TIsLower | TIsTitle.
Definition apply_casetest (t : casetest) : string -> bool :=
  match t with
  | TIsUpper => str_isupper | TIsLower => str_islower | TIsTitle => str_istitle
  end.
