(* Python numbers: ints are Z; floats are exact dyadic rationals m * 2^e
   (normalised: m odd, or m = 0 and e = 0), infinities and NaN.  The sign of zero
   is not represented (-0.0 == 0.0 in Python and pane never inspects it). *)
From Coq Require Import ZArith Bool Lia.
Open Scope Z_scope.

Inductive pyfloat := FFin (m e : Z) | FInf (neg : bool) | FNan.

(* strip trailing zero bits of m, [fuel] bounds the loop by the bit length *)
Fixpoint norm_fuel (fuel : nat) (m e : Z) : Z * Z :=
  match fuel with
  | O => (m, e)
  | S k => if Z.eqb m 0 then (0, 0)
           else if Z.even m then norm_fuel k (m / 2) (e + 1) else (m, e)
  end.
Definition fnorm (m e : Z) : pyfloat :=
  let '(m', e') := norm_fuel (Z.to_nat (Z.log2 (Z.abs m) + 1)) m e in FFin m' e'.

(* float(z): round to nearest even on 53 bits; OverflowError above the double range *)
Definition float_of_Z (z : Z) : option pyfloat :=
  let a := Z.abs z in
  let n := if Z.eqb a 0 then 0 else Z.log2 a + 1 in          (* bit length *)
  if n <=? 53 then Some (fnorm z 0)
  else
    let sh := n - 53 in
    let q := Z.shiftr a sh in
    let r := a - Z.shiftl q sh in
    let half := Z.shiftl 1 (sh - 1) in
    let q' := if (r >? half) || ((r =? half) && Z.odd q) then q + 1 else q in
    (* q' may be 2^53: still fine, fnorm normalises; overflow when the result >= 2^1024 *)
    let mag := Z.shiftl q' sh in
    if Z.log2 mag + 1 >? 1024 then None
    else Some (fnorm (if z <? 0 then - q' else q') sh).

(* exact comparison of finite dyadics: m1*2^e1 ? m2*2^e2 *)
Definition dy_cmp (m1 e1 m2 e2 : Z) : comparison :=
  let e := Z.min e1 e2 in
  Z.compare (m1 * 2 ^ (e1 - e)) (m2 * 2 ^ (e2 - e)).

(* Python float comparison; None = unordered (NaN involved) *)
Definition fcmp (a b : pyfloat) : option comparison :=
  match a, b with
  | FNan, _ | _, FNan => None
  | FInf true, FInf true | FInf false, FInf false => Some Eq
  | FInf true, _ => Some Lt
  | _, FInf true => Some Gt
  | FInf false, _ => Some Gt
  | _, FInf false => Some Lt
  | FFin m1 e1, FFin m2 e2 => Some (dy_cmp m1 e1 m2 e2)
  end.

Definition feqb (a b : pyfloat) : bool :=
  match fcmp a b with Some Eq => true | _ => false end.

Definition float_of_int_exact (z : Z) : pyfloat := fnorm z 0.
Definition fzero : pyfloat := FFin 0 0.
Definition f_isfinite (a : pyfloat) : bool := match a with FFin _ _ => true | _ => false end.
