(* Outcomes of the modelled Python functions and the list combinators of the
   conversion model.  Every combinator abstracts its function argument outside
   the [fix] (Section variable), which is what lets the guard checker accept the
   nested recursion of Model/Conv.v through [list ty] and [list (string * ty)]. *)
From Coq Require Import List Bool.
Import ListNotations.

(* exception classes the model distinguishes *)
Inductive exn := ETypeError | EValueError | EKeyError | EOverflowError | EAttributeError
               | EReError | ERuntimeBug | EAssertion | EOther.

Definition exn_eqb (a b : exn) : bool :=
  match a, b with
  | ETypeError, ETypeError | EValueError, EValueError | EKeyError, EKeyError
  | EOverflowError, EOverflowError | EAttributeError, EAttributeError | EReError, EReError
  | ERuntimeBug, ERuntimeBug | EAssertion, EAssertion | EOther, EOther => true
  | _, _ => false
  end.

(* result of the fast pass: a value, ParseInterrupt, or another exception escaping *)
Inductive outcome (A : Type) := Ok (a : A) | Reject | Escape (e : exn).
Arguments Ok {A} a. Arguments Reject {A}. Arguments Escape {A} e.

(* result of a raw Python operation that may raise *)
Inductive raw (A : Type) := ROk (a : A) | RRaise (e : exn).
Arguments ROk {A} a. Arguments RRaise {A} e.

Definition bind {A B} (o : outcome A) (f : A -> outcome B) : outcome B :=
  match o with Ok a => f a | Reject => Reject | Escape e => Escape e end.

Section Combinators.
  Context {A B : Type} (f : A -> outcome B).

  (* [f x for x in l] evaluated left to right, stopping at the first failure *)
  Fixpoint map_out (l : list A) : outcome (list B) :=
    match l with
    | [] => Ok []
    | x :: r => match f x with
                | Ok y => match map_out r with Ok ys => Ok (y :: ys) | Reject => Reject | Escape e => Escape e end
                | Reject => Reject
                | Escape e => Escape e
                end
    end.

  (* the union loop: first member that accepts *)
  Fixpoint first_ok (l : list A) : outcome B :=
    match l with
    | [] => Reject
    | x :: r => match f x with
                | Ok y => Ok y
                | Reject => first_ok r
                | Escape e => Escape e
                end
    end.
End Combinators.

Section Zip.
  Context {A B C : Type} (f : A -> B -> outcome C).
  (* zip(convs, vals): stops at the shorter list *)
  Fixpoint zip_out (l : list A) (m : list B) : outcome (list C) :=
    match l, m with
    | x :: r, y :: s => match f x y with
                        | Ok z => match zip_out r s with Ok zs => Ok (z :: zs) | Reject => Reject | Escape e => Escape e end
                        | Reject => Reject
                        | Escape e => Escape e
                        end
    | _, _ => Ok []
    end.
End Zip.

Section Assoc.
  Context {K V : Type} (eqb : K -> K -> bool).
  Fixpoint assoc (k : K) (l : list (K * V)) : option V :=
    match l with
    | [] => None
    | (k', v) :: r => if eqb k k' then Some v else assoc k r
    end.
  Fixpoint assoc_index_from (i : nat) (k : K) (l : list (K * V)) : option nat :=
    match l with
    | [] => None
    | (k', _) :: r => if eqb k k' then Some i else assoc_index_from (S i) k r
    end.
  (* d[k] = v on an insertion-ordered dict *)
  Fixpoint assoc_set (k : K) (v : V) (l : list (K * V)) : list (K * V) :=
    match l with
    | [] => [(k, v)]
    | (k', v') :: r => if eqb k k' then (k', v) :: r else (k', v') :: assoc_set k v r
    end.
  Fixpoint assoc_remove (k : K) (l : list (K * V)) : list (K * V) :=
    match l with
    | [] => []
    | (k', v') :: r => if eqb k k' then r else (k', v') :: assoc_remove k r
    end.
End Assoc.
