(* C19 proofs: ownership, and the round trip as a composition. *)
From Coq Require Import ZArith List Bool String Lia.
Require Import Base.PyNum Base.Outcome Model.Values Model.Vocab Model.Types Model.Conv Model.Into Model.IO.
Require Import Gen.GenScalars Gen.GenGates Gen.GenExcept Gen.GenIO.
Import ListNotations.
Open Scope nat_scope.

(* ---- ownership ---- *)
Theorem stream_left_as_it_was s i : with_file s (Stream i) = (s, i).
Proof. reflexivity. Qed.

Lemma is_open_set_same i b hs : (exists x, is_open i hs = Some x) -> is_open i (set_open i b hs) = Some b.
Proof.
  unfold is_open, set_open. induction hs as [|[j x] r IH]; simpl; intros [y H]; [discriminate|].
  destruct (Nat.eqb j i) eqn:E; simpl.
  - rewrite Nat.eqb_refl. reflexivity.
  - rewrite E. apply IH. eauto.
Qed.

Lemma is_open_set_other i j b hs : i <> j -> is_open j (set_open i b hs) = is_open j hs.
Proof.
  intros N. unfold is_open, set_open. induction hs as [|[k x] r IH]; simpl; [reflexivity|].
  destruct (Nat.eqb k i) eqn:E; simpl.
  - apply Nat.eqb_eq in E. subst k. destruct (Nat.eqb i j) eqn:E2; [apply Nat.eqb_eq in E2; congruence|exact IH].
  - destruct (Nat.eqb k j); [reflexivity|exact IH].
Qed.

(* a path is opened by pane and closed when the with-block is left; nothing else is touched *)
Theorem path_handle_closed s :
  (forall i, In i (map fst (handles s)) -> i < next_id s) ->
  let '(s', h) := with_file s Path in
  is_open h (handles s') = Some false /\ (forall j, j <> h -> is_open j (handles s') = is_open j (handles s)).
Proof.
  intros Fresh. simpl. split.
  - unfold is_open. simpl. rewrite Nat.eqb_refl. simpl. rewrite Nat.eqb_refl. reflexivity.
  - intros j N. unfold is_open. simpl. rewrite Nat.eqb_refl. simpl.
    destruct (Nat.eqb (next_id s) j) eqn:E; [apply Nat.eqb_eq in E; congruence|].
    fold (set_open (next_id s) false (handles s)). fold (is_open j (set_open (next_id s) false (handles s))).
    fold (is_open j (handles s)). apply is_open_set_other. congruence.
Qed.

Theorem all_io_functions_go_through_open_file :
  forallb (fun p => snd p) io_functions_use_open_file = true /\ default_encoding = "utf-8"%string.
Proof. split; reflexivity. Qed.

(* ---- the round trip is the composition of the serialiser law, list/tuple insensitivity and C05 ---- *)
Section Compose.
  Variable opts : Type.
  Variable dump : opts -> pyval -> string.
  Variable load : string -> option pyval.
  (* the law assumed of json / PyYAML on representable data (validated by testing only) *)
  Hypothesis load_dump : forall o d, load (dump o d) = Some (normalise d).

  Theorem file_roundtrip t o x d :
    into_data t x = Ok d ->
    tc t (normalise d) = tc t d ->          (* reading does not distinguish lists from tuples *)
    tc t d = Ok x ->                        (* C05 for this value *)
    exists text, write opts dump o t x = Ok text /\ read load t text = COk x.
  Proof.
    intros I N R. exists (dump o d). unfold write, read. rewrite I, load_dump. split; [reflexivity|].
    unfold convert, convert_with. now rewrite N, R.
  Qed.
End Compose.

(* reading is insensitive to list-vs-tuple on the container fragment (no Any, whose result is the value itself) *)
Inductive norm_ty : ty -> Prop :=
| nt_none : norm_ty TNone
| nt_scalar s : norm_ty (TScalar s)
| nt_seq c e : norm_ty e -> norm_ty (TSeq c e)
| nt_tuple es : Forall norm_ty es -> norm_ty (TTuple es)
| nt_dict k v : norm_ty v -> norm_ty (TDict k v)
| nt_union ms : Forall norm_ty ms -> norm_ty (TUnion ms)
| nt_cond t c : norm_ty t -> norm_ty (TCond t c).

Lemma kind_norm_gate v :
  gate_sequence (kind_of (normalise v)) = gate_sequence (kind_of v) /\
  gate_mapping (kind_of (normalise v)) = gate_mapping (kind_of v).
Proof. destruct v; simpl; split; reflexivity. Qed.

Lemma items_norm v : items_of (normalise v) = map normalise (items_of v).
Proof. destruct v; reflexivity. Qed.

Lemma pairs_norm v : pairs_of (normalise v) = map (fun kv => (fst kv, normalise (snd kv))) (pairs_of v).
Proof. destruct v; reflexivity. Qed.

Lemma map_out_map {A B C} (f : B -> outcome C) (g : A -> B) l : map_out f (map g l) = map_out (fun x => f (g x)) l.
Proof. induction l as [|x l IH]; simpl; [reflexivity|]. destruct (f (g x)); auto. now rewrite IH. Qed.

Lemma map_out_ext {A B} (f g : A -> outcome B) l : (forall x, f x = g x) -> map_out f l = map_out g l.
Proof. intros H. induction l as [|x l IH]; simpl; [reflexivity|]. now rewrite H, IH. Qed.

Lemma scalar_norm s v : tc (TScalar s) (normalise v) = tc (TScalar s) v.
Proof. destruct v; try reflexivity; destruct s; reflexivity. Qed.

Theorem norm_insensitive t : norm_ty t -> forall v, tc t (normalise v) = tc t v.
Proof.
  induction t as [| |s|c e IHe|es IHes|kt vt IHk IHv|fs IHfs|ms IHms|vals|n members|h fs IHfs|inner c IHi|tag lay vs IHvs] using ty_ind';
    intros N v; inversion N as [| |c' e' Ne|es' Nes|k' v' Nv|ms' Nms|t' c' Ni]; subst.
  - destruct v; reflexivity.
  - apply scalar_norm.
  - specialize (IHe Ne). simpl. destruct (kind_norm_gate v) as [-> _].
    rewrite items_norm, map_out_map. now rewrite (map_out_ext _ (tc e) _ IHe).
  - simpl. destruct (kind_norm_gate v) as [-> _]. rewrite items_norm, map_length.
    destruct (gate_sequence (kind_of v) && Nat.eqb (List.length (items_of v)) (List.length es)); [|reflexivity].
    assert (E : forall xs, zip_out tc es (map normalise xs) = zip_out tc es xs).
    { clear N. induction IHes as [|t es Ht _ IH]; intros xs; [destruct xs; reflexivity|].
      inversion Nes as [|? ? Nt Nr]; subst. destruct xs as [|x xs]; simpl; [reflexivity|]. rewrite (Ht Nt x), (IH Nr xs). reflexivity. }
    now rewrite E.
  - specialize (IHv Nv). simpl. destruct (kind_norm_gate v) as [_ ->]. rewrite pairs_norm, map_out_map. simpl.
    erewrite map_out_ext; [reflexivity|]. intros kv. simpl. now rewrite IHv.
  - simpl. assert (E : forall l, Forall (fun t => norm_ty t -> forall v, tc t (normalise v) = tc t v) l -> Forall norm_ty l ->
                       first_ok (fun m => tc m (normalise v)) l = first_ok (fun m => tc m v) l).
    { induction l as [|m l IH]; intros F1 F2; simpl; [reflexivity|]. inversion F1 as [|? ? Pm Pl]; subst. inversion F2 as [|? ? Nm Nl]; subst.
      rewrite (Pm Nm v), IH; auto. }
    now apply E.
  - specialize (IHi Ni). simpl. now rewrite IHi.
Qed.
