(* C19 proofs: ownership, and the round trip as a composition. *)
From Coq Require Import ZArith List Bool String Lia.
Require Import Base.PyNum Base.Outcome Model.Values Model.Vocab Model.Types Model.Conv Model.Into Model.IO.
Require Import Gen.GenScalars Gen.GenGates Gen.GenExcept Gen.GenIO.
Require Import Lemmas.RoundTrip.
Import ListNotations.
Open Scope nat_scope.

(* ---- ownership ---- *)
Theorem stream_left_as_it_was s i : with_file s (Stream i) = (s, i).
Proof. reflexivity. Qed.

Lemma is_open_set_same i b hs : (exists x, is_open i hs = Some x) -> is_open i (set_open i b hs) = Some b.
Proof.
  unfold is_open, set_open. induction hs as [|[j x] r IH]; simpl; intros [y H]; [discriminate|].
  destruct (Nat.eqb j i) eqn:E; simpl.
  - rewrite Nat.eqb_refl. reflexivity.
  - rewrite E. apply IH. eauto.
Qed.

Lemma is_open_set_other i j b hs : i <> j -> is_open j (set_open i b hs) = is_open j hs.
Proof.
  intros N. unfold is_open, set_open. induction hs as [|[k x] r IH]; simpl; [reflexivity|].
  destruct (Nat.eqb k i) eqn:E; simpl.
  - apply Nat.eqb_eq in E. subst k. destruct (Nat.eqb i j) eqn:E2; [apply Nat.eqb_eq in E2; congruence|exact IH].
  - destruct (Nat.eqb k j); [reflexivity|exact IH].
Qed.

(* a path is opened by pane and closed when the with-block is left; nothing else is touched *)
Theorem path_handle_closed s :
  (forall i, In i (map fst (handles s)) -> i < next_id s) ->
  let '(s', h) := with_file s Path in
  is_open h (handles s') = Some false /\ (forall j, j <> h -> is_open j (handles s') = is_open j (handles s)).
Proof.
  intros Fresh. simpl. split.
  - unfold is_open. simpl. rewrite Nat.eqb_refl. simpl. rewrite Nat.eqb_refl. reflexivity.
  - intros j N. unfold is_open. simpl. rewrite Nat.eqb_refl. simpl.
    destruct (Nat.eqb (next_id s) j) eqn:E; [apply Nat.eqb_eq in E; congruence|].
    fold (set_open (next_id s) false (handles s)). fold (is_open j (set_open (next_id s) false (handles s))).
    fold (is_open j (handles s)). apply is_open_set_other. congruence.
Qed.

Theorem all_io_functions_go_through_open_file :
  forallb (fun p => snd p) io_functions_use_open_file = true /\ default_encoding = "utf-8"%string.
Proof. split; reflexivity. Qed.

(* ---- the round trip is the composition of the serialiser law, list/tuple insensitivity and C05 ---- *)
Section Compose.
  Variable opts : Type.
  Variable dump : opts -> pyval -> string.
  Variable load : string -> option pyval.
  (* the law assumed of json / PyYAML on representable data (validated by testing only) *)
  Hypothesis load_dump : forall o d, load (dump o d) = Some (normalise d).

  Theorem file_roundtrip t o x d :
    into_data t x = Ok d ->
    tc t (normalise d) = tc t d ->          (* reading does not distinguish lists from tuples *)
    tc t d = Ok x ->                        (* C05 for this value *)
    exists text, write opts dump o t x = Ok text /\ read load t text = COk x.
  Proof.
    intros I N R. exists (dump o d). unfold write, read. rewrite I, load_dump. split; [reflexivity|].
    unfold convert, convert_with. now rewrite N, R.
  Qed.
End Compose.

(* reading is insensitive to list-vs-tuple on the container fragment (no Any, whose result is the value itself) *)
Inductive norm_ty : ty -> Prop :=
| nt_none : norm_ty TNone
| nt_scalar s : norm_ty (TScalar s)
| nt_seq c e : norm_ty e -> norm_ty (TSeq c e)
| nt_tuple es : Forall norm_ty es -> norm_ty (TTuple es)
| nt_dict k v : norm_ty v -> norm_ty (TDict k v)
| nt_union ms : Forall norm_ty ms -> norm_ty (TUnion ms)
| nt_cond t c : norm_ty t -> norm_ty (TCond t c)
| nt_struct fs : Forall (fun x => norm_ty (snd x)) fs -> norm_ty (TStruct fs)
| nt_class h fs : Forall (fun x => norm_ty (snd x)) fs -> norm_ty (TClass h fs)
| nt_literal vals : Forall lit_scalar vals -> norm_ty (TLiteral vals).

Lemma kind_norm_gate v :
  gate_sequence (kind_of (normalise v)) = gate_sequence (kind_of v) /\
  gate_mapping (kind_of (normalise v)) = gate_mapping (kind_of v).
Proof. destruct v; simpl; split; reflexivity. Qed.

Lemma items_norm v : items_of (normalise v) = map normalise (items_of v).
Proof. destruct v; reflexivity. Qed.

Lemma pairs_norm v : pairs_of (normalise v) = map (fun kv => (fst kv, normalise (snd kv))) (pairs_of v).
Proof. destruct v; reflexivity. Qed.

Lemma map_out_map {A B C} (f : B -> outcome C) (g : A -> B) l : map_out f (map g l) = map_out (fun x => f (g x)) l.
Proof. induction l as [|x l IH]; simpl; [reflexivity|]. destruct (f (g x)); auto. now rewrite IH. Qed.

Lemma map_out_ext {A B} (f g : A -> outcome B) l : (forall x, f x = g x) -> map_out f l = map_out g l.
Proof. intros H. induction l as [|x l IH]; simpl; [reflexivity|]. now rewrite H, IH. Qed.

Lemma scalar_norm s v : tc (TScalar s) (normalise v) = tc (TScalar s) v.
Proof. destruct v; try reflexivity; destruct s; reflexivity. Qed.

Lemma kind_norm_pane_gates v :
  pane_seq_gate_try (kind_of (normalise v)) = pane_seq_gate_try (kind_of v) /\
  pane_map_gate_try (kind_of (normalise v)) = pane_map_gate_try (kind_of v).
Proof. destruct v; simpl; split; reflexivity. Qed.

Lemma has_key_norm k kvs : has_key k (map (fun kv => (fst kv, normalise (snd kv))) kvs) = has_key k kvs.
Proof. unfold has_key. induction kvs as [|[a b] r IH]; simpl; [reflexivity|]. now rewrite IH. Qed.

Lemma lit_missing_norm {T} (fs : list (string * T)) kvs :
  lit_missing fs (map (fun kv => (fst kv, normalise (snd kv))) kvs) = lit_missing fs kvs.
Proof. unfold lit_missing. apply filter_ext. intros n. now rewrite has_key_norm. Qed.

Lemma with_key_ext {T C} k (g g' : T -> C) (fs : list (string * T)) :
  Forall (fun x => g (snd x) = g' (snd x)) fs -> with_key k g fs = with_key k g' fs.
Proof. induction 1 as [|[n t] r E _ IH]; simpl; [reflexivity|]. simpl in E. now rewrite E, IH. Qed.

Lemma with_field_ext {T C} k (g g' : fld -> T -> C) (fs : list (fld * T)) :
  Forall (fun x => g (fst x) (snd x) = g' (fst x) (snd x)) fs -> with_field k g fs = with_field k g' fs.
Proof. induction 1 as [|[f t] r E _ IH]; simpl; [reflexivity|]. simpl in E. now rewrite E, IH. Qed.

Lemma lit_scalar_norm v l : lit_scalar l -> lit_match (normalise v) l = lit_match v l /\ (lit_match v l = true -> normalise v = v).
Proof. destruct l; simpl; try tauto; intros _; destruct v; simpl; split; try reflexivity; try discriminate. Qed.

Lemma literal_norm vals v : Forall lit_scalar vals ->
  existsb (lit_match (normalise v)) vals = existsb (lit_match v) vals /\ (existsb (lit_match v) vals = true -> normalise v = v).
Proof.
  induction 1 as [|l r L _ [IH1 IH2]]; simpl; [split; [reflexivity|discriminate]|].
  destruct (lit_scalar_norm v l L) as [E1 E2]. rewrite E1, IH1. split; [reflexivity|].
  intros H. apply orb_prop in H. destruct H; auto.
Qed.

Lemma forall_mp {A} (P Q : A -> Prop) l : Forall (fun x => P x -> Q x) l -> Forall P l -> Forall Q l.
Proof. induction 1 as [|x l H _ IH]; intros F; inversion F; subst; constructor; auto. Qed.

Theorem norm_insensitive t : norm_ty t -> forall v, tc t (normalise v) = tc t v.
Proof.
  induction t as [| |s|c e IHe|es IHes|kt vt IHk IHv|fs IHfs|ms IHms|vals|n members|h fs IHfs|inner c IHi|tag lay vs IHvs] using ty_ind';
    intros N v; inversion N as [| |c' e' Ne|es' Nes|k' v' Nv|ms' Nms|t' c' Ni|fs' Nfs|h' fs' Nfs|vals' Nvals]; subst.
  - destruct v; reflexivity.
  - apply scalar_norm.
  - specialize (IHe Ne). simpl. destruct (kind_norm_gate v) as [-> _].
    rewrite items_norm, map_out_map. now rewrite (map_out_ext _ (tc e) _ IHe).
  - simpl. destruct (kind_norm_gate v) as [-> _]. rewrite items_norm, map_length.
    destruct (gate_sequence (kind_of v) && Nat.eqb (List.length (items_of v)) (List.length es)); [|reflexivity].
    assert (E : forall xs, zip_out tc es (map normalise xs) = zip_out tc es xs).
    { clear N. induction IHes as [|t es Ht _ IH]; intros xs; [destruct xs; reflexivity|].
      inversion Nes as [|? ? Nt Nr]; subst. destruct xs as [|x xs]; simpl; [reflexivity|]. rewrite (Ht Nt x), (IH Nr xs). reflexivity. }
    now rewrite E.
  - specialize (IHv Nv). simpl. destruct (kind_norm_gate v) as [_ ->]. rewrite pairs_norm, map_out_map. simpl.
    erewrite map_out_ext; [reflexivity|]. intros kv. simpl. now rewrite IHv.
  - (* struct literal types *)
    simpl. destruct (kind_norm_gate v) as [_ ->]. rewrite pairs_norm, lit_missing_norm.
    assert (E : forall kvs, lit_try_loop tc fs (map (fun kv => (fst kv, normalise (snd kv))) kvs) = lit_try_loop tc fs kvs).
    { induction kvs as [|[k x] r IH]; simpl; [reflexivity|].
      rewrite (with_key_ext k (fun t => tc t (normalise x)) (fun t => tc t x) fs).
      - now rewrite IH.
      - eapply Forall_impl; [|exact (forall_mp _ _ _ IHfs Nfs)]. intros [n t] Ht. simpl in *. now rewrite Ht. }
    now rewrite E.
  - simpl. assert (E : forall l, Forall (fun t => norm_ty t -> forall v, tc t (normalise v) = tc t v) l -> Forall norm_ty l ->
                       first_ok (fun m => tc m (normalise v)) l = first_ok (fun m => tc m v) l).
    { induction l as [|m l IH]; intros F1 F2; simpl; [reflexivity|]. inversion F1 as [|? ? Pm Pl]; subst. inversion F2 as [|? ? Nm Nl]; subst.
      rewrite (Pm Nm v), IH; auto. }
    now apply E.
  - (* literals *)
    simpl. destruct (literal_norm vals v Nvals) as [E1 E2]. rewrite E1.
    destruct (existsb (lit_match v) vals) eqn:E; [|reflexivity]. now rewrite (E2 eq_refl).
  - (* dataclasses *)
    assert (F : Forall (fun x : fld * ty => forall y, tc (snd x) (normalise y) = tc (snd x) y) fs).
    { exact (forall_mp _ _ _ IHfs Nfs). }
    simpl. destruct (kind_norm_pane_gates v) as [-> ->]. rewrite items_norm, pairs_norm, map_length.
    assert (ET : forall xs, tuple_try_loop tc fs (map normalise xs) = tuple_try_loop tc fs xs).
    { clear -F. induction F as [|[f t] l Ht _ IHl]; intros xs; [destruct xs; reflexivity|].
      destruct xs as [|x xs]; simpl; [reflexivity|]. simpl in Ht. rewrite Ht.
      destruct (f_init f).
      - now rewrite IHl.
      - exact (IHl (x :: xs)). }
    assert (ES : forall kvs vals, struct_try_loop tc fs (c_allow_extra h) (map (fun kv => (fst kv, normalise (snd kv))) kvs) vals
                                  = struct_try_loop tc fs (c_allow_extra h) kvs vals).
    { induction kvs as [|[k x] r IH]; intros vals; simpl; [reflexivity|].
      match goal with |- context [with_field k ?g fs] =>
        rewrite (with_field_ext k g (fun f t => if has_value (f_name f) vals then Reject
                   else match tc t x with Ok y => Ok (vals ++ [(f_name f, y)])%list | Reject => Reject | Escape e => Escape e end) fs) end.
      - destruct (with_field k _ fs) as [[vals'| |e]|]; try reflexivity; [apply IH|]. destruct (c_allow_extra h); [apply IH|reflexivity].
      - clear -F. induction F as [|[f t] l Ht _ IHl]; constructor; auto. simpl in *. now rewrite Ht. }
    now rewrite ET, ES.
  - specialize (IHi Ni). simpl. now rewrite IHi.
Qed.
