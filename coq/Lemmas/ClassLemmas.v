(* C14 / C15: dataclass construction and binding, from the conversion model. *)
From Coq Require Import ZArith List Bool String Lia.
Require Import Base.PyNum Base.Outcome Model.Values Model.Vocab Model.Types Model.Expected Model.Conv Model.Into.
Require Import Gen.GenScalars Gen.GenGates Gen.GenExcept Lemmas.AgreeLemmas Lemmas.AgreeThm.
Import ListNotations.
Open Scope string_scope.

(* ---------------------------------------------------------------- set-field record *)
Lemma construct_set_record h fs vals x :
  construct h fs vals = Some (ROk x) -> exists fields, x = VInst (c_name h) fields (map fst vals).
Proof.
  unfold construct. destruct (fill_defaults fs vals) as [fields|]; [|discriminate].
  destruct (run_hook (c_hook h) fields); intros H; inversion H. eexists; reflexivity.
Qed.

(* ---------------------------------------------------------------- defaults *)
Definition default_value (f : fld) : option pyval :=
  match f_default f with DValue d | DFactory d => Some d | DNone => None end.

(* the fields an instance holds after construction: those bound by the constructor and those kept out of it that have a default *)
Definition held (f : fld) : bool := f_init f || has_default f.

Lemma fill_defaults_spec fs vals fields :
  fill_defaults fs vals = Some fields ->
  Forall2 (fun f nv => fst nv = f_name f /\
                       snd nv = (if f_init f
                                 then match field_get (f_name f) vals with
                                      | Some x => x
                                      | None => match default_value f with Some d => d | None => VNone end
                                      end
                                 else match default_value f with Some d => d | None => VNone end) /\
                       (f_init f = true -> field_get (f_name f) vals = None -> default_value f <> None))
          (filter held fs) fields.
Proof.
  revert fields. induction fs as [|f r IH]; intros fields H; simpl in *.
  - inversion H. constructor.
  - destruct (fill_defaults r vals) as [rest|]; [|discriminate].
    unfold held at 1. unfold has_default, default_value in *. destruct (f_init f) eqn:Fi; simpl in *.
    + destruct (field_get (f_name f) vals) as [x|] eqn:G.
      * inversion H; subst. constructor; [|now apply IH]. simpl. rewrite Fi, G.
        split; [reflexivity|]. split; [reflexivity|]. intros _ HH. discriminate HH.
      * destruct (f_default f) eqn:D; try discriminate; inversion H; subst;
          (constructor; [|now apply IH]); simpl; rewrite Fi, G, D;
          (split; [reflexivity|]; split; [reflexivity|]; intros _ _; discriminate).
    + destruct (f_default f) eqn:D; inversion H; subst; try (now apply IH);
        (constructor; [|now apply IH]); simpl; rewrite Fi, D;
        (split; [reflexivity|]; split; [reflexivity|]; intros HH; discriminate HH).
Qed.

(* a required field that was not supplied makes construction impossible (never a silent hole) *)
Lemma fill_defaults_missing fs vals f :
  In f fs -> f_init f = true -> field_get (f_name f) vals = None -> f_default f = DNone ->
  fill_defaults fs vals = None.
Proof.
  induction fs as [|g r IH]; intros Hin Hi Hg Hd; [destruct Hin|]. simpl.
  destruct Hin as [->|Hin].
  - destruct (fill_defaults r vals); [|reflexivity]. now rewrite Hi, Hg, Hd.
  - now rewrite (IH Hin Hi Hg Hd).
Qed.

(* ---------------------------------------------------------------- the hook always runs *)
Lemma construct_runs_hook h fs vals fields :
  fill_defaults fs vals = Some fields ->
  construct h fs vals = Some (match run_hook (c_hook h) fields with
                              | ROk _ => ROk (VInst (c_name h) fields (map fst vals))
                              | RRaise e => RRaise e
                              end).
Proof. intros H. unfold construct. now rewrite H. Qed.

(* a failing hook is a failed conversion (ConvertError) on both data paths *)
Theorem hook_failure_rejects_struct h fs v vals fields e :
  pane_seq_gate_try (kind_of v) = false -> pane_map_gate_try (kind_of v) = true -> has_fmt FStruct h = true ->
  struct_try_loop tc fs (c_allow_extra h) (pairs_of v) [] = Ok vals ->
  fill_defaults (map fst fs) vals = Some fields -> run_hook (c_hook h) fields = RRaise e ->
  tc (TClass h fs) v = Reject.
Proof.
  destruct sites_total_holds as (_ & _ & _ & _ & _ & _ & _ & _ & S1 & _).
  intros G1 G2 F L D R. simpl. rewrite G1, G2, F, L.
  rewrite (construct_runs_hook h _ _ _ D), R. unfold guard. now rewrite (caught_all _ e S1).
Qed.

Theorem hook_failure_rejects_tuple h fs v vals fields e :
  pane_seq_gate_try (kind_of v) = true -> has_fmt FTuple h = true ->
  (let '(mn, mx) := pos_args (map fst fs) in (mn <=? List.length (items_of v))%nat && (List.length (items_of v) <=? mx)%nat = true) ->
  tuple_try_loop tc fs (items_of v) = Ok vals ->
  fill_defaults (map fst fs) vals = Some fields -> run_hook (c_hook h) fields = RRaise e ->
  tc (TClass h fs) v = Reject.
Proof.
  destruct sites_total_holds as (_ & _ & _ & _ & _ & _ & _ & _ & _ & _ & S1 & _).
  intros G1 F Hl L D R. simpl. rewrite G1, F. destruct (pos_args (map fst fs)) as [mn mx]. rewrite Hl, L.
  rewrite (construct_runs_hook h _ _ _ D), R. unfold guard. now rewrite (caught_all _ e S1).
Qed.

(* ---------------------------------------------------------------- C15: the binding decision table *)

(* a key is bound to a field exactly when it is the Python name or one of the input
   names of an init field; the last such field wins (dict assignment order in field_map) *)
Lemma find_field_accepts {T} k (fs : list (fld * T)) f t :
  find_field k fs = Some (f, t) -> field_accepts k f = true /\ In (f, t) fs.
Proof.
  induction fs as [|[g u] r IH]; simpl; [discriminate|].
  destruct (find_field k r) as [[f' t']|] eqn:E.
  - intros H; inversion H; subst. destruct (IH eq_refl). split; [assumption|now right].
  - destruct (field_accepts k g) eqn:A; [|discriminate]. intros H; inversion H; subst. split; [assumption|now left].
Qed.

Lemma find_field_none {T} k (fs : list (fld * T)) :
  find_field k fs = None <-> Forall (fun ft => field_accepts k (fst ft) = false) fs.
Proof.
  induction fs as [|[g u] r IH]; simpl; [split; [constructor|reflexivity]|].
  destruct (find_field k r) as [[f' t']|] eqn:E.
  - split; [discriminate|]. intros H. inversion H; subst. apply IH in H3. discriminate.
  - destruct (field_accepts k g) eqn:A.
    + split; [discriminate|]. intros H. inversion H; subst. simpl in *. congruence.
    + split; [intros _; constructor; [exact A|now apply IH]|reflexivity].
Qed.

(* unknown key: rejected, unless extras are allowed, in which case it is skipped *)
Lemma struct_loop_unknown_key fs ae k x r vals :
  find_field k fs = None ->
  struct_try_loop tc fs ae ((k, x) :: r) vals = if ae then struct_try_loop tc fs ae r vals else Reject.
Proof. intros H. simpl. now rewrite with_field_find, H. Qed.

(* a second key that names an already bound field: rejected *)
Lemma struct_loop_duplicate fs ae k x r vals f t :
  find_field k fs = Some (f, t) -> has_value (f_name f) vals = true ->
  struct_try_loop tc fs ae ((k, x) :: r) vals = Reject.
Proof. intros H D. simpl. now rewrite with_field_find, H, D. Qed.

(* a known key: the value is converted with that field's type and recorded under the Python name *)
Lemma struct_loop_known fs ae k x r vals f t y :
  find_field k fs = Some (f, t) -> has_value (f_name f) vals = false -> tc t x = Ok y ->
  struct_try_loop tc fs ae ((k, x) :: r) vals = struct_try_loop tc fs ae r (vals ++ [(f_name f, y)])%list.
Proof. intros H D C. simpl. now rewrite with_field_find, H, D, C. Qed.

(* a layout that is not enabled is rejected; text / numbers / None are never bound *)
Theorem disabled_layouts_rejected h fs v :
  (pane_seq_gate_try (kind_of v) = true -> has_fmt FTuple h = false -> tc (TClass h fs) v = Reject) /\
  (pane_seq_gate_try (kind_of v) = false -> pane_map_gate_try (kind_of v) = true -> has_fmt FStruct h = false ->
   tc (TClass h fs) v = Reject) /\
  (pane_seq_gate_try (kind_of v) = false -> pane_map_gate_try (kind_of v) = false -> tc (TClass h fs) v = Reject).
Proof.
  repeat split; simpl.
  - intros -> ->. reflexivity.
  - intros -> -> ->. reflexivity.
  - intros -> ->. reflexivity.
Qed.

(* positional binding: the length must lie between the required and the total positional count *)
Theorem sequence_length_out_of_range h fs v :
  pane_seq_gate_try (kind_of v) = true ->
  (let '(mn, mx) := pos_args (map fst fs) in
   (mn <=? List.length (items_of v))%nat && (List.length (items_of v) <=? mx)%nat = false) ->
  tc (TClass h fs) v = Reject.
Proof.
  intros G H. simpl. rewrite G. destruct (has_fmt FTuple h); [|reflexivity].
  destruct (pos_args (map fst fs)) as [mn mx]. now rewrite H.
Qed.

(* positional values bind to the init fields in order *)
Lemma tuple_loop_binds_in_order (fs : list (fld * ty)) xs vals :
  tuple_try_loop tc fs xs = Ok vals ->
  exists n, map fst vals = firstn n (map (fun ft => f_name (fst ft)) (filter (fun ft => f_init (fst ft)) fs)).
Proof.
  revert xs vals. induction fs as [|[f t] r IH]; intros xs vals H; simpl in *.
  - inversion H. exists 0%nat. reflexivity.
  - destruct xs as [|x xs]; [inversion H; exists 0%nat; reflexivity|].
    destruct (f_init f); simpl.
    + destruct (tc t x) as [y| |e]; try discriminate.
      destruct (tuple_try_loop tc r xs) as [rest| |e] eqn:E; try discriminate. inversion H; subst.
      destruct (IH _ _ E) as [n Hn]. exists (S n). simpl. now rewrite Hn.
    + apply (IH _ _ H).
Qed.

(* output: the configured layout, each field under its output name, excluded fields omitted *)
Lemma class_into_names (fs : list (fld * ty)) attrs out :
  class_into into_data fs attrs = Ok out ->
  map fst out = map (fun ft => f_out_name (fst ft)) (filter (fun ft => negb (f_exclude (fst ft))) fs).
Proof.
  revert out. induction fs as [|[f t] r IH]; intros out H; simpl in *.
  - now inversion H.
  - destruct (f_exclude f); simpl; [now apply IH|].
    destruct (field_get (f_name f) attrs) as [x|]; [|discriminate].
    destruct (into_data t x) as [d| |e]; try discriminate.
    destruct (class_into into_data r attrs) as [rest| |e] eqn:E; try discriminate. inversion H; subst. simpl. f_equal. now apply IH.
Qed.
