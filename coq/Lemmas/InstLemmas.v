(* C16: the instance machine -- frozen, copy, deepcopy, replace.  Invariant by induction over operations. *)
From Coq Require Import ZArith List Bool String Lia.
Require Import Base.Outcome Model.Values Model.Vocab Model.Types Model.Conv Model.Into Model.Instance Lemmas.RoundTrip.
Import ListNotations.

(* ------------------------------------------------------------------ small facts *)
Lemma smem_app n a b : smem n (a ++ b) = smem n a || smem n b.
Proof. unfold smem. apply existsb_app. Qed.

Lemma smem_sadd m n l : smem m (sadd n l) = smem m l || String.eqb m n.
Proof.
  unfold sadd. destruct (smem n l) eqn:E.
  - destruct (String.eqb_spec m n) as [->|]; [now rewrite E|now rewrite orb_false_r].
  - rewrite smem_app. unfold smem at 2. simpl. now rewrite orb_false_r.
Qed.

Lemma smem_In n l : smem n l = true <-> In n l.
Proof.
  unfold smem. rewrite existsb_exists. split.
  - intros (x & Hin & E). apply String.eqb_eq in E. now subst.
  - intros H. exists n. split; [assumption|apply String.eqb_refl].
Qed.

Lemma field_get_cons n k (x : pyval) r : field_get n ((k, x) :: r) = if String.eqb n k then Some x else field_get n r.
Proof. reflexivity. Qed.

Lemma field_get_not_in n (l : list (string * pyval)) : ~ In n (map fst l) -> field_get n l = None.
Proof.
  induction l as [|[k x] r IH]; intros H; [reflexivity|]. rewrite field_get_cons.
  destruct (String.eqb_spec n k) as [->|]; [exfalso; apply H; now left|]. apply IH. intros Hin. apply H. now right.
Qed.

Lemma field_get_in n (l : list (string * pyval)) : In n (map fst l) -> exists v, field_get n l = Some v.
Proof.
  induction l as [|[k x] r IH]; intros H; [destruct H|]. rewrite field_get_cons.
  destruct (String.eqb_spec n k) as [->|Hne]; [eauto|]. apply IH. destruct H as [H|H]; [simpl in H; congruence|assumption].
Qed.

Lemma set_val_fst n v l : map fst (set_val n v l) = map fst l.
Proof. induction l as [|[k x] r IH]; [reflexivity|]. simpl. destruct (String.eqb n k); simpl; [reflexivity|now rewrite IH]. Qed.

Lemma field_get_set_val m n v l :
  field_get m (set_val n v l) = if String.eqb m n then (match field_get n l with Some _ => Some v | None => None end) else field_get m l.
Proof.
  induction l as [|[k x] r IH].
  - cbn [set_val]. unfold field_get. simpl. now destruct (String.eqb m n).
  - cbn [set_val]. destruct (String.eqb_spec n k) as [->|Hnk].
    + rewrite !field_get_cons, String.eqb_refl. destruct (String.eqb_spec m k) as [->|]; reflexivity.
    + rewrite !field_get_cons. destruct (String.eqb_spec m k) as [->|Hmk].
      * destruct (String.eqb_spec k n) as [->|]; [congruence|].
        destruct (String.eqb_spec n k); [congruence|reflexivity].
      * rewrite IH. destruct (String.eqb_spec m n) as [->|]; [|reflexivity].
        destruct (String.eqb_spec n k); [congruence|reflexivity].
Qed.

(* two value lists over the same duplicate-free names are equal when they agree name by name *)
Lemma vals_ext (a b : list (string * pyval)) :
  map fst a = map fst b -> NoDup (map fst a) -> (forall n, In n (map fst a) -> field_get n a = field_get n b) -> a = b.
Proof.
  revert b. induction a as [|[k x] r IH]; intros [|[k' y] r'] Hs Hn He; try discriminate; [reflexivity|].
  simpl in Hs. inversion Hs; subst k'. inversion Hn as [|? ? Hk Hr]; subst.
  assert (x = y). { specialize (He k (or_introl eq_refl)). rewrite !field_get_cons, String.eqb_refl in He. congruence. }
  subst y. f_equal. apply IH; [assumption|assumption|].
  intros n Hin. specialize (He n (or_intror Hin)). rewrite !field_get_cons in He. revert He.
  destruct (String.eqb_spec n k) as [E|E]; [subst n; contradiction|auto].
Qed.

Lemma map_out_forall2_ok {A B} (f : A -> outcome B) l ys :
  Forall2 (fun a y => f a = Ok y) l ys -> map_out f l = Ok ys.
Proof. induction 1 as [|a y l ys E _ IH]; simpl; [reflexivity|now rewrite E, IH]. Qed.

Lemma find_fld_in n fs f : find_fld n fs = Some f -> In f fs /\ if_name f = n.
Proof.
  unfold find_fld. intros H. apply find_some in H as [Hin E]. apply String.eqb_eq in E. now split.
Qed.

Lemma find_fld_nodup fs f : NoDup (map if_name fs) -> In f fs -> find_fld (if_name f) fs = Some f.
Proof.
  unfold find_fld. induction fs as [|g r IH]; intros Hn Hin; [destruct Hin|]. simpl. inversion Hn as [|? ? Hg Hr]; subst.
  destruct Hin as [->|Hin]; [now rewrite String.eqb_refl|].
  destruct (String.eqb_spec (if_name f) (if_name g)) as [E|]; [|now apply IH].
  exfalso. apply Hg. rewrite <- E. now apply in_map.
Qed.

Lemma find_fld_none n fs : find_fld n fs = None -> ~ In n (map if_name fs).
Proof.
  unfold find_fld. intros H Hin. apply in_map_iff in Hin as (f & <- & Hf).
  apply (find_none _ _ H) in Hf. now rewrite String.eqb_refl in Hf.
Qed.

(* ------------------------------------------------------------------ classes and the invariant *)
Definition names (c : icls) : list string := map if_name (ic_fields c).

Definition wf_cls (c : icls) : Prop :=
  NoDup (names c) /\ forall f, In f (ic_fields c) -> if_init f = false -> if_default f <> None.

(* conversion by a field's type is idempotent: what C06 proves on the round-trip fragment *)
Definition idem_cls (c : icls) : Prop :=
  forall f v x, In f (ic_fields c) -> conv_arg (if_ty f) v = Ok x -> conv_arg (if_ty f) x = Ok x.

Lemma rt_ty_idem t v x : rt_ty t -> conv_arg t v = Ok x -> conv_arg t x = Ok x.
Proof.
  unfold conv_arg. intros R H. destruct (into_auto v) as [d| |e]; try discriminate.
  destruct (fixed_point_core t d x R H) as (d' & -> & E). exact E.
Qed.

Lemma rt_fields_idem c : Forall (fun f => rt_ty (if_ty f)) (ic_fields c) -> idem_cls c.
Proof. intros F f v x Hin. rewrite Forall_forall in F. apply rt_ty_idem. now apply F. Qed.

Record Inv (c : icls) (s : istate) : Prop := mkInv {
  inv_shape : map fst (st_vals s) = names c;
  inv_set : forall f, In f (ic_fields c) -> if_init f = true -> smem (if_name f) (st_set s) = true ->
            exists v, field_get (if_name f) (st_vals s) = Some v /\ conv_arg (if_ty f) v = Ok v;
  inv_unset : forall f, In f (ic_fields c) -> smem (if_name f) (st_set s) = false ->
              exists d, if_default f = Some d /\ field_get (if_name f) (st_vals s) = Some d;
  inv_names : forall n, smem n (st_set s) = true -> In n (names c) }.

Definition same_record (a b : istate) : Prop := forall n, smem n (st_set a) = smem n (st_set b).

(* ------------------------------------------------------------------ frozen, delete, copy *)
Theorem frozen_rejects_assignment c s n v : ic_frozen c = true -> step c s (OpAssign n v) = (s, OutFrozen).
Proof. intros F. simpl. now rewrite F. Qed.

Theorem delete_rejected c s n : step c s (OpDelete n) = (s, OutAttrError).
Proof. reflexivity. Qed.

Theorem copies_are_the_same c s : step c s OpCopy = (s, OutInst s) /\ step c s OpDeepCopy = (s, OutInst s).
Proof. split; reflexivity. Qed.

(* ------------------------------------------------------------------ the constructor *)
Lemma construct_kw_spec c kw s :
  construct_kw c kw = OutInst s <->
  bind_ok (ic_fields c) kw = true /\ Forall2 (fun f kv => field_value kw f = Ok kv) (ic_fields c) (st_vals s) /\
  st_set s = supplied (ic_fields c) kw.
Proof.
  unfold construct_kw. destruct (bind_ok (ic_fields c) kw); simpl.
  - destruct (map_out (field_value kw) (ic_fields c)) as [vals| |e] eqn:M.
    + split.
      * intros H. inversion H; subst; simpl. repeat split. now apply map_out_ok_forall2.
      * intros (_ & F & S). apply map_out_forall2_ok in F. rewrite M in F. inversion F; subst. destruct s; simpl in *. now subst.
    + split; [discriminate|]. intros (_ & F & _). apply map_out_forall2_ok in F. rewrite M in F. discriminate.
    + split; [discriminate|]. intros (_ & F & _). apply map_out_forall2_ok in F. rewrite M in F. discriminate.
  - split; [discriminate|]. intros (H & _). discriminate.
Qed.

Lemma field_value_name kw f kv : field_value kw f = Ok kv -> fst kv = if_name f.
Proof.
  unfold field_value. destruct (if_init f).
  - destruct (field_get (if_name f) kw).
    + destruct (conv_arg (if_ty f) p); try discriminate. intros H; now inversion H.
    + destruct (if_default f); try discriminate. intros H; now inversion H.
  - destruct (if_default f); try discriminate. intros H; now inversion H.
Qed.

Lemma forall2_names kw fs vals : Forall2 (fun f kv => field_value kw f = Ok kv) fs vals -> map fst vals = map if_name fs.
Proof. induction 1 as [|f kv fs vals E _ IH]; simpl; [reflexivity|]. now rewrite IH, (field_value_name _ _ _ E). Qed.

(* name-by-name reading of a constructed value list *)
Lemma forall2_get kw fs vals f :
  Forall2 (fun f kv => field_value kw f = Ok kv) fs vals -> NoDup (map if_name fs) -> In f fs ->
  exists x, field_value kw f = Ok (if_name f, x) /\ field_get (if_name f) vals = Some x.
Proof.
  induction 1 as [|g kv fs vals E F IH]; intros Hn Hin; [destruct Hin|].
  inversion Hn as [|? ? Hg Hr]; subst. destruct kv as [k x]. pose proof (field_value_name _ _ _ E) as K. simpl in K. subst k.
  destruct Hin as [->|Hin].
  - exists x. split; [assumption|]. now rewrite field_get_cons, String.eqb_refl.
  - destruct (IH Hr Hin) as (y & Ey & Gy). exists y. split; [assumption|]. rewrite field_get_cons.
    destruct (String.eqb_spec (if_name f) (if_name g)) as [Eq|]; [|assumption].
    exfalso. apply Hg. rewrite <- Eq. now apply in_map.
Qed.

Lemma smem_supplied fs kw f :
  NoDup (map if_name fs) -> In f fs -> smem (if_name f) (supplied fs kw) = if_init f && has_value (if_name f) kw.
Proof.
  intros Hn Hin. unfold supplied. destruct (if_init f && has_value (if_name f) kw) eqn:E.
  - apply smem_In. apply in_map. apply filter_In. now split.
  - destruct (smem (if_name f) (map if_name (filter (fun f0 => if_init f0 && has_value (if_name f0) kw) fs))) eqn:S; [|reflexivity].
    apply smem_In in S. apply in_map_iff in S as (g & Eg & Hg). apply filter_In in Hg as [Hg Pg].
    assert (g = f).
    { pose proof (find_fld_nodup fs g Hn Hg) as A. pose proof (find_fld_nodup fs f Hn Hin) as B. rewrite Eg in A. congruence. }
    subst g. congruence.
Qed.

Lemma supplied_names fs kw n : smem n (supplied fs kw) = true -> In n (map if_name fs).
Proof.
  intros H. apply smem_In in H. unfold supplied in H. apply in_map_iff in H as (g & <- & Hg).
  apply filter_In in Hg as [Hg _]. now apply in_map.
Qed.

(* a freshly constructed instance satisfies the invariant *)
Theorem constructed_inv c kw s : wf_cls c -> idem_cls c -> construct_kw c kw = OutInst s -> Inv c s.
Proof.
  intros [Hn Hd] Hi H. apply construct_kw_spec in H as (B & F & S).
  constructor.
  - now apply forall2_names in F.
  - intros f Hin I Sm. destruct (forall2_get _ _ _ f F Hn Hin) as (x & E & G). exists x. split; [assumption|].
    rewrite S, (smem_supplied _ _ f Hn Hin), I in Sm. simpl in Sm. unfold has_value in Sm.
    unfold field_value in E. rewrite I in E. destruct (field_get (if_name f) kw) as [v|]; [|discriminate].
    destruct (conv_arg (if_ty f) v) as [y| |e] eqn:C; try discriminate. inversion E; subst y. eapply Hi; eauto.
  - intros f Hin Sm. destruct (forall2_get _ _ _ f F Hn Hin) as (x & E & G).
    rewrite S, (smem_supplied _ _ f Hn Hin) in Sm. unfold field_value in E. unfold has_value in Sm.
    destruct (if_init f) eqn:I; simpl in Sm.
    + destruct (field_get (if_name f) kw); [discriminate|]. destruct (if_default f) as [d|]; [|discriminate].
      inversion E; subst. eauto.
    + destruct (if_default f) as [d|]; [|discriminate]. inversion E; subst. eauto.
  - intros n Sm. rewrite S in Sm. now apply supplied_names in Sm.
Qed.

(* ------------------------------------------------------------------ replace *)
Lemma field_get_app n (a b : list (string * pyval)) :
  field_get n (a ++ b) = match field_get n a with Some v => Some v | None => field_get n b end.
Proof.
  induction a as [|[k x] r IH]; [reflexivity|]. rewrite <- app_comm_cons, !field_get_cons.
  destruct (String.eqb n k); [reflexivity|assumption].
Qed.

Definition kw_of_set (s : istate) (f : ifld) : list (string * pyval) :=
  if if_init f && smem (if_name f) (st_set s)
  then match field_get (if_name f) (st_vals s) with Some v => [(if_name f, v)] | None => [] end
  else [].

Lemma kw_of_set_keys s fs n : In n (map fst (flat_map (kw_of_set s) fs)) -> In n (map if_name fs).
Proof.
  induction fs as [|g r IH]; simpl; [auto|]. rewrite map_app, in_app_iff. intros [H|H]; [|right; auto].
  left. unfold kw_of_set in H. destruct (if_init g && smem (if_name g) (st_set s)); [|destruct H].
  destruct (field_get (if_name g) (st_vals s)); [|destruct H]. destruct H as [H|[]]. now simpl in H.
Qed.

Lemma kw_of_set_get s fs f :
  NoDup (map if_name fs) -> In f fs ->
  field_get (if_name f) (flat_map (kw_of_set s) fs) =
  if if_init f && smem (if_name f) (st_set s) then field_get (if_name f) (st_vals s) else None.
Proof.
  induction fs as [|g r IH]; intros Hn Hin; [destruct Hin|]. inversion Hn as [|? ? Hg Hr]; subst.
  simpl. rewrite field_get_app. destruct Hin as [->|Hin].
  - unfold kw_of_set at 1. destruct (if_init f && smem (if_name f) (st_set s)).
    + destruct (field_get (if_name f) (st_vals s)) as [v|] eqn:G.
      * now rewrite field_get_cons, String.eqb_refl.
      * simpl. apply field_get_not_in. intros H. apply kw_of_set_keys in H. contradiction.
    + simpl. apply field_get_not_in. intros H. apply kw_of_set_keys in H. contradiction.
  - assert (if_name f <> if_name g) as Ne. { intros E. apply Hg. rewrite <- E. now apply in_map. }
    assert (field_get (if_name f) (kw_of_set s g) = None) as ->.
    { unfold kw_of_set. destruct (if_init g && smem (if_name g) (st_set s)); [|reflexivity].
      destruct (field_get (if_name g) (st_vals s)); [|reflexivity]. rewrite field_get_cons.
      destruct (String.eqb_spec (if_name f) (if_name g)); [contradiction|reflexivity]. }
    now apply IH.
Qed.

Lemma replace_kwargs_eq c s ch : replace_kwargs c s ch = (ch ++ flat_map (kw_of_set s) (ic_fields c))%list.
Proof. reflexivity. Qed.

Lemma replace_kwargs_get c s ch f :
  NoDup (names c) -> In f (ic_fields c) ->
  field_get (if_name f) (replace_kwargs c s ch) =
  match field_get (if_name f) ch with
  | Some v => Some v
  | None => if if_init f && smem (if_name f) (st_set s) then field_get (if_name f) (st_vals s) else None
  end.
Proof. intros Hn Hin. rewrite replace_kwargs_eq, field_get_app. now rewrite kw_of_set_get. Qed.

(* the keys of `changes` name constructor arguments *)
Definition changes_ok (c : icls) (ch : list (string * pyval)) : bool :=
  forallb (fun kv => match find_fld (fst kv) (ic_fields c) with Some f => if_init f | None => false end) ch.

Lemma changes_ok_get c ch f v :
  NoDup (names c) -> changes_ok c ch = true -> In f (ic_fields c) -> field_get (if_name f) ch = Some v -> if_init f = true.
Proof.
  intros Hn Hc Hin G. unfold changes_ok in Hc. rewrite forallb_forall in Hc.
  assert (exists kv, In kv ch /\ fst kv = if_name f) as (kv & Hkv & E).
  { clear Hc. induction ch as [|[k x] r IH]; [discriminate|]. rewrite field_get_cons in G.
    destruct (String.eqb (if_name f) k) eqn:Q.
    - apply String.eqb_eq in Q. exists (k, x). split; [now left|simpl; congruence].
    - destruct (IH G) as (kv & H1 & H2). exists kv. split; [now right|assumption]. }
  specialize (Hc kv Hkv). rewrite E, (find_fld_nodup _ f Hn Hin) in Hc. exact Hc.
Qed.

Lemma changes_ok_key c ch n : changes_ok c ch = true -> has_value n ch = true -> In n (names c).
Proof.
  unfold changes_ok, has_value. rewrite forallb_forall. intros Hc H.
  induction ch as [|[k x] r IH]; [discriminate|]. rewrite field_get_cons in H.
  destruct (String.eqb n k) eqn:Q.
  - apply String.eqb_eq in Q. subst k. specialize (Hc (n, x) (or_introl eq_refl)). simpl in Hc. destruct (find_fld n (ic_fields c)) as [f|] eqn:F; [|discriminate].
    apply find_fld_in in F as [Hin <-]. unfold names. now apply in_map.
  - apply IH; [|assumption]. intros kv Hkv. apply Hc. now right.
Qed.

Lemma bind_ok_replace c s ch :
  wf_cls c -> Inv c s -> changes_ok c ch = true -> bind_ok (ic_fields c) (replace_kwargs c s ch) = true.
Proof.
  intros [Hn Hd] I Hc. unfold bind_ok. apply andb_true_intro. split.
  - rewrite replace_kwargs_eq, forallb_app. apply andb_true_intro. split; [exact Hc|].
    apply forallb_forall. intros kv Hkv. apply in_flat_map in Hkv as (f & Hin & Hkv). unfold kw_of_set in Hkv.
    destruct (if_init f) eqn:If; simpl in Hkv; [|destruct Hkv].
    destruct (smem (if_name f) (st_set s)); [|destruct Hkv].
    destruct (field_get (if_name f) (st_vals s)); [|destruct Hkv]. destruct Hkv as [<-|[]]. simpl.
    now rewrite (find_fld_nodup _ f Hn Hin).
  - apply forallb_forall. intros f Hin. destruct (if_init f) eqn:If; [|reflexivity]. simpl.
    unfold has_value. rewrite (replace_kwargs_get c s ch f Hn Hin), If. simpl.
    destruct (field_get (if_name f) ch); [reflexivity|].
    destruct (smem (if_name f) (st_set s)) eqn:Sm.
    + destruct (inv_set c s I f Hin If Sm) as (v & -> & _). reflexivity.
    + destruct (inv_unset c s I f Hin Sm) as (d & -> & _). reflexivity.
Qed.

Lemma map_out_all_ok {A B} (f : A -> outcome B) l : (forall a, In a l -> exists y, f a = Ok y) -> exists ys, map_out f l = Ok ys.
Proof.
  induction l as [|a l IH]; intros H; [exists []; reflexivity|]. destruct (H a (or_introl eq_refl)) as (y & E).
  destruct IH as (ys & M); [intros b Hb; apply H; now right|]. exists (y :: ys). simpl. now rewrite E, M.
Qed.

(* the loop that carries assigned init=False fields over *)
Definition carry_step (s : istate) (acc : istate) (f : ifld) : istate :=
  if smem (if_name f) (st_set acc) then acc
  else match field_get (if_name f) (st_vals s) with
       | Some v => mkIState (set_val (if_name f) v (st_vals acc)) (sadd (if_name f) (st_set acc))
       | None => acc
       end.

Definition among (m : string) (L : list ifld) : bool := existsb (fun f => String.eqb m (if_name f)) L.

Lemma carry_fold L s : forall acc,
  NoDup (map if_name L) ->
  (forall f, In f L -> smem (if_name f) (st_set acc) = false) ->
  (forall f, In f L -> exists v, field_get (if_name f) (st_vals s) = Some v) ->
  (forall f, In f L -> In (if_name f) (map fst (st_vals acc))) ->
  let r := fold_left (carry_step s) L acc in
  map fst (st_vals r) = map fst (st_vals acc) /\
  (forall m, field_get m (st_vals r) = if among m L then field_get m (st_vals s) else field_get m (st_vals acc)) /\
  (forall m, smem m (st_set r) = smem m (st_set acc) || among m L).
Proof.
  induction L as [|f L IH]; intros acc Hn Hs Hv Hk; simpl.
  - repeat split; intros; now rewrite ?orb_false_r.
  - inversion Hn as [|? ? Hf Hr]; subst.
    destruct (Hv f (or_introl eq_refl)) as (v & Gv).
    assert (carry_step s acc f = mkIState (set_val (if_name f) v (st_vals acc)) (sadd (if_name f) (st_set acc))) as ->.
    { unfold carry_step. now rewrite (Hs f (or_introl eq_refl)), Gv. }
    specialize (IH (mkIState (set_val (if_name f) v (st_vals acc)) (sadd (if_name f) (st_set acc))) Hr).
    destruct IH as (I1 & I2 & I3); simpl.
    + intros g Hg. rewrite smem_sadd, (Hs g (or_intror Hg)). simpl.
      destruct (String.eqb_spec (if_name g) (if_name f)) as [E|]; [|reflexivity]. exfalso. apply Hf. rewrite <- E. now apply in_map.
    + intros g Hg. apply Hv. now right.
    + intros g Hg. rewrite set_val_fst. apply Hk. now right.
    + simpl in *. repeat split.
      * now rewrite I1, set_val_fst.
      * intros m. rewrite I2, field_get_set_val. unfold among. simpl.
        destruct (String.eqb_spec m (if_name f)) as [->|Hne]; simpl.
        -- destruct (existsb (fun f0 => String.eqb (if_name f) (if_name f0)) L); [reflexivity|].
           destruct (field_get_in _ _ (Hk f (or_introl eq_refl))) as (w & ->). now rewrite Gv.
        -- reflexivity.
      * intros m. rewrite I3, smem_sadd. unfold among. simpl. now rewrite orb_assoc.
Qed.

Lemma carry_over_eq c s new : carry_over c s new = fold_left (carry_step s) (carried c s) new.
Proof. reflexivity. Qed.

Lemma carried_in c s f : In f (carried c s) <-> In f (ic_fields c) /\ if_init f = false /\ smem (if_name f) (st_set s) = true.
Proof.
  unfold carried. rewrite filter_In. split.
  - intros [H1 H2]. apply andb_prop in H2 as [H2 H3]. apply negb_true_iff in H2. auto.
  - intros (H1 & H2 & H3). split; [assumption|]. now rewrite H2, H3.
Qed.

Lemma nodup_filter_names (p : ifld -> bool) fs : NoDup (map if_name fs) -> NoDup (map if_name (filter p fs)).
Proof.
  induction fs as [|g r IH]; simpl; intros Hn; [constructor|]. inversion Hn as [|? ? Hg Hr]; subst.
  destruct (p g); simpl; [|auto]. constructor; [|auto]. intros H. apply Hg.
  apply in_map_iff in H as (x & E & Hx). apply filter_In in Hx as [Hx _]. rewrite <- E. now apply in_map.
Qed.

Lemma among_carried c s f :
  NoDup (names c) -> In f (ic_fields c) -> among (if_name f) (carried c s) = negb (if_init f) && smem (if_name f) (st_set s).
Proof.
  intros Hn Hin. unfold among. destruct (negb (if_init f) && smem (if_name f) (st_set s)) eqn:E.
  - apply existsb_exists. exists f. split; [|apply String.eqb_refl]. apply carried_in. apply andb_prop in E as [E1 E2].
    apply negb_true_iff in E1. auto.
  - destruct (existsb (fun f0 => String.eqb (if_name f) (if_name f0)) (carried c s)) eqn:X; [|reflexivity].
    apply existsb_exists in X as (g & Hg & Eg). apply String.eqb_eq in Eg. apply carried_in in Hg as (Hg & Ig & Sg).
    assert (g = f).
    { pose proof (find_fld_nodup _ g Hn Hg) as A. pose proof (find_fld_nodup _ f Hn Hin) as B. rewrite <- Eg in A. congruence. }
    subst g. rewrite Ig, Sg in E. discriminate.
Qed.

Lemma among_not_field c s m : ~ In m (names c) -> among m (carried c s) = false.
Proof.
  intros H. unfold among. destruct (existsb (fun f => String.eqb m (if_name f)) (carried c s)) eqn:X; [|reflexivity].
  apply existsb_exists in X as (g & Hg & Eg). apply String.eqb_eq in Eg. apply carried_in in Hg as (Hg & _).
  exfalso. apply H. subst m. unfold names. now apply in_map.
Qed.

(* the whole of __replace__, field by field *)
Theorem replace_spec c s ch :
  wf_cls c -> Inv c s -> changes_ok c ch = true ->
  (forall f v, In f (ic_fields c) -> field_get (if_name f) ch = Some v -> exists x, conv_arg (if_ty f) v = Ok x) ->
  exists s', replace c s ch = OutInst s' /\
    map fst (st_vals s') = names c /\
    (forall f, In f (ic_fields c) -> exists x, field_get (if_name f) (st_vals s') = Some x /\
        match field_get (if_name f) ch with
        | Some v => conv_arg (if_ty f) v = Ok x              (* what was changed holds the re-validated value *)
        | None => field_get (if_name f) (st_vals s) = Some x  (* every other field keeps its value *)
        end) /\
    (forall n, smem n (st_set s') = smem n (st_set s) || has_value n ch).
Proof.
  intros W I Hc Hconv. pose proof W as [Hn Hd].
  pose proof (bind_ok_replace c s ch W I Hc) as B.
  (* every field gets a value *)
  assert (forall f, In f (ic_fields c) -> exists kv, field_value (replace_kwargs c s ch) f = Ok kv) as Hall.
  { intros f Hin. unfold field_value. rewrite (replace_kwargs_get c s ch f Hn Hin).
    destruct (if_init f) eqn:If; simpl.
    - destruct (field_get (if_name f) ch) as [v|] eqn:G.
      + destruct (Hconv f v Hin G) as (x & ->). eauto.
      + destruct (smem (if_name f) (st_set s)) eqn:Sm.
        * destruct (inv_set c s I f Hin If Sm) as (v & -> & ->). eauto.
        * destruct (inv_unset c s I f Hin Sm) as (d & -> & _). eauto.
    - destruct (if_default f) as [d|] eqn:D; [eauto|]. exfalso. now apply (Hd f Hin If). }
  destruct (map_out_all_ok _ _ Hall) as (vals & M).
  pose proof (map_out_ok_forall2 _ _ _ M) as F.
  set (new := mkIState vals (supplied (ic_fields c) (replace_kwargs c s ch))).
  assert (construct_kw c (replace_kwargs c s ch) = OutInst new) as Cn.
  { apply construct_kw_spec. repeat split; assumption. }
  pose proof (forall2_names _ _ _ F) as Shape.
  assert (forall f, In f (ic_fields c) -> smem (if_name f) (st_set new) = if_init f && has_value (if_name f) (replace_kwargs c s ch)) as Snew.
  { intros f Hin. simpl. now apply smem_supplied. }
  (* the carry-over loop *)
  destruct (carry_fold (carried c s) s new) as (C1 & C2 & C3).
  { apply nodup_filter_names. exact Hn. }
  { intros f Hf. apply carried_in in Hf as (Hin & If & _). rewrite (Snew f Hin), If. reflexivity. }
  { intros f Hf. apply carried_in in Hf as (Hin & _). apply field_get_in. rewrite (inv_shape c s I). unfold names. now apply in_map. }
  { intros f Hf. apply carried_in in Hf as (Hin & _). simpl. rewrite Shape. now apply in_map. }
  exists (carry_over c s new). unfold replace. rewrite Cn, carry_over_eq. repeat split.
  - rewrite C1. exact Shape.
  - intros f Hin. rewrite C2, (among_carried c s f Hn Hin).
    destruct (forall2_get _ _ _ f F Hn Hin) as (x & Ex & Gx). simpl.
    unfold field_value in Ex. rewrite (replace_kwargs_get c s ch f Hn Hin) in Ex.
    destruct (if_init f) eqn:If; simpl in *.
    + exists x. split; [assumption|]. destruct (field_get (if_name f) ch) as [v|] eqn:G.
      * destruct (conv_arg (if_ty f) v) as [y| |e]; try discriminate. now inversion Ex.
      * destruct (smem (if_name f) (st_set s)) eqn:Sm.
        -- destruct (inv_set c s I f Hin If Sm) as (v & Gv & Cv). rewrite Gv in *. rewrite Cv in Ex. now inversion Ex.
        -- destruct (inv_unset c s I f Hin Sm) as (d & Dd & Gd). rewrite Dd in Ex. inversion Ex; subst. assumption.
    + assert (field_get (if_name f) ch = None) as Gc.
      { destruct (field_get (if_name f) ch) as [v|] eqn:G; [|reflexivity].
        pose proof (changes_ok_get c ch f v Hn Hc Hin G). congruence. }
      rewrite Gc. destruct (smem (if_name f) (st_set s)) eqn:Sm.
      * destruct (field_get_in (if_name f) (st_vals s)) as (w & Gw); [rewrite (inv_shape c s I); unfold names; now apply in_map|].
        exists w. split; assumption.
      * exists x. split; [assumption|]. destruct (inv_unset c s I f Hin Sm) as (d & Dd & Gd). rewrite Dd in Ex. inversion Ex; subst. assumption.
  - intros n. rewrite C3. destruct (in_dec string_dec n (names c)) as [Hin|Hout].
    + unfold names in Hin. apply in_map_iff in Hin as (f & <- & Hin).
      rewrite (Snew f Hin), (among_carried c s f Hn Hin). unfold has_value at 1. rewrite (replace_kwargs_get c s ch f Hn Hin).
      unfold has_value. destruct (field_get (if_name f) ch) as [v|] eqn:G.
      * rewrite (changes_ok_get c ch f v Hn Hc Hin G). simpl. now rewrite orb_true_r.
      * rewrite orb_false_r. destruct (if_init f) eqn:If; simpl.
        -- destruct (smem (if_name f) (st_set s)) eqn:Sm; [|reflexivity].
           destruct (inv_set c s I f Hin If Sm) as (v & -> & _). reflexivity.
        -- reflexivity.
    + rewrite (among_not_field c s n Hout), orb_false_r.
      assert (smem n (st_set s) = false) as ->. { destruct (smem n (st_set s)) eqn:Sm; [|reflexivity]. exfalso. apply Hout. now apply (inv_names c s I). }
      assert (has_value n ch = false) as ->. { destruct (has_value n ch) eqn:Hv; [|reflexivity]. exfalso. apply Hout. now apply (changes_ok_key c ch n Hc). }
      simpl. destruct (smem n (supplied (ic_fields c) (replace_kwargs c s ch))) eqn:X; [|reflexivity].
      exfalso. apply Hout. now apply supplied_names in X.
Qed.

(* replace() without changes: the same values, the same record *)
Theorem replace_nothing c s :
  wf_cls c -> Inv c s -> exists s', replace c s [] = OutInst s' /\ st_vals s' = st_vals s /\ same_record s' s.
Proof.
  intros W I. destruct (replace_spec c s [] W I eq_refl) as (s' & R & Sh & V & St); [intros f v _ H; discriminate|].
  exists s'. split; [assumption|]. split.
  - apply vals_ext.
    + now rewrite Sh, (inv_shape c s I).
    + rewrite Sh. apply W.
    + intros n Hn. rewrite Sh in Hn. unfold names in Hn. apply in_map_iff in Hn as (f & <- & Hin).
      destruct (V f Hin) as (x & -> & E). simpl in E. now rewrite E.
  - intros n. rewrite St. unfold has_value. simpl. now rewrite orb_false_r.
Qed.

(* the result of a replacement satisfies the invariant again *)
Theorem replace_inv c s ch s' :
  wf_cls c -> idem_cls c -> Inv c s -> changes_ok c ch = true -> replace c s ch = OutInst s' -> Inv c s'.
Proof.
  intros W Hi I Hc R. pose proof W as [Hn Hd].
  (* every change converted, or the constructor would not have returned an instance *)
  assert (forall f v, In f (ic_fields c) -> field_get (if_name f) ch = Some v -> exists x, conv_arg (if_ty f) v = Ok x) as Hconv.
  { intros f v Hin G. unfold replace in R.
    destruct (construct_kw c (replace_kwargs c s ch)) as [|new| | | | | |] eqn:Cn; try discriminate.
    apply construct_kw_spec in Cn as (_ & F & _). destruct (forall2_get _ _ _ f F Hn Hin) as (x & Ex & _).
    unfold field_value in Ex. rewrite (replace_kwargs_get c s ch f Hn Hin), G, (changes_ok_get c ch f v Hn Hc Hin G) in Ex.
    destruct (conv_arg (if_ty f) v) as [y| |e]; try discriminate. eauto. }
  destruct (replace_spec c s ch W I Hc Hconv) as (s2 & R2 & Sh & V & St). rewrite R in R2. inversion R2; subst s2.
  constructor.
  - exact Sh.
  - intros f Hin If Sm. destruct (V f Hin) as (x & Gx & E). exists x. split; [assumption|].
    destruct (field_get (if_name f) ch) as [v|] eqn:G.
    + eapply Hi; eauto.
    + rewrite St in Sm. unfold has_value in Sm. rewrite G, orb_false_r in Sm.
      destruct (inv_set c s I f Hin If Sm) as (w & Gw & Cw). congruence.
  - intros f Hin Sm. rewrite St in Sm. apply orb_false_iff in Sm as [Sm Hv]. unfold has_value in Hv.
    destruct (V f Hin) as (x & Gx & E). destruct (field_get (if_name f) ch); [discriminate|].
    destruct (inv_unset c s I f Hin Sm) as (d & Dd & Gd). exists d. split; [assumption|]. congruence.
  - intros n Sm. rewrite St in Sm. apply orb_true_iff in Sm as [Sm|Hv]; [now apply (inv_names c s I)|now apply (changes_ok_key c ch n Hc)].
Qed.

(* a name that is no constructor argument is refused before anything is converted *)
Theorem replace_unknown_name c s ch : changes_ok c ch = false -> replace c s ch = OutTypeError.
Proof.
  intros H. unfold replace, construct_kw, bind_ok. rewrite replace_kwargs_eq, forallb_app.
  unfold changes_ok in H. rewrite H. reflexivity.
Qed.

Lemma map_out_reject {A B} (f : A -> outcome B) l a :
  In a l -> f a = Reject -> (forall b, In b l -> forall e, f b <> Escape e) -> map_out f l = Reject.
Proof.
  induction l as [|b l IH]; intros Hin Ha Hne; [destruct Hin|]. simpl.
  destruct (f b) as [y| |e] eqn:E; [|reflexivity|exfalso; now apply (Hne b (or_introl eq_refl) e)].
  destruct Hin as [->|Hin]; [congruence|]. rewrite IH; auto. intros b' Hb'. apply Hne. now right.
Qed.

(* replace re-validates what it changes: a value outside the field's type makes the whole call fail *)
Theorem replace_revalidates c s ch f v :
  wf_cls c -> Inv c s -> changes_ok c ch = true ->
  In f (ic_fields c) -> field_get (if_name f) ch = Some v -> conv_arg (if_ty f) v = Reject ->
  (forall g w e, In g (ic_fields c) -> field_get (if_name g) ch = Some w -> conv_arg (if_ty g) w <> Escape e) ->
  replace c s ch = OutConvertError.
Proof.
  intros W I Hc Hin G Rj Hne. pose proof W as [Hn Hd]. unfold replace, construct_kw.
  rewrite (bind_ok_replace c s ch W I Hc). simpl.
  rewrite (map_out_reject (field_value (replace_kwargs c s ch)) (ic_fields c) f Hin); [reflexivity| |].
  - unfold field_value. rewrite (replace_kwargs_get c s ch f Hn Hin), G, (changes_ok_get c ch f v Hn Hc Hin G), Rj. reflexivity.
  - intros g Hg e. unfold field_value. rewrite (replace_kwargs_get c s ch g Hn Hg).
    destruct (if_init g) eqn:Ig; simpl.
    + destruct (field_get (if_name g) ch) as [w|] eqn:Gw.
      * pose proof (Hne g w e Hg Gw). destruct (conv_arg (if_ty g) w); congruence.
      * destruct (smem (if_name g) (st_set s)) eqn:Sm.
        -- destruct (inv_set c s I g Hg Ig Sm) as (w & -> & ->). discriminate.
        -- destruct (inv_unset c s I g Hg Sm) as (d & -> & _). discriminate.
    + destruct (if_default g) eqn:D; [discriminate|]. exfalso. now apply (Hd g Hg Ig).
Qed.

(* ------------------------------------------------------------------ every reachable state *)
(* operations a user of a typed program performs: assigned values belong to the field's type;
   replacements name constructor arguments *)
Definition op_typed (c : icls) (o : iop) : Prop :=
  match o with
  | OpAssign n v => forall f, find_fld n (ic_fields c) = Some f -> if_init f = true -> conv_arg (if_ty f) v = Ok v
  | OpReplace ch => changes_ok c ch = true
  | _ => True
  end.

Lemma is_field_in c n : is_field c n = true -> exists f, find_fld n (ic_fields c) = Some f /\ In f (ic_fields c) /\ if_name f = n.
Proof.
  unfold is_field. destruct (find_fld n (ic_fields c)) as [f|] eqn:F; [|discriminate]. intros _.
  destruct (find_fld_in _ _ _ F). eauto.
Qed.

Theorem step_inv c s o : wf_cls c -> idem_cls c -> Inv c s -> op_typed c o -> Inv c (fst (step c s o)).
Proof.
  intros W Hi I T. pose proof W as [Hn Hd]. destruct o as [n v|n| | |ch]; simpl; try assumption.
  - destruct (ic_frozen c); [assumption|]. destruct (is_field c n) eqn:Fn; [|assumption]. simpl.
    destruct (is_field_in c n Fn) as (f & Ff & Hf & <-). simpl in T.
    constructor; simpl.
    + now rewrite set_val_fst, (inv_shape c s I).
    + intros g Hg Ig Sm. rewrite field_get_set_val. destruct (String.eqb_spec (if_name g) (if_name f)) as [E|Ne].
      * assert (g = f). { pose proof (find_fld_nodup _ g Hn Hg) as A. rewrite E, Ff in A. congruence. } subst g.
        destruct (field_get_in (if_name f) (st_vals s)) as (w & ->); [rewrite (inv_shape c s I); unfold names; now apply in_map|].
        exists v. split; [reflexivity|]. now apply T.
      * rewrite smem_sadd in Sm. destruct (String.eqb_spec (if_name g) (if_name f)); [contradiction|]. rewrite orb_false_r in Sm.
        now apply (inv_set c s I).
    + intros g Hg Sm. rewrite smem_sadd in Sm. apply orb_false_iff in Sm as [Sm Ne]. rewrite field_get_set_val, Ne.
      now apply (inv_unset c s I).
    + intros m Sm. rewrite smem_sadd in Sm. apply orb_true_iff in Sm as [Sm|E]; [now apply (inv_names c s I)|].
      apply String.eqb_eq in E. subst m. unfold names. now apply in_map.
  - destruct (replace c s ch) as [|s'| | | | | |] eqn:R; simpl; try assumption.
    eapply replace_inv; eauto.
Qed.

Theorem run_inv c s ops : wf_cls c -> idem_cls c -> Inv c s -> Forall (op_typed c) ops -> Inv c (run c s ops).
Proof.
  intros W Hi. unfold run. revert s. induction ops as [|o ops IH]; intros s I F; simpl; [assumption|].
  inversion F; subst. apply IH; [|assumption]. now apply step_inv.
Qed.

(* the statement of C16 for copy / deepcopy / replace, for every reachable instance *)
Theorem reachable_copy_replace c kw s0 ops :
  wf_cls c -> idem_cls c -> construct_kw c kw = OutInst s0 -> Forall (op_typed c) ops ->
  let s := run c s0 ops in
  step c s OpCopy = (s, OutInst s) /\ step c s OpDeepCopy = (s, OutInst s) /\
  exists s', step c s (OpReplace []) = (s', OutInst s') /\ st_vals s' = st_vals s /\ same_record s' s.
Proof.
  intros W Hi C F s. assert (Inv c s) as I by (apply run_inv; auto; eapply constructed_inv; eauto).
  repeat split. destruct (replace_nothing c s W I) as (s' & R & V & S). exists s'. simpl. rewrite R. auto.
Qed.
