(* C05 for dataclasses.  A "plain" dataclass -- every field bound by construction, serialised,
   and read and written under its own name; defaults that are values of their field's type --
   round-trips through its mapping form and (when no field is keyword-only) its sequence form,
   from EITHER input layout, provided every field type round-trips.  The development is
   parametric in the relation [R] between the re-read and the original field values:
     R = eq          field types of the fragment [rt_ty]: the same field values exactly;
     R = same_val    nested dataclasses (Lemmas/NestedRoundTrip.v).
   What changes is said too: the re-read instance has the same class and R-related field values,
   and its record of explicitly set fields becomes "all of them" (every field is present in the
   serialised form). *)
From Coq Require Import ZArith List Bool String Lia.
Require Import Base.PyNum Base.Outcome Model.Values Model.Vocab Model.Types Model.Conv Model.Into.
Require Import Gen.GenScalars Gen.GenGates Gen.GenExcept Lemmas.AgreeThm Lemmas.RoundTrip Lemmas.ClassLemmas.
Import ListNotations.

(* what every field of a round-tripping class needs by itself: bound by construction, serialised, and a default (if any)
   that is a value of the field's type *)
Definition base_shape (ft : fld * ty) : Prop :=
  f_init (fst ft) = true /\ f_exclude (fst ft) = false /\
  match f_default (fst ft) with
  | DNone => True
  | DValue d | DFactory d => exists v, tc (snd ft) v = Ok d     (* the default is a value of the field's type *)
  end.

(* the plain case: read and written under its own name only *)
Definition plain_shape (ft : fld * ty) : Prop :=
  base_shape ft /\ f_in_names (fst ft) = [f_name (fst ft)] /\ f_out_name (fst ft) = f_name (fst ft).

Definition names (fs : list (fld * ty)) : list string := map (fun ft => f_name (fst ft)) fs.
Definition out_names (fs : list (fld * ty)) : list string := map (fun ft => f_out_name (fst ft)) fs.

(* the key a field is written under is read back as that very field (whatever renaming, aliases and other fields say) *)
Definition reads_own_output (fs0 : list (fld * ty)) (ft : fld * ty) : Prop :=
  find_field (VStr (f_out_name (fst ft))) fs0 = Some ft.


(* ------------------------------------------------------------------ small facts about association lists *)

Lemma nodup_map_inj {A B} (g : A -> B) l x y : NoDup (map g l) -> In x l -> In y l -> g x = g y -> x = y.
Proof.
  induction l as [|a l IH]; simpl; [tauto|]. intros N Hx Hy E. inversion N as [|? ? Na Nl]; subst.
  destruct Hx as [->|Hx], Hy as [->|Hy]; auto.
  - exfalso. apply Na. rewrite E. now apply in_map.
  - exfalso. apply Na. rewrite <- E. now apply in_map.
Qed.

Lemma field_get_in n (l : list (string * pyval)) x : field_get n l = Some x -> In (n, x) l.
Proof.
  unfold field_get. induction l as [|[k y] l IH]; simpl; [discriminate|].
  destruct (String.eqb n k) eqn:E.
  - apply String.eqb_eq in E. subst. intros H; inversion H. now left.
  - intros H. right. now apply IH.
Qed.

Lemma field_get_nodup n (l : list (string * pyval)) x : NoDup (map fst l) -> In (n, x) l -> field_get n l = Some x.
Proof.
  unfold field_get. induction l as [|[k y] l IH]; simpl; [tauto|]. intros N [E|Hin]; inversion N as [|? ? Na Nl]; subst.
  - inversion E; subst. now rewrite String.eqb_refl.
  - destruct (String.eqb n k) eqn:E; [|now apply IH].
    apply String.eqb_eq in E. subst. exfalso. apply Na. change k with (fst (k, x)). now apply in_map.
Qed.

Lemma field_get_none n (l : list (string * pyval)) : ~ In n (map fst l) -> field_get n l = None.
Proof.
  unfold field_get. induction l as [|[k y] l IH]; simpl; [reflexivity|]. intros N.
  destruct (String.eqb n k) eqn:E; [apply String.eqb_eq in E; subst; tauto|]. apply IH. tauto.
Qed.

(* ------------------------------------------------------------------ reading a key of a plain class *)

Lemma plain_accepts n ft : plain_shape ft -> field_accepts (VStr n) (fst ft) = String.eqb n (f_name (fst ft)).
Proof.
  intros ((Pi & _ & _) & Pn & _). unfold field_accepts. rewrite Pi, Pn. simpl.
  destruct (String.eqb n (f_name (fst ft))); reflexivity.
Qed.

Lemma find_field_plain fs0 f t :
  Forall plain_shape fs0 -> NoDup (names fs0) -> In (f, t) fs0 -> find_field (VStr (f_name f)) fs0 = Some (f, t).
Proof.
  intros P N Hin. destruct (find_field (VStr (f_name f)) fs0) as [[f' t']|] eqn:F.
  - apply find_field_accepts in F. destruct F as [A Hin']. rewrite Forall_forall in P.
    rewrite (plain_accepts _ (f', t') (P _ Hin')) in A. simpl in A. apply String.eqb_eq in A.
    f_equal. eapply (nodup_map_inj (fun ft => f_name (fst ft))); eauto.
  - apply find_field_none in F. rewrite Forall_forall in F, P. specialize (F _ Hin).
    rewrite (plain_accepts _ (f, t) (P _ Hin)) in F. simpl in F. now rewrite String.eqb_refl in F.
Qed.

Lemma pos_args_positional (fs : list (fld * ty)) :
  Forall base_shape fs -> Forall (fun ft => f_kw_only (fst ft) = false) fs ->
  forall mn mx, (mn <= mx)%nat ->
  exists mn', pos_args_from (map fst fs) mn mx = (mn', mx + List.length fs)%nat /\ (mn' <= mx + List.length fs)%nat.
Proof.
  induction fs as [|[f t] fs IH]; intros P K mn mx L; simpl.
  - exists mn. rewrite Nat.add_0_r. auto.
  - inversion P as [|? ? (Pi & _) Pr]; subst. inversion K as [|? ? Kf Kr]; subst. simpl in Pi, Kf.
    rewrite Pi, Kf. simpl. replace (mx + S (List.length fs))%nat with (S mx + List.length fs)%nat by lia.
    destruct (has_default f); apply IH; auto; lia.
Qed.

Section General.
  (* how the re-read value of a field relates to the original one *)
  Variable R : pyval -> pyval -> Prop.
  Definition rel_fields (xs xs' : list (string * pyval)) : Prop :=
    Forall2 (fun a b => fst b = fst a /\ R (snd b) (snd a)) xs xs'.
  (* __post_init__ cannot tell R-related field values apart *)
  Hypothesis R_hook : forall hk xs xs' u, run_hook hk xs = ROk u -> rel_fields xs xs' -> exists u', run_hook hk xs' = ROk u'.

  Definition rt_val (t : ty) (x : pyval) : Prop :=
    exists d x', into_data t x = Ok d /\ tc t d = Ok x' /\ R x' x.

  (* -------------------------------------------------------------- every field of an accepted instance round-trips *)
  Section FieldsRt.
    Variable fs0 : list (fld * ty).
    Hypothesis Hrt : Forall (fun ft => forall v x, tc (snd ft) v = Ok x -> rt_val (snd ft) x) fs0.

    Definition val_rt (nv : string * pyval) : Prop :=
      exists f t, In (f, t) fs0 /\ f_name f = fst nv /\ rt_val t (snd nv).

    Lemma image_rt f t x y : In (f, t) fs0 -> tc t x = Ok y -> val_rt (f_name f, y).
    Proof.
      intros Hin E. exists f, t. repeat split; auto. rewrite Forall_forall in Hrt. exact (Hrt _ Hin x y E).
    Qed.

    Lemma struct_loop_rt ae kvs : forall vals out,
      Forall val_rt vals -> struct_try_loop tc fs0 ae kvs vals = Ok out -> Forall val_rt out.
    Proof.
      induction kvs as [|[k x] kvs IH]; intros vals out Hv H; simpl in H.
      - now inversion H; subst.
      - rewrite with_field_find in H. destruct (find_field k fs0) as [[f t]|] eqn:F.
        + destruct (has_value (f_name f) vals); [discriminate|].
          destruct (tc t x) as [y| |e] eqn:E; try discriminate.
          eapply IH; [|exact H]. apply Forall_app. split; [exact Hv|]. constructor; [|constructor].
          eapply image_rt; eauto. eapply find_field_in; eauto.
        + destruct ae; [eapply IH; eauto|discriminate].
    Qed.

    Lemma tuple_loop_rt (fs : list (fld * ty)) : (forall ft, In ft fs -> In ft fs0) -> forall xs vals,
      tuple_try_loop tc fs xs = Ok vals -> Forall val_rt vals.
    Proof.
      induction fs as [|[f t] fs IH]; intros Sub xs vals H; simpl in H.
      - inversion H. constructor.
      - destruct xs as [|x xs]; [inversion H; constructor|].
        destruct (f_init f).
        + destruct (tc t x) as [y| |e] eqn:E; try discriminate.
          destruct (tuple_try_loop tc fs xs) as [rest| |e] eqn:L; try discriminate. inversion H; subst.
          constructor.
          * eapply image_rt; eauto. apply Sub. now left.
          * eapply IH; eauto. intros ft Hin. apply Sub. now right.
        + eapply IH; eauto. intros ft Hin. apply Sub. now right.
    Qed.

    (* what an accepted instance is made of *)
    Lemma class_image h v x :
      tc (TClass h fs0) v = Ok x ->
      exists vals fields, Forall val_rt vals /\ fill_defaults (map fst fs0) vals = Some fields /\
                          (exists u, run_hook (c_hook h) fields = ROk u) /\ x = VInst (c_name h) fields (map fst vals).
    Proof.
      intros H. simpl in H.
      assert (K : forall vals s, Forall val_rt vals ->
                match construct h (map fst fs0) vals with Some r => guard s r = Ok x | None => False end ->
                exists vals fields, Forall val_rt vals /\ fill_defaults (map fst fs0) vals = Some fields /\
                          (exists u, run_hook (c_hook h) fields = ROk u) /\ x = VInst (c_name h) fields (map fst vals)).
      { intros vals s V C. unfold construct in C. destruct (fill_defaults (map fst fs0) vals) as [fields|] eqn:F; [|tauto].
        destruct (run_hook (c_hook h) fields) as [u|e] eqn:Hk; unfold guard in C.
        - inversion C; subst. exists vals, fields. repeat split; eauto.
        - destruct (caught s e); discriminate. }
      destruct (pane_seq_gate_try (kind_of v)).
      - destruct (has_fmt FTuple h); [|discriminate].
        destruct (pos_args (map fst fs0)) as [mn mx]. destruct (_ && _); [|discriminate].
        destruct (tuple_try_loop tc fs0 (items_of v)) as [vals0| |z] eqn:L; try discriminate.
        apply (K vals0 S_post_tuple_try).
        + eapply tuple_loop_rt; eauto.
        + destruct (construct h (map fst fs0) vals0); [exact H|].
          first [discriminate | unfold guard in H; destruct (caught S_post_tuple_try ETypeError); discriminate].
      - destruct (pane_map_gate_try (kind_of v)); [|discriminate].
        destruct (has_fmt FStruct h); [|discriminate].
        destruct (struct_try_loop tc fs0 (c_allow_extra h) (pairs_of v) []) as [vals0| |z] eqn:L; try discriminate.
        apply (K vals0 S_post_struct_try).
        + eapply struct_loop_rt; eauto.
        + destruct (construct h (map fst fs0) vals0); [exact H|discriminate].
    Qed.
  End FieldsRt.

  (* the four aligned lists: declared fields, attribute values, serialised values, re-read values *)
  Inductive rows : list (fld * ty) -> list (string * pyval) -> list (string * pyval) -> list (string * pyval) -> Prop :=
  | rows_nil : rows [] [] [] []
  | rows_cons f t x d x' fs xs ds xs' :
      into_data t x = Ok d -> tc t d = Ok x' -> R x' x -> rows fs xs ds xs' ->
      rows ((f, t) :: fs) ((f_name f, x) :: xs) ((f_out_name f, d) :: ds) ((f_name f, x') :: xs').

  Lemma rows_names fs xs ds xs' : rows fs xs ds xs' ->
    map fst xs = names fs /\ map fst ds = out_names fs /\ map fst xs' = names fs /\ rel_fields xs xs'.
  Proof.
    induction 1 as [|f t x d x' fs xs ds xs' _ _ Rx _ (IH1 & IH2 & IH3 & IH4)]; simpl; [repeat split; constructor|].
    rewrite IH1, IH2, IH3. repeat split; auto. constructor; auto.
  Qed.

  Lemma rows_length fs xs ds xs' : rows fs xs ds xs' -> List.length ds = List.length fs.
  Proof. induction 1; simpl; auto. Qed.

  Lemma fill_rows fs0 : Forall base_shape fs0 -> NoDup (names fs0) ->
    Forall (fun ft => forall v x, tc (snd ft) v = Ok x -> rt_val (snd ft) x) fs0 -> forall vals,
    Forall (val_rt fs0) vals -> forall fs, (forall ft, In ft fs -> In ft fs0) -> forall fields,
    fill_defaults (map fst fs) vals = Some fields -> exists ds xs', rows fs fields ds xs'.
  Proof.
    intros P N Q vals V. induction fs as [|[f t] fs IH]; intros Sub fields H; simpl in H.
    - inversion H. exists [], []. constructor.
    - destruct (fill_defaults (map fst fs) vals) as [rest|] eqn:Rr; [|discriminate].
      destruct (IH (fun ft Hin => Sub ft (or_intror Hin)) rest eq_refl) as (ds & xs' & Rs).
      assert (Hin : In (f, t) fs0) by (apply Sub; now left).
      rewrite Forall_forall in P, Q. destruct (P _ Hin) as (Pi & Pe & Pd). simpl in *.
      rewrite Pi in H. simpl in H.
      assert (X : exists x, fields = (f_name f, x) :: rest /\ rt_val t x).
      { destruct (field_get (f_name f) vals) as [x|] eqn:G.
        - inversion H; subst. exists x. split; [reflexivity|].
          apply field_get_in in G. rewrite Forall_forall in V. destruct (V _ G) as (f' & t' & Hin' & Hn & Hr). simpl in *.
          assert (E : (f', t') = (f, t)) by (eapply (nodup_map_inj (fun ft => f_name (fst ft))); eauto).
          inversion E; subst. exact Hr.
        - destruct (f_default f) as [|d|d]; try discriminate; inversion H; subst; exists d; (split; [reflexivity|]);
            destruct Pd as (v & E); exact (Q _ Hin v d E). }
      destruct X as (x & -> & (d & x' & I & T & Rx)). exists ((f_out_name f, d) :: ds), ((f_name f, x') :: xs'). now constructor.
  Qed.

  (* -------------------------------------------------------------- serialising *)

  Lemma class_into_rows attrs fs xs ds xs' :
    rows fs xs ds xs' -> Forall base_shape fs -> (forall n x, In (n, x) xs -> field_get n attrs = Some x) ->
    class_into into_data fs attrs = Ok ds.
  Proof.
    induction 1 as [|f t x d x' fs xs ds xs' I T Rx Rw IH]; intros P A; simpl; [reflexivity|].
    inversion P as [|? ? (Pi & Pe & Pd) Pr]; subst. simpl in *.
    rewrite Pe, (A (f_name f) x (or_introl eq_refl)), I, (IH Pr (fun n y Hin => A n y (or_intror Hin))). reflexivity.
  Qed.

  (* -------------------------------------------------------------- reading the two forms back *)

  Lemma struct_loop_rows fs0 ae : Forall (reads_own_output fs0) fs0 -> NoDup (names fs0) ->
    forall fs xs ds xs', rows fs xs ds xs' -> forall pre acc, fs0 = (pre ++ fs)%list -> map fst acc = names pre ->
    struct_try_loop tc fs0 ae (map strkey ds) acc = Ok (acc ++ xs')%list.
  Proof.
    intros P N. induction 1 as [|f t x d x' fs xs ds xs' I T Rx Rw IH]; intros pre acc E A; simpl map.
    - simpl. now rewrite app_nil_r.
    - assert (Hin : In (f, t) fs0) by (rewrite E; apply in_or_app; right; now left).
      unfold strkey at 1. simpl fst. simpl snd.
      rewrite (struct_loop_known fs0 ae (VStr (f_out_name f)) d (map strkey ds) acc f t x').
      + rewrite (IH (pre ++ [(f, t)])%list (acc ++ [(f_name f, x')])%list).
        * now rewrite <- app_assoc.
        * now rewrite <- app_assoc.
        * unfold names in *. rewrite !map_app, A. reflexivity.
      + rewrite Forall_forall in P. exact (P _ Hin).
      + unfold has_value. rewrite field_get_none; [reflexivity|].
        rewrite A. subst fs0. unfold names in N. rewrite map_app in N. simpl in N.
        apply NoDup_remove_2 in N. intros Hn. apply N. apply in_or_app. now left.
      + exact T.
  Qed.

  Lemma tuple_loop_rows fs xs ds xs' :
    rows fs xs ds xs' -> Forall base_shape fs -> tuple_try_loop tc fs (map snd ds) = Ok xs'.
  Proof.
    induction 1 as [|f t x d x' fs xs ds xs' I T Rx Rw IH]; intros P; simpl; [reflexivity|].
    inversion P as [|? ? (Pi & _) Pr]; subst. simpl in Pi. now rewrite Pi, T, (IH Pr).
  Qed.

  Lemma fill_from_rows fs xs ds xs' vals :
    rows fs xs ds xs' -> Forall base_shape fs -> (forall n x, In (n, x) xs' -> field_get n vals = Some x) ->
    fill_defaults (map fst fs) vals = Some xs'.
  Proof.
    induction 1 as [|f t x d x' fs xs ds xs' I T Rx Rw IH]; intros P A; simpl; [reflexivity|].
    inversion P as [|? ? (Pi & _) Pr]; subst. simpl in Pi.
    rewrite (IH Pr (fun n y Hin => A n y (or_intror Hin))), Pi. simpl.
    now rewrite (A (f_name f) x' (or_introl eq_refl)).
  Qed.

  (* -------------------------------------------------------------- the theorems *)

  Definition reread (h : class_hdr) (fs : list (fld * ty)) (x : pyval) : Prop :=
    exists fields setf d fields',
      x = VInst (c_name h) fields setf /\
      into_data (TClass h fs) x = Ok d /\
      tc (TClass h fs) d = Ok (VInst (c_name h) fields' (map fst fields')) /\
      rel_fields fields fields'.

  Section OneClass.
    Variables (h : class_hdr) (fs : list (fld * ty)).
    Hypothesis P : Forall base_shape fs.
    Hypothesis N : NoDup (names fs).
    Hypothesis No : NoDup (out_names fs).                       (* no two fields are written under one key *)
    Hypothesis Rd : Forall (reads_own_output fs) fs.             (* each key written is read back as its own field *)
    Hypothesis Q : Forall (fun ft => forall v x, tc (snd ft) v = Ok x -> rt_val (snd ft) x) fs.

    Lemma class_rows v x : tc (TClass h fs) v = Ok x ->
      exists fields setf ds fields' u', x = VInst (c_name h) fields setf /\ rows fs fields ds fields' /\
        run_hook (c_hook h) fields' = ROk u' /\
        (forall n y, In (n, y) fields -> field_get n fields = Some y) /\
        (forall n y, In (n, y) fields' -> field_get n fields' = Some y).
    Proof.
      intros H. destruct (class_image fs Q h v x H) as (vals & fields & V & F & (u & Hk) & ->).
      destruct (fill_rows fs P N Q vals V fs (fun ft Hin => Hin) fields F) as (ds & fields' & Rw).
      destruct (rows_names _ _ _ _ Rw) as (Nx & Nd & Nx' & Rel).
      destruct (R_hook _ _ _ _ Hk Rel) as (u' & Hk').
      exists fields, (map fst vals), ds, fields', u'. repeat split; auto.
      - intros n y Hin. apply field_get_nodup; [now rewrite Nx|exact Hin].
      - intros n y Hin. apply field_get_nodup; [now rewrite Nx'|exact Hin].
    Qed.

    Theorem class_roundtrip_gen v x :
      c_out_tuple h = false -> has_fmt FStruct h = true -> tc (TClass h fs) v = Ok x -> reread h fs x.
    Proof.
      intros OT FS H. destruct (class_rows v x H) as (fields & setf & ds & fields' & u' & -> & Rw & Hk' & A & A').
      destruct (rows_names _ _ _ _ Rw) as (Nx & Nd & Nx' & Rel).
      exists fields, setf, (VDict (map strkey ds)), fields'. split; [reflexivity|]. split; [|split; [|exact Rel]].
      - simpl. rewrite (class_into_rows fields fs fields ds fields' Rw P A), OT.
        apply build_dict_strkeys. now rewrite Nd.
      - simpl. replace (pane_seq_gate_try KDict) with false by reflexivity.
        replace (pane_map_gate_try KDict) with true by reflexivity. rewrite FS.
        rewrite (struct_loop_rows fs (c_allow_extra h) Rd N fs fields ds fields' Rw [] [] eq_refl eq_refl). simpl app.
        unfold construct. rewrite (fill_from_rows fs fields ds fields' fields' Rw P A'), Hk'. reflexivity.
    Qed.

    Theorem class_roundtrip_tuple_gen v x :
      c_out_tuple h = true -> has_fmt FTuple h = true -> Forall (fun ft => f_kw_only (fst ft) = false) fs ->
      tc (TClass h fs) v = Ok x -> reread h fs x.
    Proof.
      intros OT FT K H. destruct (class_rows v x H) as (fields & setf & ds & fields' & u' & -> & Rw & Hk' & A & A').
      destruct (rows_names _ _ _ _ Rw) as (Nx & Nd & Nx' & Rel).
      exists fields, setf, (VTuple (map snd ds)), fields'. split; [reflexivity|]. split; [|split; [|exact Rel]].
      - simpl. now rewrite (class_into_rows fields fs fields ds fields' Rw P A), OT.
      - simpl. replace (pane_seq_gate_try KTuple) with true by reflexivity. rewrite FT.
        destruct (pos_args_positional fs P K 0 0 (le_n 0)) as (mn & E & L). unfold pos_args. rewrite E.
        rewrite map_length, (rows_length _ _ _ _ Rw). simpl plus.
        replace ((mn <=? List.length fs)%nat && (List.length fs <=? List.length fs)%nat) with true
          by (symmetry; apply andb_true_intro; split; apply Nat.leb_le; lia).
        rewrite (tuple_loop_rows fs fields ds fields' Rw P).
        unfold construct. rewrite (fill_from_rows fs fields ds fields' fields' Rw P A'), Hk'. reflexivity.
    Qed.
  End OneClass.
End General.

(* ------------------------------------------------------------------ R = eq: field types of the fragment *)

(* the general class: any renaming, aliases and input names, as long as every field reads back the key it is written under *)
Definition renamed_class (h : class_hdr) (fs : list (fld * ty)) : Prop :=
  Forall (fun ft => base_shape ft /\ rt_ty (snd ft)) fs /\ NoDup (names fs) /\ NoDup (out_names fs) /\
  Forall (reads_own_output fs) fs.

Definition plain_field (ft : fld * ty) : Prop := plain_shape ft /\ rt_ty (snd ft).

Definition plain_class (h : class_hdr) (fs : list (fld * ty)) : Prop :=
  Forall plain_field fs /\ NoDup (names fs) /\ c_out_tuple h = false /\ has_fmt FStruct h = true.

Definition plain_tuple_class (h : class_hdr) (fs : list (fld * ty)) : Prop :=
  Forall plain_field fs /\ NoDup (names fs) /\ c_out_tuple h = true /\ has_fmt FTuple h = true /\
  Forall (fun ft => f_kw_only (fst ft) = false) fs.        (* a keyword-only field has no position: a recorded finding *)

Lemma rel_eq xs xs' : rel_fields eq xs xs' -> xs' = xs.
Proof. induction 1 as [|[n x] [n' x'] xs xs' [E1 E2] _ IH]; [reflexivity|]. simpl in *. now subst. Qed.

Lemma eq_hook : forall hk xs xs' u, run_hook hk xs = ROk u -> rel_fields eq xs xs' -> exists u', run_hook hk xs' = ROk u'.
Proof. intros hk xs xs' u H Rl. apply rel_eq in Rl. subst. eauto. Qed.

Lemma fragment_fields_rt fs : Forall (fun ft => base_shape ft /\ rt_ty (snd ft)) fs ->
  Forall base_shape fs /\ Forall (fun ft => forall v x, tc (snd ft) v = Ok x -> rt_val eq (snd ft) x) fs.
Proof.
  intros F. split; (eapply Forall_impl; [|exact F]); intros ft [S Rt]; [exact S|].
  intros v x E. destruct (roundtrip_core _ v x Rt E) as (d & I & T). exists d, x. auto.
Qed.

(* a plain class is a special case: its keys are its names *)
Lemma plain_out_names fs : Forall plain_shape fs -> out_names fs = names fs.
Proof. induction 1 as [|[f t] fs (_ & _ & Po) _ IH]; simpl; [reflexivity|]. simpl in Po. now rewrite Po, IH. Qed.

Lemma plain_reads fs : Forall plain_shape fs -> NoDup (names fs) -> Forall (reads_own_output fs) fs.
Proof.
  intros P N. apply Forall_forall. intros [f t] Hin. unfold reads_own_output. simpl.
  assert (Po : f_out_name f = f_name f).
  { rewrite Forall_forall in P. destruct (P _ Hin) as (_ & _ & Po). exact Po. }
  rewrite Po. now apply find_field_plain.
Qed.

Lemma plain_is_renamed h fs : Forall plain_field fs -> NoDup (names fs) -> renamed_class h fs.
Proof.
  intros F N.
  assert (P : Forall plain_shape fs) by (eapply Forall_impl; [|exact F]; intros ft [S _]; exact S).
  repeat split.
  - eapply Forall_impl; [|exact F]. intros ft [(B & _) Rt]. split; assumption.
  - exact N.
  - now rewrite (plain_out_names fs P).
  - now apply plain_reads.
Qed.

Theorem class_roundtrip_renamed h fs v x :
  renamed_class h fs -> c_out_tuple h = false -> has_fmt FStruct h = true -> tc (TClass h fs) v = Ok x ->
  exists fields setf d,
    x = VInst (c_name h) fields setf /\
    into_data (TClass h fs) x = Ok d /\
    tc (TClass h fs) d = Ok (VInst (c_name h) fields (map fst fields)).
Proof.
  intros (F & N & No & Rd) OT FS H. destruct (fragment_fields_rt fs F) as [P Q].
  destruct (class_roundtrip_gen eq eq_hook h fs P N No Rd Q v x OT FS H) as (fields & setf & d & fields' & -> & I & T & Rl).
  apply rel_eq in Rl. subst fields'. eauto 6.
Qed.

Theorem class_roundtrip_renamed_tuple h fs v x :
  renamed_class h fs -> c_out_tuple h = true -> has_fmt FTuple h = true -> Forall (fun ft => f_kw_only (fst ft) = false) fs ->
  tc (TClass h fs) v = Ok x ->
  exists fields setf d,
    x = VInst (c_name h) fields setf /\
    into_data (TClass h fs) x = Ok d /\
    tc (TClass h fs) d = Ok (VInst (c_name h) fields (map fst fields)).
Proof.
  intros (F & N & No & Rd) OT FT K H. destruct (fragment_fields_rt fs F) as [P Q].
  destruct (class_roundtrip_tuple_gen eq eq_hook h fs P N Q v x OT FT K H) as (fields & setf & d & fields' & -> & I & T & Rl).
  apply rel_eq in Rl. subst fields'. eauto 6.
Qed.

Theorem class_roundtrip h fs v x :
  plain_class h fs -> tc (TClass h fs) v = Ok x ->
  exists fields setf d,
    x = VInst (c_name h) fields setf /\
    into_data (TClass h fs) x = Ok d /\
    tc (TClass h fs) d = Ok (VInst (c_name h) fields (map fst fields)).
Proof. intros (F & N & OT & FS). apply class_roundtrip_renamed; auto. now apply plain_is_renamed. Qed.

Theorem class_roundtrip_tuple h fs v x :
  plain_tuple_class h fs -> tc (TClass h fs) v = Ok x ->
  exists fields setf d,
    x = VInst (c_name h) fields setf /\
    into_data (TClass h fs) x = Ok d /\
    tc (TClass h fs) d = Ok (VInst (c_name h) fields (map fst fields)).
Proof. intros (F & N & OT & FT & K). apply class_roundtrip_renamed_tuple; auto. now apply plain_is_renamed. Qed.
