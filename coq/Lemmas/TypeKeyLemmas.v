(* the subclass cache of generic dataclasses is transparent (C10), and keeps the member order of
   unions (C11) and the substituted parameters (C17) of every specialisation *)
From Coq Require Import ZArith List Bool Arith Lia.
Require Import Model.TypeKey.
Import ListNotations.

Local Arguments Nat.leb : simpl never.

Section KeyInd.
  Variable P : key -> Prop.
  Hypothesis HLeaf : forall n, P (KLeaf n).
  Hypothesis HVal : forall z, P (KVal z).
  Hypothesis HTup : forall l, Forall P l -> P (KTup l).
  Fixpoint key_ind' (k : key) : P k :=
    match k with
    | KLeaf n => HLeaf n
    | KVal z => HVal z
    | KTup l => HTup l ((fix go (l : list key) : Forall P l :=
                           match l with [] => Forall_nil P | a :: r => Forall_cons a (key_ind' a) (go r) end) l)
    end.
End KeyInd.

Lemma key_eqb_eq a : forall b, key_eqb a b = true -> a = b.
Proof.
  induction a as [n|z|l IH] using key_ind'; intros [m|y|l'] H; simpl in H; try discriminate.
  - apply Nat.eqb_eq in H. now subst.
  - apply Z.eqb_eq in H. now subst.
  - f_equal. revert l' H. induction IH as [|x r Hx _ IHr]; intros [|y r'] H; try discriminate; [reflexivity|].
    apply andb_prop in H as [H1 H2]. f_equal; [now apply Hx|now apply IHr].
Qed.

Lemma map_okey_inj l : forall l',
  Forall (fun x => forall y, xwf x = true -> xwf y = true -> okey x = okey y -> x = y) l ->
  forallb xwf l = true -> forallb xwf l' = true -> map okey l = map okey l' -> l = l'.
Proof.
  induction l as [|x r IH]; intros [|y r'] F W W' E; simpl in *; try discriminate; [reflexivity|].
  inversion F as [|? ? Hx Fr]; subst. apply andb_prop in W as [Wx Wr]. apply andb_prop in W' as [Wy Wr'].
  inversion E as [[E1 E2]]. f_equal; [now apply Hx|now apply IH].
Qed.

Lemma map_lit_inj (l l' : list (nat * Z)) :
  map (fun v => KTup [KLeaf (fst v); KVal (snd v)]) l = map (fun v => KTup [KLeaf (fst v); KVal (snd v)]) l' -> l = l'.
Proof.
  revert l'. induction l as [|[t z] r IH]; intros [|[t' z'] r'] E; simpl in *; try discriminate; [reflexivity|].
  inversion E; subst. f_equal. now apply IH.
Qed.

(* the ordered key determines the type expression: nothing is identified that is written differently *)
Theorem okey_injective a : forall b, xwf a = true -> xwf b = true -> okey a = okey b -> a = b.
Proof.
  induction a as [n|o args IH|ms IH|vals] using tx_ind'; intros [m|o' args'|ms'|vals'] W W' E; simpl in *; try discriminate.
  - now inversion E.
  - inversion E as [[E1 E2]]. subst o'. f_equal.
    apply andb_prop in W as [_ W]. apply andb_prop in W' as [_ W']. now apply map_okey_inj.
  - inversion E as [[E1 E2]]. apply andb_prop in W as [W _]. apply Nat.leb_le in W. unfold o_union in E1. lia.
  - inversion E as [[E1 E2]]. apply andb_prop in W as [W _]. apply Nat.leb_le in W. unfold o_literal in E1. lia.
  - inversion E as [[E1 E2]]. apply andb_prop in W' as [W' _]. apply Nat.leb_le in W'. unfold o_union in E1. lia.
  - inversion E as [E2]. f_equal. now apply map_okey_inj.
  - inversion E as [[E1 E2]]. apply andb_prop in W' as [W' _]. apply Nat.leb_le in W'. unfold o_literal in E1. lia.
  - inversion E as [E2]. f_equal. now apply map_lit_inj.
Qed.

Corollary pane_same_is_identity a b : xwf a = true -> xwf b = true -> pane_same a b = true -> a = b.
Proof.
  intros W W' H. unfold pane_same in H. apply andb_prop in H as [_ H]. apply key_eqb_eq in H. now apply okey_injective.
Qed.

(* ---- the cache ---- *)
Section Transparent.
  Variable C : Type.
  Variable build : tx -> C.

  Definition cache_ok (c : list (tx * C)) : Prop := forall b v, In (b, v) c -> xwf b = true /\ v = build b.

  Lemma sc_lookup_in same a (c : list (tx * C)) v : sc_lookup C same a c = Some v -> exists b, In (b, v) c /\ same a b = true.
  Proof.
    induction c as [|[b w] r IH]; simpl; [discriminate|]. destruct (same a b) eqn:S.
    - intros H; inversion H; subst. exists b. split; [now left|assumption].
    - intros H. destruct (IH H) as (b' & Hin & S'). exists b'. split; [now right|assumption].
  Qed.

  Lemma sc_remove_incl same a (c : list (tx * C)) e : In e (sc_remove C same a c) -> In e c.
  Proof.
    induction c as [|[b w] r IH]; simpl; [auto|]. destruct (same a b); [now right|].
    intros [H|H]; [now left|right; auto].
  Qed.

  Lemma tl_incl {A} (l : list A) e : In e (tl l) -> In e l.
  Proof. destruct l; simpl; auto. Qed.

  Theorem sc_call_transparent m c a :
    cache_ok c -> xwf a = true ->
    snd (sc_call C build pane_same m c a) = build a /\ cache_ok (fst (sc_call C build pane_same m c a)).
  Proof.
    intros Ok W. unfold sc_call. destruct (sc_lookup C pane_same a c) as [v|] eqn:L.
    - apply sc_lookup_in in L as (b & Hin & S). destruct (Ok b v Hin) as [Wb ->].
      rewrite (pane_same_is_identity a b W Wb S). split; [reflexivity|]. simpl.
      destruct (find (fun e => pane_same b (fst e)) c) as [e|] eqn:F; [|exact Ok].
      intros b' v' H. apply in_app_iff in H as [H|[H|[]]].
      + apply sc_remove_incl in H. now apply Ok.
      + subst e. apply find_some in F as [F _]. now apply Ok.
    - split; [reflexivity|]. simpl. intros b' v' H. apply in_app_iff in H as [H|[H|[]]].
      + destruct (List.length c <? m); [|apply tl_incl in H]; now apply Ok.
      + inversion H; subst. split; [assumption|reflexivity].
  Qed.

  (* any sequence of specialisations, any cache size: each one is the class built for ITS parameter *)
  Theorem sc_run_transparent m ps : forall c,
    cache_ok c -> forallb xwf ps = true -> sc_run C build pane_same m c ps = map build ps.
  Proof.
    induction ps as [|a r IH]; intros c Ok W; simpl; [reflexivity|]. apply andb_prop in W as [Wa Wr].
    destruct (sc_call_transparent m c a Ok Wa) as [E Ok'].
    destruct (sc_call C build pane_same m c a) as [c' v] eqn:S. simpl in *. subst v. f_equal. now apply IH.
  Qed.
End Transparent.

(* with the parameter compared by == alone (the code before 82bf6de / 9963aac) the cache is NOT transparent:
   G[Union[float, int]] after G[Union[int, float]], G[Literal[2, 1]] after G[Literal[1, 2]] *)
Theorem old_key_refuted :
  exists ps, forallb xwf ps = true /\ sc_run tx (fun a => a) old_same_class 256 [] ps <> map (fun a => a) ps.
Proof.
  exists [XUnion [XAtom 10; XAtom 11]; XUnion [XAtom 11; XAtom 10]]. split; [reflexivity|]. vm_compute. discriminate.
Qed.

Theorem old_key_refuted_literal :
  exists ps, forallb xwf ps = true /\ sc_run tx (fun a => a) old_same_class 256 [] ps <> map (fun a => a) ps.
Proof.
  exists [XApp 5 [XLit [(2, 1%Z); (2, 2%Z)]]; XApp 5 [XLit [(2, 2%Z); (2, 1%Z)]]]. split; [reflexivity|]. vm_compute. discriminate.
Qed.
