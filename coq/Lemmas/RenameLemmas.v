(* Proofs about the rename model (C20).  Everything here is proved against the
   tables in Gen/GenRename.v, so an edit of pane/field.py that changes a joiner,
   a separator class or the shortcut tests re-runs these proofs against the new
   tables. *)
From Coq Require Import Ascii String List Bool Arith Lia.
Require Import Base.PyStr Base.Styles Gen.GenRename Model.Rename.
Import ListNotations.
Open Scope string_scope.
Open Scope nat_scope.

(* ------------------------------------------------------------------ *)
(* Character facts: all by a complete case split over the 256 characters *)

Ltac all_chars c := destruct c as [[] [] [] [] [] [] [] []]; vm_compute; try reflexivity; try discriminate; auto.

Lemma lower_not_upper c : is_lower c = true -> is_upper c = false.
Proof. all_chars c. Qed.
Lemma lower_cased c : is_lower c = true -> is_cased c = true.
Proof. all_chars c. Qed.
Lemma upper_cased c : is_upper c = true -> is_cased c = true.
Proof. all_chars c. Qed.
Lemma upper_not_lower c : is_upper c = true -> is_lower c = false.
Proof. all_chars c. Qed.
Lemma lower_to_lower c : is_lower c = true -> to_lower c = c.
Proof. all_chars c. Qed.
Lemma lower_to_upper_upper c : is_lower c = true -> is_upper (to_upper c) = true.
Proof. all_chars c. Qed.
Lemma to_lower_to_upper c : to_lower (to_upper c) = to_lower c.
Proof. all_chars c. Qed.
Lemma to_upper_to_lower c : to_upper (to_lower c) = to_upper c.
Proof. all_chars c. Qed.
Lemma to_lower_idem c : to_lower (to_lower c) = to_lower c.
Proof. all_chars c. Qed.
Lemma to_upper_idem c : to_upper (to_upper c) = to_upper c.
Proof. all_chars c. Qed.
Lemma cased_to_upper c : is_cased (to_upper c) = is_cased c.
Proof. all_chars c. Qed.
Lemma cased_to_lower c : is_cased (to_lower c) = is_cased c.
Proof. all_chars c. Qed.
Lemma lower_not_sep c : is_lower c = true -> is_part_sep c = false.
Proof. all_chars c. Qed.
Lemma upper_not_sep c : is_upper c = true -> is_part_sep c = false.
Proof. all_chars c. Qed.
Lemma lower_not_cap c : is_lower c = true -> is_cap c = false.
Proof. all_chars c. Qed.
Lemma upper_is_cap c : is_upper c = true -> is_cap c = true.
Proof. all_chars c. Qed.

(* ------------------------------------------------------------------ *)
(* The domain of the property: snake_case identifiers *)

Definition lower_word (w : string) : Prop := sall is_lower w = true /\ 2 <= String.length w.
Definition snake_words (ws : list string) : Prop := ws <> [] /\ Forall lower_word ws.
Definition snake (ws : list string) : string := join "_" ws.

(* independent description of the canonical spellings *)
Definition cap_word (w : string) : string :=
  match w with EmptyString => EmptyString | String c r => String (to_upper c) r end.
Definition canonical (s : style) (ws : list string) : string :=
  match s with
  | Snake => join "_" ws
  | Scream => join "_" (map str_upper ws)
  | Kebab => join "-" ws
  | Camel => match ws with [] => "" | w :: r => sconcat (w :: map cap_word r) end
  | Pascal => sconcat (map cap_word ws)
  end.

(* ------------------------------------------------------------------ *)
(* Generic string lemmas *)

Lemma sall_app p a b : sall p (a ++ b) = sall p a && sall p b.
Proof. induction a as [|c a IH]; simpl; [reflexivity|]. rewrite IH, andb_assoc. reflexivity. Qed.

Lemma sany_app p a b : sany p (a ++ b) = sany p a || sany p b.
Proof. induction a as [|c a IH]; simpl; [reflexivity|]. rewrite IH, orb_assoc. reflexivity. Qed.

Lemma app_empty_r (s : string) : s ++ "" = s.
Proof. induction s as [|c s IH]; simpl; congruence. Qed.

Lemma app_assoc_s (a b c : string) : (a ++ b) ++ c = a ++ (b ++ c).
Proof. induction a as [|x a IH]; simpl; congruence. Qed.

Lemma join_empty_sep l : join "" l = sconcat l.
Proof.
  induction l as [|p [|q l] IH]; simpl in *.
  - reflexivity.
  - now rewrite app_empty_r.
  - now rewrite IH.
Qed.

Lemma smap_app f a b : smap f (a ++ b) = smap f a ++ smap f b.
Proof. induction a as [|c a IH]; simpl; congruence. Qed.

Lemma smap_id_on f p s : (forall c, p c = true -> f c = c) -> sall p s = true -> smap f s = s.
Proof.
  intros Hf. induction s as [|c s IH]; simpl; [reflexivity|].
  intros H. apply andb_prop in H as [Hc Hs]. rewrite Hf, IH; auto.
Qed.

Lemma sall_impl (p q : ascii -> bool) s :
  (forall c, p c = true -> q c = true) -> sall p s = true -> sall q s = true.
Proof.
  intros Hpq. induction s as [|c s IH]; simpl; [reflexivity|].
  intros H. apply andb_prop in H as [Hc Hs]. rewrite Hpq, IH; auto.
Qed.

Lemma sall_smap p f s : sall p (smap f s) = sall (fun c => p (f c)) s.
Proof. induction s as [|c s IH]; simpl; congruence. Qed.

Lemma length_smap f s : String.length (smap f s) = String.length s.
Proof. induction s as [|c s IH]; simpl; congruence. Qed.

(* ------------------------------------------------------------------ *)
(* split_on *)

Definition no_sep (w : string) : Prop := sall (fun c => negb (is_part_sep c)) w = true.

Lemma split_on_nonnil p s : split_on p s <> [].
Proof. destruct s as [|c s]; simpl; [discriminate|]. destruct (p c); [discriminate|]. destruct (split_on p s); discriminate. Qed.

Lemma split_on_word_alone w : no_sep w -> split_on is_part_sep w = [w].
Proof.
  unfold no_sep. induction w as [|c w IH]; simpl; [reflexivity|].
  intros H. apply andb_prop in H as [Hc Hw]. apply negb_true_iff in Hc. rewrite Hc, IH; auto.
Qed.

Lemma split_on_word_sep w c s :
  no_sep w -> is_part_sep c = true ->
  split_on is_part_sep (w ++ String c s) = w :: split_on is_part_sep s.
Proof.
  unfold no_sep. intros Hw Hc. induction w as [|x w IH]; simpl.
  - now rewrite Hc.
  - simpl in Hw. apply andb_prop in Hw as [Hx Hw]. apply negb_true_iff in Hx.
    rewrite Hx, IH; auto.
Qed.

Lemma split_on_join c ws :
  is_part_sep c = true -> ws <> [] -> Forall no_sep ws ->
  split_on is_part_sep (join (String c "") ws) = ws.
Proof.
  intros Hc Hne Hall. induction ws as [|w ws IH]; [congruence|].
  inversion Hall as [|? ? Hw Hws]; subst.
  destruct ws as [|w' ws].
  - simpl. now apply split_on_word_alone.
  - assert (E : join (String c "") (w :: w' :: ws)
               = w ++ String c (join (String c "") (w' :: ws))) by reflexivity.
    rewrite E, split_on_word_sep by assumption.
    rewrite IH; [reflexivity|discriminate|assumption].
Qed.

(* ------------------------------------------------------------------ *)
(* case functions *)

Lemma title_from_absorb_map b g s :
  (forall c, is_cased (g c) = is_cased c) ->
  (forall c, to_lower (g c) = to_lower c) ->
  (forall c, to_upper (g c) = to_upper c) ->
  title_from b (smap g s) = title_from b s.
Proof.
  intros H1 H2 H3. revert b. induction s as [|c s IH]; intros b; simpl; [reflexivity|].
  rewrite H1, H2, H3, IH. reflexivity.
Qed.

Lemma title_from_absorb_title b b' s : title_from b (title_from b' s) = title_from b s.
Proof.
  revert b b'. induction s as [|c s IH]; intros b b'; simpl; [reflexivity|].
  destruct b, b'; simpl;
    rewrite ?cased_to_upper, ?cased_to_lower, ?to_lower_idem, ?to_upper_idem,
            ?to_lower_to_upper, ?to_upper_to_lower, IH; reflexivity.
Qed.

Lemma smap_absorb_title f b s :
  (forall c, f (to_lower c) = f c) -> (forall c, f (to_upper c) = f c) ->
  smap f (title_from b s) = smap f s.
Proof.
  intros H1 H2. revert b. induction s as [|c s IH]; intros b; simpl; [reflexivity|].
  rewrite IH. destruct b; now rewrite ?H1, ?H2.
Qed.

Lemma smap_smap f g s : smap f (smap g s) = smap (fun c => f (g c)) s.
Proof. induction s as [|c s IH]; simpl; congruence. Qed.

Lemma smap_ext f g s : (forall c, f c = g c) -> smap f s = smap g s.
Proof. intros H. induction s as [|c s IH]; simpl; congruence. Qed.

Definition std_casefn (f : casefn) : Prop := f = CLower \/ f = CUpper \/ f = CTitle.

Lemma casefn_absorb f g s :
  std_casefn f -> std_casefn g -> apply_casefn f (apply_casefn g s) = apply_casefn f s.
Proof.
  intros [->|[->| ->]] [->|[->| ->]]; simpl; unfold str_lower, str_upper, str_title.
  - rewrite smap_smap. apply smap_ext, to_lower_idem.
  - rewrite smap_smap. apply smap_ext, to_lower_to_upper.
  - apply smap_absorb_title; [apply to_lower_idem|apply to_lower_to_upper].
  - rewrite smap_smap. apply smap_ext, to_upper_to_lower.
  - rewrite smap_smap. apply smap_ext, to_upper_idem.
  - apply smap_absorb_title; [apply to_upper_to_lower|apply to_upper_idem].
  - apply title_from_absorb_map; [apply cased_to_lower|apply to_lower_idem|apply to_upper_to_lower].
  - apply title_from_absorb_map; [apply cased_to_upper|apply to_lower_to_upper|apply to_upper_idem].
  - apply title_from_absorb_title.
Qed.

Lemma lower_word_lower w : sall is_lower w = true -> str_lower w = w.
Proof. apply smap_id_on. apply lower_to_lower. Qed.

Lemma title_from_true_lower w : sall is_lower w = true -> title_from true w = w.
Proof.
  induction w as [|c w IH]; simpl; [reflexivity|].
  intros H. apply andb_prop in H as [Hc Hw].
  rewrite (lower_to_lower _ Hc), (lower_cased _ Hc), IH; auto.
Qed.

Lemma lower_word_title w : sall is_lower w = true -> str_title w = cap_word w.
Proof.
  destruct w as [|c w]; simpl; [reflexivity|].
  intros H. apply andb_prop in H as [Hc Hw]. unfold str_title. simpl.
  rewrite (lower_cased _ Hc), title_from_true_lower; auto.
Qed.

(* ------------------------------------------------------------------ *)
(* classification of styled words *)

Lemma sany_of_sall p w : sall p w = true -> 1 <= String.length w -> sany p w = true.
Proof. destruct w as [|c w]; simpl; [lia|]. intros H _. apply andb_prop in H as [-> _]. reflexivity. Qed.

Lemma sany_false_of_sall (p q : ascii -> bool) w :
  (forall c, p c = true -> q c = false) -> sall p w = true -> sany q w = false.
Proof.
  intros Hpq. induction w as [|c w IH]; simpl; [reflexivity|].
  intros H. apply andb_prop in H as [Hc Hw]. rewrite (Hpq _ Hc), IH; auto.
Qed.

Lemma islower_lower_word w : sall is_lower w = true -> 1 <= String.length w -> str_islower w = true.
Proof.
  intros H L. unfold str_islower.
  rewrite (sany_of_sall is_cased w), (sany_false_of_sall is_lower is_upper w); auto.
  - apply lower_not_upper.
  - eapply sall_impl; [apply lower_cased|assumption].
Qed.

Lemma isupper_upper_word w : sall is_upper w = true -> 1 <= String.length w -> str_isupper w = true.
Proof.
  intros H L. unfold str_isupper.
  rewrite (sany_of_sall is_cased w), (sany_false_of_sall is_upper is_lower w); auto.
  - apply upper_not_lower.
  - eapply sall_impl; [apply upper_cased|assumption].
Qed.

Lemma sall_upper_of_lower w : sall is_lower w = true -> sall is_upper (str_upper w) = true.
Proof.
  intros H. unfold str_upper. rewrite sall_smap.
  eapply sall_impl; [|exact H]. apply lower_to_lower_upper || apply lower_to_upper_upper.
Qed.

Lemma istitle_true_lower w sc : sall is_lower w = true -> istitle_from true sc w = (sc || negb (is_empty w)) .
Proof.
  revert sc. induction w as [|c w IH]; intros sc; simpl.
  - now rewrite orb_false_r.
  - intros H. apply andb_prop in H as [Hc Hw].
    rewrite (lower_not_upper _ Hc), Hc, IH by assumption. simpl. now rewrite orb_true_r.
Qed.

Lemma istitle_cap_word c w :
  is_lower c = true -> sall is_lower w = true -> str_istitle (String (to_upper c) w) = true.
Proof.
  intros Hc Hw. unfold str_istitle. simpl.
  rewrite (lower_to_upper_upper _ Hc), istitle_true_lower by assumption. reflexivity.
Qed.

(* a capital that follows a lower-case run makes the string not title-cased *)
Lemma istitle_lower_then_cap r C s sc :
  sall is_lower r = true -> is_upper C = true ->
  istitle_from true sc (r ++ String C s) = false.
Proof.
  intros Hr HC. revert sc. induction r as [|c r IH]; intros sc; simpl.
  - now rewrite HC.
  - simpl in Hr. apply andb_prop in Hr as [Hc Hr].
    rewrite (lower_not_upper _ Hc), Hc. apply IH; assumption.
Qed.

(* ------------------------------------------------------------------ *)
(* split_caps on concatenations of capitalised words *)

Definition no_cap (w : string) : Prop := sall (fun c => negb (is_cap c)) w = true.

Lemma caps_aux_nocap r s :
  no_cap r ->
  caps_aux is_cap (r ++ s) = let (lead, ws) := caps_aux is_cap s in (r ++ lead, ws).
Proof.
  unfold no_cap. induction r as [|c r IH]; simpl; intros H.
  - destruct (caps_aux is_cap s); reflexivity.
  - apply andb_prop in H as [Hc Hr]. apply negb_true_iff in Hc.
    rewrite IH by assumption. destruct (caps_aux is_cap s). now rewrite Hc.
Qed.

Definition cap_then_lower (w : string) : Prop :=
  exists C r, w = String C r /\ is_cap C = true /\ no_cap r.

Lemma caps_aux_titles ws :
  Forall cap_then_lower ws -> caps_aux is_cap (sconcat ws) = (EmptyString, ws).
Proof.
  induction ws as [|w ws IH]; intros H; simpl; [reflexivity|].
  inversion H as [|? ? (C & r & -> & HC & Hr) Hws]; subst.
  simpl. rewrite caps_aux_nocap by assumption. rewrite IH by assumption.
  now rewrite HC, app_empty_r.
Qed.

Lemma split_caps_titles ws :
  Forall cap_then_lower ws -> split_caps is_cap (sconcat ws) = ws.
Proof. intros H. unfold split_caps. now rewrite caps_aux_titles. Qed.

Lemma split_caps_lead_titles w ws :
  no_cap w -> w <> EmptyString -> Forall cap_then_lower ws ->
  split_caps is_cap (w ++ sconcat ws) = w :: ws.
Proof.
  intros Hw Hne H. unfold split_caps. rewrite caps_aux_nocap by assumption.
  rewrite caps_aux_titles by assumption. rewrite app_empty_r.
  destruct w; [congruence|reflexivity].
Qed.

Lemma lower_no_cap w : sall is_lower w = true -> no_cap w.
Proof. intros H. unfold no_cap. eapply sall_impl; [|exact H]. intros c Hc. now rewrite (lower_not_cap _ Hc). Qed.

Lemma lower_no_sep w : sall is_lower w = true -> no_sep w.
Proof. intros H. unfold no_sep. eapply sall_impl; [|exact H]. intros c Hc. now rewrite (lower_not_sep _ Hc). Qed.

Lemma upper_no_sep w : sall is_upper w = true -> no_sep w.
Proof. intros H. unfold no_sep. eapply sall_impl; [|exact H]. intros c Hc. now rewrite (upper_not_sep _ Hc). Qed.

Lemma cap_word_shape w : lower_word w ->
  exists c r, w = String c r /\ is_lower c = true /\ sall is_lower r = true /\ 1 <= String.length r.
Proof.
  intros [Hl Hn]. destruct w as [|c r]; simpl in *; [lia|].
  apply andb_prop in Hl as [Hc Hr]. exists c, r. repeat split; auto; lia.
Qed.

Lemma cap_word_cap_then_lower w : lower_word w -> cap_then_lower (cap_word w).
Proof.
  intros H. destruct (cap_word_shape w H) as (c & r & -> & Hc & Hr & _).
  exists (to_upper c), r. simpl. repeat split.
  - apply upper_is_cap, lower_to_upper_upper, Hc.
  - now apply lower_no_cap.
Qed.

Lemma no_sep_app a b : no_sep a -> no_sep b -> no_sep (a ++ b).
Proof. unfold no_sep. intros Ha Hb. now rewrite sall_app, Ha, Hb. Qed.

Lemma no_sep_cap_word w : lower_word w -> no_sep (cap_word w).
Proof.
  intros H. destruct (cap_word_shape w H) as (c & r & -> & Hc & Hr & _).
  unfold no_sep. simpl.
  rewrite (upper_not_sep _ (lower_to_upper_upper _ Hc)). simpl. now apply lower_no_sep.
Qed.

Lemma no_sep_sconcat ws : Forall no_sep ws -> no_sep (sconcat ws).
Proof. induction 1; simpl; [reflexivity|]. now apply no_sep_app. Qed.
