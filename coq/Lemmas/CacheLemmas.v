(* C10: memoisation is transparent. *)
From Coq Require Import List Bool Arith Lia.
Require Import Gen.GenCache Model.Cache.
Import ListNotations.

Lemma NoDup_app_intro_r (l : list nat) k : NoDup l -> ~ In k l -> NoDup (l ++ [k]).
Proof.
  induction 1 as [|x l Hx Hl IH]; intros Hk; simpl.
  - constructor; [tauto|constructor].
  - constructor.
    + intros Hin. apply in_app_or in Hin as [Hin|[<-|[]]]; [tauto|]. apply Hk. now left.
    + apply IH. intros Hin. apply Hk. now right.
Qed.

(* ================================================================== KeyCache *)
Section KC.
  Variable V : Type.
  Variable f : nat -> V.

  Definition vals_ok (c : list (nat * V)) : Prop := Forall (fun kv => snd kv = f (fst kv)) c.
  Definition keys (c : list (nat * V)) : list nat := map fst c.

  Lemma lookup_in k c v : lookup V k c = Some v -> In (k, v) c.
  Proof.
    induction c as [|[k' v'] r IH]; simpl; [discriminate|].
    destruct (Nat.eqb k k') eqn:E.
    - apply Nat.eqb_eq in E. subst. intros H; inversion H; now left.
    - intros H. right. now apply IH.
  Qed.

  Lemma lookup_none k c : lookup V k c = None -> ~ In k (keys c).
  Proof.
    induction c as [|[k' v'] r IH]; simpl; [tauto|].
    destruct (Nat.eqb k k') eqn:E; [discriminate|]. apply Nat.eqb_neq in E.
    intros H [H'|H']; [congruence|]. now apply IH.
  Qed.

  Lemma lookup_ok k c v : vals_ok c -> lookup V k c = Some v -> v = f k.
  Proof. intros H L. apply lookup_in in L. unfold vals_ok in H. rewrite Forall_forall in H. exact (H _ L). Qed.

  Lemma vals_ok_app c k : vals_ok c -> vals_ok (c ++ [(k, f k)]).
  Proof. intros H. apply Forall_app. split; [exact H|]. constructor; [reflexivity|constructor]. Qed.

  Lemma remove_key_sub k c : incl (remove_key V k c) c.
  Proof.
    induction c as [|[k' v'] r IH]; simpl; [apply incl_refl|].
    destruct (Nat.eqb k k'); [apply incl_tl, incl_refl|].
    intros x [<-|H]; [now left|right; now apply IH].
  Qed.

  Lemma vals_ok_incl c c' : incl c' c -> vals_ok c -> vals_ok c'.
  Proof. unfold vals_ok. rewrite !Forall_forall. intros I H x Hx. apply H, I, Hx. Qed.

  Lemma tl_incl {A} (l : list A) : incl (tl l) l.
  Proof. destruct l; simpl; [apply incl_refl|apply incl_tl, incl_refl]. Qed.

  (* ---- unbounded mode ---- *)
  Theorem ucall_transparent c k : vals_ok c ->
    let '(c', v, _) := ucall V f c k in v = f k /\ vals_ok c'.
  Proof.
    intros H. unfold ucall. destruct (lookup V k c) as [v|] eqn:L.
    - split; [eapply lookup_ok; eauto|exact H].
    - split; [reflexivity|now apply vals_ok_app].
  Qed.

  Lemma keys_app c k v : keys (c ++ [(k, v)]) = keys c ++ [k].
  Proof. unfold keys. now rewrite map_app. Qed.

  Theorem ucall_nodup c k : NoDup (keys c) -> NoDup (keys (fst (fst (ucall V f c k)))).
  Proof.
    intros H. unfold ucall. destruct (lookup V k c) eqn:L; simpl; [exact H|].
    rewrite keys_app. apply NoDup_app_intro_r; [exact H|now apply lookup_none].
  Qed.

  (* the inner function is called exactly on a miss, i.e. at most once per key *)
  Theorem ucall_computes_once c k : fst (fst (ucall V f c k)) = c \/ (~ In k (keys c) /\ snd (ucall V f c k) = true).
  Proof.
    unfold ucall. destruct (lookup V k c) eqn:L; simpl; [now left|right]. split; [now apply lookup_none|reflexivity].
  Qed.

  (* ---- LRU mode ---- *)
  Lemma nodup_remove k c : NoDup (keys c) -> NoDup (keys (remove_key V k c)) /\ ~ In k (keys (remove_key V k c)).
  Proof.
    induction c as [|[k' v'] r IH]; simpl; intros H; [split; [constructor|tauto]|].
    inversion H as [|? ? Hn Hr]; subst.
    destruct (Nat.eqb k k') eqn:E.
    - apply Nat.eqb_eq in E. subst. now split.
    - apply Nat.eqb_neq in E. destruct (IH Hr) as [N1 N2]. split.
      + simpl. constructor; [|exact N1]. intros Hin. apply Hn.
        unfold keys in *. apply in_map_iff in Hin as (x & <- & Hx). apply in_map. now apply (remove_key_sub k r).
      + simpl. intros [H'|H']; [congruence|tauto].
  Qed.

  Lemma length_remove k c v : lookup V k c = Some v -> S (List.length (remove_key V k c)) = List.length c.
  Proof.
    induction c as [|[k' v'] r IH]; simpl; [discriminate|].
    destruct (Nat.eqb k k'); [reflexivity|]. intros H. simpl. now rewrite IH.
  Qed.

  Definition lru_inv (m : nat) (c : list (nat * V)) : Prop :=
    vals_ok c /\ NoDup (keys c) /\ List.length c <= m.

  Theorem lcall_refines_memo m c k : 1 <= m -> lru_inv m c ->
    let '(c', v, _) := lcall V f m c k in
    v = f k /\ lru_inv m c' /\ (exists pre, keys c' = pre ++ [k]).   (* k is now the most recent *)
  Proof.
    intros Hm (Hv & Hn & Hl). unfold lcall. destruct (lookup V k c) as [v|] eqn:L.
    - pose proof (lookup_ok _ _ _ Hv L) as ->. split; [reflexivity|]. split.
      + destruct (nodup_remove k c Hn) as [N1 N2]. repeat split.
        * apply Forall_app. split; [eapply vals_ok_incl; [apply remove_key_sub|exact Hv]|constructor; [reflexivity|constructor]].
        * rewrite keys_app. now apply NoDup_app_intro_r.
        * rewrite app_length. simpl. pose proof (length_remove _ _ _ L). lia.
      + rewrite keys_app. eauto.
    - split; [reflexivity|]. pose proof (lookup_none _ _ L) as Nk. split.
      + destruct (List.length c <? m) eqn:E.
        * apply Nat.ltb_lt in E. repeat split.
          -- now apply vals_ok_app.
          -- rewrite keys_app. now apply NoDup_app_intro_r.
          -- rewrite app_length. simpl. lia.
        * repeat split.
          -- apply Forall_app. split; [eapply vals_ok_incl; [apply tl_incl|exact Hv]|constructor; [reflexivity|constructor]].
          -- rewrite keys_app. apply NoDup_app_intro_r.
             ++ destruct c; simpl in *; [constructor|now inversion Hn].
             ++ intros Hin. apply Nk. destruct c; simpl in *; [tauto|now right].
          -- rewrite app_length. simpl. destruct c; simpl in *; lia.
      + rewrite keys_app. eauto.
  Qed.

  (* the entry evicted on a miss in a full cache is the least recently used one *)
  Theorem lcall_evicts_oldest m c k : lookup V k c = None -> List.length c = m -> 1 <= m ->
    fst (fst (lcall V f m c k)) = tl c ++ [(k, f k)].
  Proof.
    intros L E Hm. unfold lcall. rewrite L. simpl.
    assert (H : (List.length c <? m) = false) by (apply Nat.ltb_ge; lia). now rewrite H.
  Qed.

  (* any history of calls returns exactly the values of the inner function *)
  Theorem run_transparent (call : list (nat * V) -> nat -> list (nat * V) * V * bool) (I : list (nat * V) -> Prop) :
    I [] ->
    (forall c k, I c -> let '(c', v, _) := call c k in v = f k /\ I c') ->
    forall ks, map fst (snd (run_calls V call ks)) = map f ks.
  Proof.
    intros I0 Hstep ks. unfold run_calls.
    assert (G : forall c out, I c ->
      map fst (snd (fold_left (fun st k => let '(c, out) := st in let '(c', v, b) := call c k in (c', out ++ [(v, b)])) ks (c, out)))
      = map fst out ++ map f ks).
    { induction ks as [|k ks IH]; intros c out Hc; simpl; [now rewrite app_nil_r|].
      specialize (Hstep c k Hc). destruct (call c k) as [[c' v] b]. destruct Hstep as [-> Hc'].
      rewrite (IH c' _ Hc'). rewrite map_app. simpl. now rewrite <- app_assoc. }
    now rewrite (G [] [] I0).
  Qed.

  Corollary unbounded_history_transparent ks : map fst (snd (run_calls V (ucall V f) ks)) = map f ks.
  Proof.
    apply (run_transparent _ vals_ok); [constructor|].
    intros c k H. exact (ucall_transparent c k H).
  Qed.

  Corollary lru_history_transparent m ks : 1 <= m -> map fst (snd (run_calls V (lcall V f m) ks)) = map f ks.
  Proof.
    intros Hm. apply (run_transparent _ (lru_inv m)).
    - repeat split; [constructor|constructor|simpl; lia].
    - intros c k H. pose proof (lcall_refines_memo m c k Hm H) as G.
      destruct (lcall V f m c k) as [[c' v] b]. tauto.
  Qed.

  (* ---- several threads, critical sections as in the code ---- *)
  Definition conc_inv (m : option nat) (s : cstate V) : Prop :=
    vals_ok (c_cache V s) /\ NoDup (keys (c_cache V s)) /\
    Forall (fun p => snd (snd p) = f (fst (snd p))) (c_pending V s) /\
    match m with Some mx => List.length (c_cache V s) <= mx | None => True end.

  Lemma pend_get_in t p kv : pend_get V t p = Some kv -> In (t, kv) p.
  Proof.
    induction p as [|[t' kv'] r IH]; simpl; [discriminate|].
    destruct (Nat.eqb t t') eqn:E; [apply Nat.eqb_eq in E; subst; intros H; inversion H; now left|].
    intros H. right. now apply IH.
  Qed.
  Lemma pend_del_incl t p : incl (pend_del V t p) p.
  Proof.
    induction p as [|[t' kv'] r IH]; simpl; [apply incl_refl|].
    destruct (Nat.eqb t t'); [apply incl_tl, incl_refl|]. intros x [<-|H]; [now left|right; now apply IH].
  Qed.

  Theorem conc_step_inv m s st :
    match m with Some mx => 1 <= mx | None => True end ->
    conc_inv m s -> conc_inv m (conc_step V f m s st).
  Proof.
    intros Hm (Hv & Hn & Hp & Hl). destruct st as [t k|t]; simpl.
    - destruct (lookup V k (c_cache V s)) as [v|] eqn:L.
      + destruct m as [mx|]; [|repeat split; assumption].
        pose proof (lookup_ok _ _ _ Hv L) as ->.
        destruct (nodup_remove k _ Hn) as [N1 N2]. repeat split; simpl.
        * apply Forall_app. split; [eapply vals_ok_incl; [apply remove_key_sub|exact Hv]|constructor; [reflexivity|constructor]].
        * rewrite keys_app. now apply NoDup_app_intro_r.
        * exact Hp.
        * rewrite app_length. simpl. pose proof (length_remove _ _ _ L). lia.
      + repeat split; simpl; try assumption. constructor; [reflexivity|exact Hp].
    - destruct (pend_get V t (c_pending V s)) as [[k v]|] eqn:P; [|repeat split; assumption].
      assert (Ev : v = f k).
      { apply pend_get_in in P. rewrite Forall_forall in Hp. exact (Hp _ P). }
      subst v.
      assert (Hp' : Forall (fun p => snd (snd p) = f (fst (snd p))) (pend_del V t (c_pending V s))).
      { rewrite Forall_forall in *. intros x Hx. apply Hp. now apply (pend_del_incl t). }
      destruct (lookup V k (c_cache V s)) eqn:L; [repeat split; assumption|].
      pose proof (lookup_none _ _ L) as Nk.
      destruct m as [mx|]; simpl.
      + destruct (List.length (c_cache V s) <? mx) eqn:E.
        * apply Nat.ltb_lt in E. repeat split; simpl; auto.
          -- now apply vals_ok_app.
          -- rewrite keys_app. now apply NoDup_app_intro_r.
          -- rewrite app_length. simpl. lia.
        * repeat split; simpl; auto.
          -- apply Forall_app. split; [eapply vals_ok_incl; [apply tl_incl|exact Hv]|constructor; [reflexivity|constructor]].
          -- rewrite keys_app. apply NoDup_app_intro_r.
             ++ destruct (c_cache V s); simpl in *; [constructor|now inversion Hn].
             ++ intros Hin. apply Nk. destruct (c_cache V s); simpl in *; [tauto|now right].
          -- rewrite app_length. simpl. destruct (c_cache V s); simpl in *; lia.
      + repeat split; simpl; auto.
        * now apply vals_ok_app.
        * rewrite keys_app. now apply NoDup_app_intro_r.
  Qed.

  (* every interleaving of any number of threads keeps the cache a partial copy of f *)
  Theorem conc_all_interleavings m steps :
    match m with Some mx => 1 <= mx | None => True end ->
    conc_inv m (fold_left (conc_step V f m) steps (mkC V [] [])).
  Proof.
    intros Hm.
    assert (G : forall s, conc_inv m s -> conc_inv m (fold_left (conc_step V f m) steps s)).
    { induction steps as [|st steps IH]; intros s Hs; simpl; [exact Hs|]. apply IH. now apply conc_step_inv. }
    apply G. repeat split; simpl; try constructor. destruct m; [simpl; lia|exact I].
  Qed.
End KC.

(* ================================================================== converter cache vs. object identity *)
Section W.
  Variable S : Type.

  Definition winv (w : world S) : Prop :=
    NoDup (ids S (live S w)) /\
    (forall i s, cache_get S i (cache S w) = Some s -> exists o, In o (live S w) /\ oid S o = i /\ ostruct S o = s) /\
    (forall i, In i (user S w) -> In i (ids S (live S w))).

  Lemma mem_in i l : mem i l = true <-> In i l.
  Proof.
    unfold mem. rewrite existsb_exists. split.
    - intros (x & Hx & E). apply Nat.eqb_eq in E. now subst.
    - intros H. exists i. split; [exact H|apply Nat.eqb_refl].
  Qed.

  Lemma find_obj_spec i l o : find_obj S i l = Some o -> In o l /\ oid S o = i.
  Proof.
    induction l as [|x r IH]; simpl; [discriminate|].
    destruct (Nat.eqb i (oid S x)) eqn:E.
    - apply Nat.eqb_eq in E. intros H; inversion H; subst. split; [now left|reflexivity].
    - intros H. destruct (IH H). split; [now right|assumption].
  Qed.

  Lemma nodup_unique l o o' : NoDup (ids S l) -> In o l -> In o' l -> oid S o = oid S o' -> o = o'.
  Proof.
    induction l as [|x r IH]; simpl; intros N H H' E; [destruct H|].
    inversion N as [|? ? Nx Nr]; subst.
    destruct H as [H|H], H' as [H'|H'].
    - congruence.
    - exfalso. apply Nx. subst x. rewrite E. unfold ids. now apply in_map.
    - exfalso. apply Nx. subst x. rewrite <- E. unfold ids. now apply in_map.
    - now apply IH.
  Qed.

  Lemma nodup_filter (p : obj S -> bool) l : NoDup (ids S l) -> NoDup (ids S (filter p l)).
  Proof.
    induction l as [|x r IH]; simpl; intros N; [constructor|].
    inversion N as [|? ? Nx Nr]; subst. destruct (p x); simpl; [|now apply IH].
    constructor; [|now apply IH]. intros Hin. apply Nx.
    unfold ids in *. apply in_map_iff in Hin as (y & E & Hy). apply filter_In in Hy as [Hy _].
    rewrite <- E. now apply in_map.
  Qed.

  Lemma cache_get_in i c s : cache_get S i c = Some s -> In i (map fst c).
  Proof.
    induction c as [|[i' s'] r IH]; simpl; [discriminate|].
    destruct (Nat.eqb i i') eqn:E; [apply Nat.eqb_eq in E; subst; now left|]. intros H. right. now apply IH.
  Qed.

  (* with pinning, the invariant holds after every possible history *)
  Theorem wstep_inv w o : winv w -> winv (fst (wstep S true w o)).
  Proof.
    intros (N & C & U). destruct o as [i s|i|i]; simpl.
    - destruct (mem i (ids S (live S w))) eqn:M; simpl; [repeat split; assumption|].
      assert (Ni : ~ In i (ids S (live S w))) by (rewrite <- mem_in; congruence).
      repeat split; simpl.
      + constructor; assumption.
      + intros j t H. destruct (C j t H) as (o & Ho & E1 & E2). exists o. split; [now right|now split].
      + intros j [<-|H]; [now left|right; now apply U].
    - destruct (mem i (map fst (cache S w))) eqn:M; simpl.
      + repeat split; simpl; auto. intros j H. apply filter_In in H as [H _]. now apply U.
      + assert (Ni : ~ In i (map fst (cache S w))) by (rewrite <- mem_in; congruence).
        repeat split; simpl.
        * now apply nodup_filter.
        * intros j t H. destruct (C j t H) as (o & Ho & E1 & E2). exists o. split; [|now split].
          apply filter_In. split; [exact Ho|]. apply negb_true_iff, Nat.eqb_neq. intros E.
          assert (Eji : j = i) by congruence. subst j. apply Ni. apply (cache_get_in _ _ t). rewrite <- E. exact H.
        * intros j H. apply filter_In in H as [H Hne]. apply negb_true_iff, Nat.eqb_neq in Hne.
          specialize (U j H). unfold ids in *. apply in_map_iff in U as (o & E & Ho). apply in_map_iff. exists o. split; [exact E|].
          apply filter_In. split; [exact Ho|]. apply negb_true_iff, Nat.eqb_neq. congruence.
    - destruct (mem i (user S w)); simpl; [|repeat split; assumption].
      destruct (find_obj S i (live S w)) as [ob|] eqn:F; simpl; [|repeat split; assumption].
      destruct (cache_get S i (cache S w)) eqn:G; simpl; [repeat split; assumption|].
      apply find_obj_spec in F as [Hin E]. repeat split; simpl; auto.
      intros j t. destruct (Nat.eqb j i) eqn:Ej.
      + apply Nat.eqb_eq in Ej. subst j. intros H; inversion H; subst. exists ob. now repeat split.
      + apply C.
  Qed.

  Theorem wrun_inv ops : winv (wrun S true ops).
  Proof.
    unfold wrun.
    assert (G : forall w, winv w -> winv (fold_left (fun w o => fst (wstep S true w o)) ops w)).
    { induction ops as [|o ops IH]; intros w H; simpl; [exact H|]. apply IH. now apply wstep_inv. }
    apply G. repeat split; simpl; [constructor|discriminate|tauto].
  Qed.

  (* a memoised lookup answers with the structure of the object it was asked about *)
  Theorem lookup_transparent w i s :
    winv w -> snd (wstep S true w (Lookup S i)) = Some s ->
    exists o, find_obj S i (live S w) = Some o /\ s = ostruct S o.
  Proof.
    intros (N & C & U). simpl. destruct (mem i (user S w)); simpl; [|discriminate].
    destruct (find_obj S i (live S w)) as [ob|] eqn:F; simpl; [|discriminate].
    destruct (cache_get S i (cache S w)) as [t|] eqn:G; simpl; intros H; inversion H; subst.
    - exists ob. split; [reflexivity|].
      destruct (C i s G) as (o & Ho & E1 & E2). apply find_obj_spec in F as [Hin E].
      assert (o = ob) by (eapply nodup_unique; eauto; congruence). now subst.
    - exists ob. now split.
  Qed.

  (* ... after ANY history of builds, drops (= collections), id re-use and lookups *)
  Corollary history_free ops i s :
    snd (wstep S true (wrun S true ops) (Lookup S i)) = Some s ->
    exists o, find_obj S i (live S (wrun S true ops)) = Some o /\ s = ostruct S o.
  Proof. apply lookup_transparent, wrun_inv. Qed.
End W.

(* without pinning the statement is false: four operations suffice *)
Theorem unpinned_refuted :
  exists ops i s o, snd (wstep nat false (wrun nat false ops) (Lookup nat i)) = Some s /\
                    find_obj nat i (live nat (wrun nat false ops)) = Some o /\ s <> ostruct nat o.
Proof.
  exists [Build nat 7 100; Lookup nat 7; Drop nat 7; Build nat 7 200], 7, 100, (mkObj nat 7 200).
  vm_compute. repeat split; try reflexivity. discriminate.
Qed.
