(* C01 at full strength on the structural fragment: ONE membership relation, written from the
   documented element-wise rules and not from the code of the fast pass, and the theorem that the
   fast pass accepts exactly its members and returns exactly their image:

       tc t v = Ok x  <->  member t v x          for every structural t, every v, every x.

   [member] is defined by recursion on the type (a specification: it never mentions map_out,
   zip_out, first_ok or guard).  The fragment: Any, None, the scalars, literals, the four
   sequence classes, fixed tuples, mappings, struct literal types, unions, conditions -- closed
   under nesting.  Outside: enums, dataclasses and tagged unions, whose acceptance rules are
   the theorems of C02 / C15 / C12.
   In a union the relation says "the left-most member of which v is a member, every earlier
   one REFUSING v" (an earlier member that lets an exception escape ends the conversion: C04
   shows that no such exception exists for well-formed types). *)
From Coq Require Import ZArith List Bool String Lia.
Require Import Base.Outcome Model.Values Model.Vocab Model.Types Model.Conv Gen.GenScalars Gen.GenGates Gen.GenExcept Gen.GenConds.
Import ListNotations.

Section Spec.
  Context {A : Type}.
  Variable R : A -> pyval -> pyval -> Prop.
  (* position by position: the i-th slot type relates the i-th element to the i-th image *)
  Fixpoint slots (ts : list A) (vs ys : list pyval) : Prop :=
    match ts, vs, ys with
    | [], [], [] => True
    | t :: ts', v :: vs', y :: ys' => R t v y /\ slots ts' vs' ys'
    | _, _, _ => False
    end.
End Spec.

Section Leftmost.
  Context {A : Type}.
  Variable Acc Rej : A -> Prop.
  Fixpoint leftmost (ms : list A) : Prop :=
    match ms with
    | [] => False
    | m :: r => Acc m \/ (Rej m /\ leftmost r)
    end.
End Leftmost.

(* a struct literal type {name: T, ...}: entry by entry in data order, each key a declared name
   ([with_key]: the first declared name the key is), each value a member of that name's type *)
Section Entries.
  Context {A : Type}.
  Variable R : A -> pyval -> pyval -> Prop.
  Variable fs : list (string * A).
  Fixpoint entries (kvs out : list (pyval * pyval)) : Prop :=
    match kvs, out with
    | [], [] => True
    | (k, x) :: r, (k', y) :: o =>
        k' = k /\ match with_key k (fun t => R t x y) fs with Some P => P | None => False end /\ entries r o
    | _, _ => False
    end.
End Entries.

Fixpoint member (t : ty) (v x : pyval) {struct t} : Prop :=
  match t with
  | TAny => x = v
  | TNone => v = VNone /\ x = VNone
  | TScalar s => scalar_allowed s (kind_of v) = true /\ scalar_ctor s v = ROk x
  | TLiteral vals => x = v /\ existsb (lit_match v) vals = true
  | TSeq c e =>
      gate_sequence (kind_of v) = true /\
      exists ys, Forall2 (member e) (items_of v) ys /\ seq_ctor c ys = ROk x
  | TTuple es =>
      gate_sequence (kind_of v) = true /\
      exists ys, slots member es (items_of v) ys /\ x = VTuple ys
  | TDict kt vt =>
      gate_mapping (kind_of v) = true /\
      exists kvs, Forall2 (fun kv kv' => member kt (fst kv) (fst kv') /\ member vt (snd kv) (snd kv'))
                          (pairs_of v) kvs /\ dict_ctor kvs = ROk x
  | TStruct fs =>
      gate_mapping (kind_of v) = true /\ lit_missing fs (pairs_of v) = [] /\
      exists d, entries member fs (pairs_of v) d /\ x = VDict d
  | TUnion ms => leftmost (fun m => member m v x) (fun m => tc m v = Reject) ms
  | TCond inner c => member inner v x /\ eval_cond c x = ROk true
  | _ => False
  end.

Inductive structural : ty -> Prop :=
| SAny : structural TAny
| SNone : structural TNone
| SScalar s : structural (TScalar s)
| SLiteral vals : structural (TLiteral vals)
| SSeq c e : structural e -> structural (TSeq c e)
| STuple es : Forall structural es -> structural (TTuple es)
| SDict k v : structural k -> structural v -> structural (TDict k v)
| SStruct fs : Forall (fun nt => structural (snd nt)) fs -> structural (TStruct fs)
| SUnion ms : Forall structural ms -> structural (TUnion ms)
| SCond t c : structural t -> structural (TCond t c).

Definition exact (t : ty) : Prop := forall v x, tc t v = Ok x <-> member t v x.

Lemma guard_ok {A} s (r : raw A) x : guard s r = Ok x <-> r = ROk x.
Proof.
  unfold guard. destruct r as [a|e].
  - split; intros H; inversion H; reflexivity.
  - destruct (caught s e); split; intros H; discriminate.
Qed.

Lemma map_out_ok_iff {A B} (f : A -> outcome B) l ys :
  map_out f l = Ok ys <-> Forall2 (fun a y => f a = Ok y) l ys.
Proof.
  split.
  - revert ys. induction l as [|a l IH]; simpl; intros ys H.
    + inversion H. constructor.
    + destruct (f a) as [y| |e] eqn:E; try discriminate.
      destruct (map_out f l) as [ys'| |e]; try discriminate. inversion H; subst.
      constructor; auto.
  - induction 1 as [|a y l ys E _ IH]; simpl; [reflexivity|]. now rewrite E, IH.
Qed.

Lemma Forall2_iff {A B} (P Q : A -> B -> Prop) l m :
  (forall a b, P a b <-> Q a b) -> Forall2 P l m <-> Forall2 Q l m.
Proof.
  intros H. split; induction 1; constructor; auto; now apply H.
Qed.

Lemma zip_out_slots es : Forall exact es -> forall vs ys,
  List.length vs = List.length es ->
  zip_out tc es vs = Ok ys <-> slots member es vs ys.
Proof.
  induction 1 as [|t es Ht _ IH]; intros [|v vs] ys L; simpl in *; try discriminate.
  - split; intros H.
    + inversion H. exact I.
    + destruct ys; [reflexivity|contradiction].
  - assert (L' : List.length vs = List.length es) by lia.
    split; intros H.
    + destruct (tc t v) as [y| |e] eqn:E; try discriminate.
      destruct (zip_out tc es vs) as [zs| |e] eqn:Z; try discriminate.
      inversion H; subst. split; [now apply Ht|]. now apply IH.
    + destruct ys as [|y ys']; [contradiction|]. destruct H as [M S].
      apply Ht in M. rewrite M. apply (IH vs ys' L') in S. now rewrite S.
Qed.

Lemma first_ok_leftmost ms v x : Forall exact ms ->
  first_ok (fun m => tc m v) ms = Ok x <-> leftmost (fun m => member m v x) (fun m => tc m v = Reject) ms.
Proof.
  induction 1 as [|m ms Hm _ IH]; simpl.
  - split; [discriminate|contradiction].
  - split; intros H.
    + destruct (tc m v) as [y| |e] eqn:E; try discriminate.
      * inversion H; subst. left. now apply Hm.
      * right. split; [reflexivity|]. now apply IH.
    + destruct H as [M|[Rj L]].
      * apply Hm in M. now rewrite M.
      * rewrite Rj. now apply IH.
Qed.

Lemma with_key_factor {A C} k (g : A -> C) (fs : list (string * A)) :
  with_key k g fs = option_map g (with_key k (fun t => t) fs).
Proof. induction fs as [|[n t] fs IH]; simpl; [reflexivity|]. destruct (key_is k n); [reflexivity|exact IH]. Qed.

Lemma with_key_in {A} k (fs : list (string * A)) t :
  with_key k (fun t => t) fs = Some t -> In t (map snd fs).
Proof.
  induction fs as [|[n t'] fs IH]; simpl; [discriminate|]. destruct (key_is k n).
  - intros H; inversion H; auto.
  - intros H; right; auto.
Qed.

Lemma lit_try_entries (fs : list (string * ty)) : Forall (fun nt => exact (snd nt)) fs -> forall kvs d,
  lit_try_loop tc fs kvs = Ok d <-> entries member fs kvs d.
Proof.
  intros E. induction kvs as [|[k x] kvs IH]; intros d; simpl.
  - split; intros H; [inversion H; exact I|destruct d; [reflexivity|contradiction]].
  - rewrite (with_key_factor k (fun t => tc t x)).
    destruct (with_key k (fun t => t) fs) as [t|] eqn:W; simpl.
    + assert (Et : exact t).
      { apply with_key_in in W. apply in_map_iff in W. destruct W as [[n t'] [<- I']].
        rewrite Forall_forall in E. exact (E _ I'). }
      split.
      * destruct (tc t x) as [y| |z] eqn:T; try discriminate.
        destruct (lit_try_loop tc fs kvs) as [rest| |z] eqn:L; try discriminate.
        intros H; inversion H; subst. split; [reflexivity|].
        rewrite (with_key_factor k (fun t0 => member t0 x y)), W. simpl.
        split; [now apply Et|now apply IH].
      * destruct d as [|[k' y] o]; [contradiction|]. intros [-> [M En]].
        rewrite (with_key_factor k (fun t0 => member t0 x y)), W in M. simpl in M.
        apply Et in M. rewrite M. apply IH in En. now rewrite En.
    + split; [discriminate|]. destruct d as [|[k' y] o]; [contradiction|]. intros [_ [M _]].
      rewrite (with_key_factor k (fun t0 => member t0 x y)), W in M. simpl in M. contradiction.
Qed.

Theorem tc_exactly_member : forall t, structural t -> exact t.
Proof.
  intros t. induction t as [| |s|c e IHe|es IHes|t1 t2 IHk IHv|fs IHfs|ms IHms|vals|n mem|h fs IHfs|t c IHe|tag lay vs IHvs] using ty_ind';
    intros S; inversion S; subst; intros v x.
  - (* Any *) simpl. split; intros H; [inversion H; reflexivity|now subst].
  - (* None *) simpl. destruct v; split; intros H; try discriminate;
      try (destruct H as [H _]; discriminate).
    + inversion H. auto.
    + destruct H as [_ H]. now subst.
  - (* scalar *) simpl. destruct (scalar_allowed s (kind_of v)).
    + rewrite guard_ok. split; [auto|now intros [_ H]].
    + split; [discriminate|intros [H _]; discriminate].
  - (* sequence *)
    specialize (IHe ltac:(assumption)).
    cbn [tc member]. destruct (gate_sequence (kind_of v)).
    + split.
      * intros H. split; [reflexivity|].
        destruct (map_out (tc e) (items_of v)) as [ys| |z] eqn:M.
        -- apply guard_ok in H. exists ys. split; [|exact H].
           apply map_out_ok_iff in M. eapply Forall2_iff; [|exact M]. intros a b. symmetry. apply IHe.
        -- discriminate.
        -- destruct (caught S_seq_try z); discriminate.
      * intros [_ [ys [F C]]].
        assert (M : map_out (tc e) (items_of v) = Ok ys).
        { apply map_out_ok_iff. eapply Forall2_iff; [|exact F]. intros a b. apply IHe. }
        rewrite M. now apply guard_ok.
    + split; [discriminate|intros [H _]; discriminate].
  - (* fixed tuple *)
    assert (E : Forall exact es).
    { match goal with H : Forall (fun t => structural t -> exact t) es, S' : Forall structural es |- _ =>
        clear - H S'; induction H; inversion S'; subst; constructor; auto end. }
    cbn [tc member]. destruct (gate_sequence (kind_of v)); cbn [andb].
    + destruct (Nat.eqb (List.length (items_of v)) (List.length es)) eqn:L.
      * apply Nat.eqb_eq in L. split.
        -- intros H. split; [reflexivity|].
           destruct (zip_out tc es (items_of v)) as [ys| |z] eqn:Z; try discriminate.
           inversion H; subst. exists ys. split; [|reflexivity]. now apply zip_out_slots.
        -- intros [_ [ys [Sl ->]]]. apply (zip_out_slots es E _ _ L) in Sl. now rewrite Sl.
      * split; [discriminate|]. intros [_ [ys [Sl _]]]. exfalso.
        apply Nat.eqb_neq in L. apply L. clear - Sl.
        revert ys Sl. generalize (items_of v) as vs. induction es as [|t es IH]; intros [|a vs] ys Sl; simpl in *;
          try reflexivity; try contradiction.
        destruct ys as [|y ys]; [contradiction|]. destruct Sl as [_ Sl]. f_equal. eapply IH; eauto.
    + split; [discriminate|intros [H _]; discriminate].
  - (* mapping *)
    specialize (IHk ltac:(assumption)). specialize (IHv ltac:(assumption)).
    cbn [tc member]. destruct (gate_mapping (kind_of v)).
    + set (f := fun kv : pyval * pyval =>
                  match tc t1 (fst kv) with
                  | Ok k' => match tc t2 (snd kv) with Ok v' => Ok (k', v') | Reject => Reject | Escape x0 => Escape x0 end
                  | Reject => Reject | Escape x0 => Escape x0 end).
      assert (Fe : forall kv kv', f kv = Ok kv' <-> member t1 (fst kv) (fst kv') /\ member t2 (snd kv) (snd kv')).
      { intros [k a] [k' a']. unfold f. simpl. split.
        - destruct (tc t1 k) as [k1| |z] eqn:K; try discriminate.
          destruct (tc t2 a) as [a1| |z] eqn:V; try discriminate.
          intros H; inversion H; subst. split; [now apply IHk|now apply IHv].
        - intros [Mk Mv]. apply IHk in Mk. apply IHv in Mv. now rewrite Mk, Mv. }
      split.
      * intros H. split; [reflexivity|].
        destruct (map_out f (pairs_of v)) as [kvs| |z] eqn:M.
        -- apply guard_ok in H. exists kvs. split; [|exact H].
           apply map_out_ok_iff in M. eapply Forall2_iff; [|exact M]. intros a b. symmetry. apply Fe.
        -- discriminate.
        -- destruct (caught S_dict_try z); discriminate.
      * intros [_ [kvs [F C]]].
        assert (M : map_out f (pairs_of v) = Ok kvs).
        { apply map_out_ok_iff. eapply Forall2_iff; [|exact F]. intros a b. apply Fe. }
        rewrite M. now apply guard_ok.
    + split; [discriminate|intros [H _]; discriminate].
  - (* struct literal type *)
    assert (E : Forall (fun nt => exact (snd nt)) fs).
    { match goal with H : Forall (fun x => structural (snd x) -> exact (snd x)) fs, S' : Forall _ fs |- _ =>
        clear - H S'; induction H; inversion S'; subst; constructor; auto end. }
    cbn [tc member]. destruct (gate_mapping (kind_of v)).
    + split.
      * destruct (lit_try_loop tc fs (pairs_of v)) as [d| |z] eqn:L; try discriminate.
        destruct (lit_missing fs (pairs_of v)) eqn:Mi; try discriminate.
        intros H; inversion H; subst. split; [reflexivity|]. split; [reflexivity|].
        exists d. split; [|reflexivity]. now apply lit_try_entries.
      * intros [_ [Mi [d [En ->]]]]. apply (lit_try_entries fs E) in En. now rewrite En, Mi.
    + split; [discriminate|intros [H _]; discriminate].
  - (* union *)
    assert (E : Forall exact ms).
    { match goal with H : Forall (fun t => structural t -> exact t) ms, S' : Forall structural ms |- _ =>
        clear - H S'; induction H; inversion S'; subst; constructor; auto end. }
    cbn [tc member]. now apply first_ok_leftmost.
  - (* literal *) cbn [tc member]. destruct (existsb (lit_match v) vals).
    + split; intros H; [inversion H; auto|destruct H; now subst].
    + split; [discriminate|intros [_ H]; discriminate].
  - (* condition *)
    specialize (IHe ltac:(assumption)).
    cbn [tc member]. split.
    + destruct (tc t v) as [y| |z] eqn:T; try discriminate.
      destruct (guard S_cond_try (eval_cond c y)) as [[|]| |z] eqn:G; try discriminate.
      intros H; inversion H; subst. split; [now apply IHe|]. now apply guard_ok in G.
    + intros [M C]. apply IHe in M. rewrite M.
      assert (G : guard S_cond_try (eval_cond c x) = Ok true) by now apply guard_ok.
      now rewrite G.
Qed.

(* consequences the property text states outright *)

(* the verdict and the image are functions of (T, v): two accepted images of one value coincide *)
Corollary member_functional t : structural t -> forall v x y, member t v x -> member t v y -> x = y.
Proof.
  intros S v x y Mx My. apply (tc_exactly_member t S) in Mx. apply (tc_exactly_member t S) in My. congruence.
Qed.

(* Optional[T]: None, or a member of T that is not None's *)
Corollary member_optional t v x : structural t ->
  member (TUnion [t; TNone]) v x <-> member t v x \/ (tc t v = Reject /\ v = VNone /\ x = VNone).
Proof.
  intros S. simpl. split.
  - intros [M|[Rj [[-> ->]|[_ []]]]]; [now left|right; auto].
  - intros [M|[Rj [-> ->]]]; [now left|]. right. split; [exact Rj|]. left. auto.
Qed.

(* non-vacuity: a nested structural type, a member and a non-member *)
Definition denotes_example_ty : ty :=
  TUnion [TSeq SeqList (TTuple [TScalar SInt; TUnion [TScalar SStr; TNone]]); TNone].
Example denotes_example_structural : structural denotes_example_ty.
Proof. repeat (constructor; try (repeat constructor)). Qed.
Example denotes_example_member :
  member denotes_example_ty (VList [VTuple [VInt 1; VNone]; VList [VInt 2; VStr "a"]])
                            (VList [VTuple [VInt 1; VNone]; VTuple [VInt 2; VStr "a"]]).
Proof. apply (tc_exactly_member _ denotes_example_structural). vm_compute. reflexivity. Qed.
Example denotes_example_non_member :
  forall x, ~ member denotes_example_ty (VList [VTuple [VStr "1"; VNone]]) x.
Proof. intros x M. apply (tc_exactly_member _ denotes_example_structural) in M. vm_compute in M. discriminate. Qed.

Definition denotes_struct_ty : ty :=
  TStruct [("a"%string, TScalar SInt); ("b"%string, TSeq SeqTuple (TScalar SStr))].
Example denotes_struct_structural : structural denotes_struct_ty.
Proof. repeat (constructor; try (repeat constructor)). Qed.
Example denotes_struct_member :
  member denotes_struct_ty (VDict [(VStr "b", VList [VStr "x"]); (VStr "a", VInt 1)])
                           (VDict [(VStr "b", VTuple [VStr "x"]); (VStr "a", VInt 1)]).
Proof. apply (tc_exactly_member _ denotes_struct_structural). vm_compute. reflexivity. Qed.
Example denotes_struct_non_member_missing :
  forall x, ~ member denotes_struct_ty (VDict [(VStr "a", VInt 1)]) x.
Proof. intros x M. apply (tc_exactly_member _ denotes_struct_structural) in M. vm_compute in M. discriminate. Qed.
Example denotes_struct_non_member_unknown_key :
  forall x, ~ member denotes_struct_ty (VDict [(VStr "a", VInt 1); (VStr "b", VList []); (VStr "c", VNone)]) x.
Proof. intros x M. apply (tc_exactly_member _ denotes_struct_structural) in M. vm_compute in M. discriminate. Qed.
