(* C01 at full strength on the model's type grammar: ONE membership relation, written from the documented element-wise
   rules and not from the code of the fast pass, and the theorem that the fast pass accepts exactly its members and returns
   exactly their image:

       tc t v = Ok x  <->  member t v x          for EVERY type t of the grammar, every v, every x   ([tc_is_member]).

   [member] is defined by recursion on the type (a specification: it never mentions map_out, zip_out, first_ok, the
   class loops or guard).  Any, None, the scalars, literals, the four sequence classes, fixed tuples, mappings, struct
   literal types, unions, conditions, enums, dataclasses in both layouts and tagged unions in the three layouts -- closed
   under nesting.  ([structural] is the device of the proof -- the fragment grew constructor by constructor -- and
   [all_structural] shows it is now everything.)
   In a union the relation says "the left-most member of which v is a member, every earlier one REFUSING v" (an earlier
   member that lets an exception escape ends the conversion: C04 shows that no such exception exists for well-formed
   types).  For a dataclass the relation fixes which element or key is bound to which field and that each bound value
   is a member of the field's type; the instance is then [construct]ed (defaults, set-field record, __post_init__),
   which the C14 theorems describe. *)
From Coq Require Import ZArith List Bool String Lia.
Require Import Base.Outcome Model.Values Model.Vocab Model.Types Model.Expected Model.Conv Gen.GenScalars Gen.GenGates Gen.GenExcept Gen.GenConds.
Import ListNotations.

Section Spec.
  Context {A : Type}.
  Variable R : A -> pyval -> pyval -> Prop.
  (* position by position: the i-th slot type relates the i-th element to the i-th image *)
  Fixpoint slots (ts : list A) (vs ys : list pyval) : Prop :=
    match ts, vs, ys with
    | [], [], [] => True
    | t :: ts', v :: vs', y :: ys' => R t v y /\ slots ts' vs' ys'
    | _, _, _ => False
    end.
End Spec.

Section Leftmost.
  Context {A : Type}.
  Variable Acc Rej : A -> Prop.
  Fixpoint leftmost (ms : list A) : Prop :=
    match ms with
    | [] => False
    | m :: r => Acc m \/ (Rej m /\ leftmost r)
    end.
End Leftmost.

(* a struct literal type {name: T, ...}: entry by entry in data order, each key a declared name
   ([with_key]: the first declared name the key is), each value a member of that name's type *)
Section Entries.
  Context {A : Type}.
  Variable R : A -> pyval -> pyval -> Prop.
  Variable fs : list (string * A).
  Fixpoint entries (kvs out : list (pyval * pyval)) : Prop :=
    match kvs, out with
    | [], [] => True
    | (k, x) :: r, (k', y) :: o =>
        k' = k /\ match with_key k (fun t => R t x y) fs with Some P => P | None => False end /\ entries r o
    | _, _ => False
    end.
End Entries.

(* enums: the data is first converted at the members' value types (None, a scalar type, or anything: [ty_of_val]; the
   distinct ones in member order, left-most accepting first), and the image is the FIRST member whose value equals the
   converted data in kind and value *)
Definition head_member (t : ty) (v y : pyval) : Prop :=
  match t with
  | TAny => y = v
  | TNone => v = VNone /\ y = VNone
  | TScalar s => scalar_allowed s (kind_of v) = true /\ scalar_ctor s v = ROk y
  | _ => False
  end.
Definition value_types (members : list (string * pyval)) : list ty :=
  dedup_heads (map (fun m => ty_of_val (snd m)) members).
Definition enum_member (n : string) (members : list (string * pyval)) (v x : pyval) : Prop :=
  exists y, leftmost (fun h => head_member h v y) (fun h => tc_head h v = Reject) (value_types members) /\
            hashable y = true /\
            exists mname mval, find (fun m => lit_match y (snd m)) members = Some (mname, mval) /\ x = VEnum n mname mval.

(* dataclasses.  Sequence layout: the elements are paired, in order, with the fields the constructor binds (a field with
   init=False takes no position); each element is a member of its field's type.  Mapping layout: entry by entry in data
   order, a key binds to the field that lists it among its input names ([with_field]: the last such field), at most once
   per field; an unknown key is skipped when the class allows extra keys and refuses the value otherwise.  [vals] is the
   list of (field name, image) in binding order; the instance is then built by [construct] (defaults, the set-field
   record, __post_init__), which C14 describes. *)
Section ClassSpec.
  Context {A : Type}.
  Variable R : A -> pyval -> pyval -> Prop.
  Fixpoint positional (fs : list (fld * A)) (xs : list pyval) (vals : list (string * pyval)) : Prop :=
    match fs, xs with
    | (f, t) :: r, x :: s =>
        if f_init f
        then match vals with
             | (n, y) :: rest => n = f_name f /\ R t x y /\ positional r s rest
             | [] => False
             end
        else positional r xs vals
    | _, _ => vals = []
    end.
  Section Bound.
    Variable fs : list (fld * A).
    Variable allow_extra : bool.
    Definition binds_one (k x : pyval) (acc acc' : list (string * pyval)) : Prop :=
      match with_field k (fun f t => has_value (f_name f) acc = false /\
                                     exists y, R t x y /\ acc' = (acc ++ [(f_name f, y)])%list) fs with
      | Some P => P
      | None => allow_extra = true /\ acc' = acc
      end.
    Fixpoint bound (kvs : list (pyval * pyval)) (acc vals : list (string * pyval)) : Prop :=
      match kvs with
      | [] => vals = acc
      | (k, x) :: r => exists acc', binds_one k x acc acc' /\ bound r acc' vals
      end.
  End Bound.
End ClassSpec.

Fixpoint member (t : ty) (v x : pyval) {struct t} : Prop :=
  match t with
  | TAny => x = v
  | TNone => v = VNone /\ x = VNone
  | TScalar s => scalar_allowed s (kind_of v) = true /\ scalar_ctor s v = ROk x
  | TLiteral vals => x = v /\ existsb (lit_match v) vals = true
  | TSeq c e =>
      gate_sequence (kind_of v) = true /\
      exists ys, Forall2 (member e) (items_of v) ys /\ seq_ctor c ys = ROk x
  | TTuple es =>
      gate_sequence (kind_of v) = true /\
      exists ys, slots member es (items_of v) ys /\ x = VTuple ys
  | TDict kt vt =>
      gate_mapping (kind_of v) = true /\
      exists kvs, Forall2 (fun kv kv' => member kt (fst kv) (fst kv') /\ member vt (snd kv) (snd kv'))
                          (pairs_of v) kvs /\ dict_ctor kvs = ROk x
  | TStruct fs =>
      gate_mapping (kind_of v) = true /\ lit_missing fs (pairs_of v) = [] /\
      exists d, entries member fs (pairs_of v) d /\ x = VDict d
  | TUnion ms => leftmost (fun m => member m v x) (fun m => tc m v = Reject) ms
  | TCond inner c => member inner v x /\ eval_cond c x = ROk true
  | TEnum n members => enum_member n members v x
  | TClass h fs =>
      (pane_seq_gate_try (kind_of v) = true /\ has_fmt FTuple h = true /\
       (let '(mn, mx) := pos_args (map fst fs) in
        (mn <=? List.length (items_of v))%nat && (List.length (items_of v) <=? mx)%nat = true) /\
       exists vals, positional member fs (items_of v) vals /\ construct h (map fst fs) vals = Some (ROk x))
      \/
      (pane_seq_gate_try (kind_of v) = false /\ pane_map_gate_try (kind_of v) = true /\ has_fmt FStruct h = true /\
       exists vals, bound member fs (c_allow_extra h) (pairs_of v) [] vals /\ construct h (map fst fs) vals = Some (ROk x))
  | TTagged tag lay vs =>
      gate_mapping (kind_of v) = true /\
      exists tagv body, tag_extract tag lay (pairs_of v) = Some (tagv, body) /\ hashable tagv = true /\
        match with_variant tagv (fun t' => member t' body x) vs with Some P => P | None => False end
  end.

Inductive structural : ty -> Prop :=
| SAny : structural TAny
| SNone : structural TNone
| SScalar s : structural (TScalar s)
| SLiteral vals : structural (TLiteral vals)
| SSeq c e : structural e -> structural (TSeq c e)
| STuple es : Forall structural es -> structural (TTuple es)
| SDict k v : structural k -> structural v -> structural (TDict k v)
| SStruct fs : Forall (fun nt => structural (snd nt)) fs -> structural (TStruct fs)
| SUnion ms : Forall structural ms -> structural (TUnion ms)
| SCond t c : structural t -> structural (TCond t c)
| SEnum n members : structural (TEnum n members)
| SClass h fs : Forall (fun ft => structural (snd ft)) fs -> structural (TClass h fs)
| STagged tag lay vs : Forall (fun vt => structural (snd vt)) vs -> structural (TTagged tag lay vs).

Definition exact (t : ty) : Prop := forall v x, tc t v = Ok x <-> member t v x.

Lemma guard_ok {A} s (r : raw A) x : guard s r = Ok x <-> r = ROk x.
Proof.
  unfold guard. destruct r as [a|e].
  - split; intros H; inversion H; reflexivity.
  - destruct (caught s e); split; intros H; discriminate.
Qed.

Lemma map_out_ok_iff {A B} (f : A -> outcome B) l ys :
  map_out f l = Ok ys <-> Forall2 (fun a y => f a = Ok y) l ys.
Proof.
  split.
  - revert ys. induction l as [|a l IH]; simpl; intros ys H.
    + inversion H. constructor.
    + destruct (f a) as [y| |e] eqn:E; try discriminate.
      destruct (map_out f l) as [ys'| |e]; try discriminate. inversion H; subst.
      constructor; auto.
  - induction 1 as [|a y l ys E _ IH]; simpl; [reflexivity|]. now rewrite E, IH.
Qed.

Lemma Forall2_iff {A B} (P Q : A -> B -> Prop) l m :
  (forall a b, P a b <-> Q a b) -> Forall2 P l m <-> Forall2 Q l m.
Proof.
  intros H. split; induction 1; constructor; auto; now apply H.
Qed.

Lemma zip_out_slots es : Forall exact es -> forall vs ys,
  List.length vs = List.length es ->
  zip_out tc es vs = Ok ys <-> slots member es vs ys.
Proof.
  induction 1 as [|t es Ht _ IH]; intros [|v vs] ys L; simpl in *; try discriminate.
  - split; intros H.
    + inversion H. exact I.
    + destruct ys; [reflexivity|contradiction].
  - assert (L' : List.length vs = List.length es) by lia.
    split; intros H.
    + destruct (tc t v) as [y| |e] eqn:E; try discriminate.
      destruct (zip_out tc es vs) as [zs| |e] eqn:Z; try discriminate.
      inversion H; subst. split; [now apply Ht|]. now apply IH.
    + destruct ys as [|y ys']; [contradiction|]. destruct H as [M S].
      apply Ht in M. rewrite M. apply (IH vs ys' L') in S. now rewrite S.
Qed.

Lemma first_ok_leftmost ms v x : Forall exact ms ->
  first_ok (fun m => tc m v) ms = Ok x <-> leftmost (fun m => member m v x) (fun m => tc m v = Reject) ms.
Proof.
  induction 1 as [|m ms Hm _ IH]; simpl.
  - split; [discriminate|contradiction].
  - split; intros H.
    + destruct (tc m v) as [y| |e] eqn:E; try discriminate.
      * inversion H; subst. left. now apply Hm.
      * right. split; [reflexivity|]. now apply IH.
    + destruct H as [M|[Rj L]].
      * apply Hm in M. now rewrite M.
      * rewrite Rj. now apply IH.
Qed.

Lemma with_key_factor {A C} k (g : A -> C) (fs : list (string * A)) :
  with_key k g fs = option_map g (with_key k (fun t => t) fs).
Proof. induction fs as [|[n t] fs IH]; simpl; [reflexivity|]. destruct (key_is k n); [reflexivity|exact IH]. Qed.

Lemma with_key_in {A} k (fs : list (string * A)) t :
  with_key k (fun t => t) fs = Some t -> In t (map snd fs).
Proof.
  induction fs as [|[n t'] fs IH]; simpl; [discriminate|]. destruct (key_is k n).
  - intros H; inversion H; auto.
  - intros H; right; auto.
Qed.

Lemma lit_try_entries (fs : list (string * ty)) : Forall (fun nt => exact (snd nt)) fs -> forall kvs d,
  lit_try_loop tc fs kvs = Ok d <-> entries member fs kvs d.
Proof.
  intros E. induction kvs as [|[k x] kvs IH]; intros d; simpl.
  - split; intros H; [inversion H; exact I|destruct d; [reflexivity|contradiction]].
  - rewrite (with_key_factor k (fun t => tc t x)).
    destruct (with_key k (fun t => t) fs) as [t|] eqn:W; simpl.
    + assert (Et : exact t).
      { apply with_key_in in W. apply in_map_iff in W. destruct W as [[n t'] [<- I']].
        rewrite Forall_forall in E. exact (E _ I'). }
      split.
      * destruct (tc t x) as [y| |z] eqn:T; try discriminate.
        destruct (lit_try_loop tc fs kvs) as [rest| |z] eqn:L; try discriminate.
        intros H; inversion H; subst. split; [reflexivity|].
        rewrite (with_key_factor k (fun t0 => member t0 x y)), W. simpl.
        split; [now apply Et|now apply IH].
      * destruct d as [|[k' y] o]; [contradiction|]. intros [-> [M En]].
        rewrite (with_key_factor k (fun t0 => member t0 x y)), W in M. simpl in M.
        apply Et in M. rewrite M. apply IH in En. now rewrite En.
    + split; [discriminate|]. destruct d as [|[k' y] o]; [contradiction|]. intros [_ [M _]].
      rewrite (with_key_factor k (fun t0 => member t0 x y)), W in M. simpl in M. contradiction.
Qed.

Lemma tc_head_member t v y : tc_head t v = Ok y <-> head_member t v y.
Proof.
  destruct t; simpl; try (split; [discriminate|contradiction]).
  - split; intros H; [inversion H; reflexivity|now subst].
  - destruct v; split; intros H; try discriminate; try (destruct H as [H _]; discriminate).
    + inversion H. auto.
    + destruct H as [_ H]. now subst.
  - destruct (scalar_allowed s (kind_of v)).
    + rewrite guard_ok. split; [auto|now intros [_ H]].
    + split; [discriminate|intros [H _]; discriminate].
Qed.

Lemma first_ok_leftmost_gen {A} (f : A -> outcome pyval) (Acc : A -> Prop) y l :
  (forall m, f m = Ok y <-> Acc m) -> first_ok f l = Ok y <-> leftmost Acc (fun m => f m = Reject) l.
Proof.
  intros Hf. induction l as [|m l IH]; simpl.
  - split; [discriminate|contradiction].
  - split; intros H.
    + destruct (f m) as [z| |e] eqn:E; try discriminate.
      * inversion H; subst. left. now apply Hf.
      * right. split; [reflexivity|]. now apply IH.
    + destruct H as [M|[Rj L]].
      * apply Hf in M. now rewrite M.
      * rewrite Rj. now apply IH.
Qed.

Definition is_head (t : ty) : Prop := match t with TAny | TNone | TScalar _ => True | _ => False end.
Lemma ty_of_val_head v : is_head (ty_of_val v).
Proof. unfold ty_of_val. destruct v; simpl; try exact I; destruct (scalar_of_val _); exact I. Qed.
Lemma dedup_heads_heads l : Forall is_head l -> Forall is_head (dedup_heads l).
Proof.
  induction l as [|x r IH]; simpl; intros Fl; [constructor|]. inversion Fl as [|? ? Hx Hr]; subst.
  constructor; [assumption|]. apply Forall_forall. intros z Hz. apply filter_In in Hz. destruct Hz as [Hz _].
  specialize (IH Hr). rewrite Forall_forall in IH. now apply IH.
Qed.
Lemma value_types_heads members : Forall is_head (value_types members).
Proof.
  unfold value_types. apply dedup_heads_heads. apply Forall_forall. intros t Ht.
  apply in_map_iff in Ht. destruct Ht as [m [<- _]]. apply ty_of_val_head.
Qed.

Lemma tc_enum_inner_leftmost members v y :
  tc_enum_inner members v = Ok y <->
  leftmost (fun h => head_member h v y) (fun h => tc_head h v = Reject) (value_types members).
Proof.
  unfold tc_enum_inner, enum_inner. fold (value_types members).
  pose proof (value_types_heads members) as Hh.
  destruct (value_types members) as [|t [|t' l]].
  - simpl. split; [discriminate|contradiction].
  - inversion Hh as [|? ? Ht _]; subst.
    destruct t; try contradiction; cbn [leftmost]; rewrite tc_head_member; tauto.
  - apply first_ok_leftmost_gen. intros m. apply tc_head_member.
Qed.

Lemma enum_lookup_ok n members y x :
  enum_lookup n members y = ROk x <->
  hashable y = true /\ exists mname mval, find (fun m => lit_match y (snd m)) members = Some (mname, mval) /\ x = VEnum n mname mval.
Proof.
  unfold enum_lookup. destruct (hashable y).
  - destruct (find (fun m => lit_match y (snd m)) members) as [[mname mval]|].
    + split.
      * intros H; inversion H; subst. split; [reflexivity|]. eauto.
      * intros [_ [a [b [H ->]]]]. inversion H; subst. reflexivity.
    + split; [discriminate|]. intros [_ [a [b [H _]]]]. discriminate.
  - split; [discriminate|intros [H _]; discriminate].
Qed.

Lemma with_field_factor {A C} k (g : fld -> A -> C) (fs : list (fld * A)) :
  with_field k g fs = option_map (fun ft => g (fst ft) (snd ft)) (with_field k (fun f t => (f, t)) fs).
Proof.
  induction fs as [|[f t] fs IH]; simpl; [reflexivity|]. rewrite IH.
  destruct (with_field k (fun f0 t0 => (f0, t0)) fs) as [[f' t']|]; simpl; [reflexivity|].
  destruct (field_accepts k f); reflexivity.
Qed.
Lemma with_field_in {A} k (fs : list (fld * A)) f t :
  with_field k (fun f t => (f, t)) fs = Some (f, t) -> In (f, t) fs.
Proof.
  induction fs as [|[f' t'] fs IH]; simpl; [discriminate|].
  destruct (with_field k (fun f0 t0 => (f0, t0)) fs) as [[f'' t'']|].
  - intros H; inversion H; subst. right. now apply IH.
  - destruct (field_accepts k f'); [|discriminate]. intros H; inversion H; subst. now left.
Qed.
Lemma with_variant_factor {A C} tagv (g : A -> C) (vs : list (pyval * A)) :
  with_variant tagv g vs = option_map g (with_variant tagv (fun t => t) vs).
Proof. induction vs as [|[tv t] vs IH]; simpl; [reflexivity|]. destruct (lit_match tagv tv); [reflexivity|exact IH]. Qed.
Lemma with_variant_in {A} tagv (vs : list (pyval * A)) t :
  with_variant tagv (fun t => t) vs = Some t -> In t (map snd vs).
Proof.
  induction vs as [|[tv t'] vs IH]; simpl; [discriminate|]. destruct (lit_match tagv tv).
  - intros H; inversion H; auto.
  - intros H; right; auto.
Qed.

Lemma tuple_try_positional (fs : list (fld * ty)) : Forall (fun ft => exact (snd ft)) fs -> forall xs vals,
  tuple_try_loop tc fs xs = Ok vals <-> positional member fs xs vals.
Proof.
  induction 1 as [|[f t] fs Ht _ IH]; intros xs vals; simpl in *.
  - split; intros H; [now inversion H|now subst].
  - destruct xs as [|x xs]; [split; intros H; [now inversion H|now subst]|].
    destruct (f_init f).
    + split.
      * destruct (tc t x) as [y| |z] eqn:T; try discriminate.
        destruct (tuple_try_loop tc fs xs) as [rest| |z] eqn:L; try discriminate.
        intros H; inversion H; subst. split; [reflexivity|]. split; [now apply Ht|now apply IH].
      * destruct vals as [|[n y] rest]; [contradiction|]. intros [-> [M P]].
        apply Ht in M. rewrite M. apply IH in P. now rewrite P.
    + apply IH.
Qed.

Lemma struct_try_bound (fs : list (fld * ty)) ae : Forall (fun ft => exact (snd ft)) fs -> forall kvs acc vals,
  struct_try_loop tc fs ae kvs acc = Ok vals <-> bound member fs ae kvs acc vals.
Proof.
  intros E. induction kvs as [|[k x] kvs IH]; intros acc vals; simpl.
  - split; intros H; [now inversion H|now subst].
  - unfold binds_one.
    rewrite (with_field_factor k (fun f t => if has_value (f_name f) acc then Reject else
               match tc t x with Ok y => Ok (acc ++ [(f_name f, y)])%list | Reject => Reject | Escape e => Escape e end)).
    destruct (with_field k (fun f t => (f, t)) fs) as [[f t]|] eqn:W; simpl.
    + assert (Et : exact t).
      { apply with_field_in in W. rewrite Forall_forall in E. exact (E _ W). }
      split.
      * destruct (has_value (f_name f) acc) eqn:Hv; [discriminate|].
        destruct (tc t x) as [y| |z] eqn:T; try discriminate.
        intros H. exists (acc ++ [(f_name f, y)])%list. split; [|now apply IH].
        rewrite (with_field_factor k _), W. simpl. split; [exact Hv|]. exists y. split; [now apply Et|reflexivity].
      * intros [acc' [B Bd]]. rewrite (with_field_factor k _), W in B. simpl in B.
        destruct B as [Hv [y [M ->]]]. rewrite Hv. apply Et in M. rewrite M. now apply IH.
    + split.
      * destruct ae; [|discriminate]. intros H. exists acc. split; [|now apply IH].
        rewrite (with_field_factor k _), W. simpl. auto.
      * intros [acc' [B Bd]]. rewrite (with_field_factor k _), W in B. simpl in B. destruct B as [-> ->]. now apply IH.
Qed.

Ltac no_ok H :=
  first [ discriminate H
        | apply guard_ok in H; discriminate H
        | unfold guard in H; destruct (caught _ _); discriminate H ].

Theorem tc_exactly_member : forall t, structural t -> exact t.
Proof.
  intros t. induction t as [| |s|c e IHe|es IHes|t1 t2 IHk IHv|fs IHfs|ms IHms|vals|n mem|h fs IHfs|t c IHe|tag lay vs IHvs] using ty_ind';
    intros S; inversion S; subst; intros v x.
  - (* Any *) simpl. split; intros H; [inversion H; reflexivity|now subst].
  - (* None *) simpl. destruct v; split; intros H; try discriminate;
      try (destruct H as [H _]; discriminate).
    + inversion H. auto.
    + destruct H as [_ H]. now subst.
  - (* scalar *) simpl. destruct (scalar_allowed s (kind_of v)).
    + rewrite guard_ok. split; [auto|now intros [_ H]].
    + split; [discriminate|intros [H _]; discriminate].
  - (* sequence *)
    specialize (IHe ltac:(assumption)).
    cbn [tc member]. destruct (gate_sequence (kind_of v)).
    + split.
      * intros H. split; [reflexivity|].
        destruct (map_out (tc e) (items_of v)) as [ys| |z] eqn:M.
        -- apply guard_ok in H. exists ys. split; [|exact H].
           apply map_out_ok_iff in M. eapply Forall2_iff; [|exact M]. intros a b. symmetry. apply IHe.
        -- discriminate.
        -- destruct (caught S_seq_try z); discriminate.
      * intros [_ [ys [F C]]].
        assert (M : map_out (tc e) (items_of v) = Ok ys).
        { apply map_out_ok_iff. eapply Forall2_iff; [|exact F]. intros a b. apply IHe. }
        rewrite M. now apply guard_ok.
    + split; [discriminate|intros [H _]; discriminate].
  - (* fixed tuple *)
    assert (E : Forall exact es).
    { match goal with H : Forall (fun t => structural t -> exact t) es, S' : Forall structural es |- _ =>
        clear - H S'; induction H; inversion S'; subst; constructor; auto end. }
    cbn [tc member]. destruct (gate_sequence (kind_of v)); cbn [andb].
    + destruct (Nat.eqb (List.length (items_of v)) (List.length es)) eqn:L.
      * apply Nat.eqb_eq in L. split.
        -- intros H. split; [reflexivity|].
           destruct (zip_out tc es (items_of v)) as [ys| |z] eqn:Z; try discriminate.
           inversion H; subst. exists ys. split; [|reflexivity]. now apply zip_out_slots.
        -- intros [_ [ys [Sl ->]]]. apply (zip_out_slots es E _ _ L) in Sl. now rewrite Sl.
      * split; [discriminate|]. intros [_ [ys [Sl _]]]. exfalso.
        apply Nat.eqb_neq in L. apply L. clear - Sl.
        revert ys Sl. generalize (items_of v) as vs. induction es as [|t es IH]; intros [|a vs] ys Sl; simpl in *;
          try reflexivity; try contradiction.
        destruct ys as [|y ys]; [contradiction|]. destruct Sl as [_ Sl]. f_equal. eapply IH; eauto.
    + split; [discriminate|intros [H _]; discriminate].
  - (* mapping *)
    specialize (IHk ltac:(assumption)). specialize (IHv ltac:(assumption)).
    cbn [tc member]. destruct (gate_mapping (kind_of v)).
    + set (f := fun kv : pyval * pyval =>
                  match tc t1 (fst kv) with
                  | Ok k' => match tc t2 (snd kv) with Ok v' => Ok (k', v') | Reject => Reject | Escape x0 => Escape x0 end
                  | Reject => Reject | Escape x0 => Escape x0 end).
      assert (Fe : forall kv kv', f kv = Ok kv' <-> member t1 (fst kv) (fst kv') /\ member t2 (snd kv) (snd kv')).
      { intros [k a] [k' a']. unfold f. simpl. split.
        - destruct (tc t1 k) as [k1| |z] eqn:K; try discriminate.
          destruct (tc t2 a) as [a1| |z] eqn:V; try discriminate.
          intros H; inversion H; subst. split; [now apply IHk|now apply IHv].
        - intros [Mk Mv]. apply IHk in Mk. apply IHv in Mv. now rewrite Mk, Mv. }
      split.
      * intros H. split; [reflexivity|].
        destruct (map_out f (pairs_of v)) as [kvs| |z] eqn:M.
        -- apply guard_ok in H. exists kvs. split; [|exact H].
           apply map_out_ok_iff in M. eapply Forall2_iff; [|exact M]. intros a b. symmetry. apply Fe.
        -- discriminate.
        -- destruct (caught S_dict_try z); discriminate.
      * intros [_ [kvs [F C]]].
        assert (M : map_out f (pairs_of v) = Ok kvs).
        { apply map_out_ok_iff. eapply Forall2_iff; [|exact F]. intros a b. apply Fe. }
        rewrite M. now apply guard_ok.
    + split; [discriminate|intros [H _]; discriminate].
  - (* struct literal type *)
    assert (E : Forall (fun nt => exact (snd nt)) fs).
    { match goal with H : Forall (fun x => structural (snd x) -> exact (snd x)) fs, S' : Forall _ fs |- _ =>
        clear - H S'; induction H; inversion S'; subst; constructor; auto end. }
    cbn [tc member]. destruct (gate_mapping (kind_of v)).
    + split.
      * destruct (lit_try_loop tc fs (pairs_of v)) as [d| |z] eqn:L; try discriminate.
        destruct (lit_missing fs (pairs_of v)) eqn:Mi; try discriminate.
        intros H; inversion H; subst. split; [reflexivity|]. split; [reflexivity|].
        exists d. split; [|reflexivity]. now apply lit_try_entries.
      * intros [_ [Mi [d [En ->]]]]. apply (lit_try_entries fs E) in En. now rewrite En, Mi.
    + split; [discriminate|intros [H _]; discriminate].
  - (* union *)
    assert (E : Forall exact ms).
    { match goal with H : Forall (fun t => structural t -> exact t) ms, S' : Forall structural ms |- _ =>
        clear - H S'; induction H; inversion S'; subst; constructor; auto end. }
    cbn [tc member]. now apply first_ok_leftmost.
  - (* literal *) cbn [tc member]. destruct (existsb (lit_match v) vals).
    + split; intros H; [inversion H; auto|destruct H; now subst].
    + split; [discriminate|intros [_ H]; discriminate].
  - (* enum *)
    cbn [tc member]. unfold enum_member. split.
    + destruct (tc_enum_inner mem v) as [y| |z] eqn:T; try discriminate.
      intros H. apply guard_ok in H. apply enum_lookup_ok in H. destruct H as [Hh Hf].
      exists y. split; [now apply tc_enum_inner_leftmost|]. split; assumption.
    + intros [y [L [Hh Hf]]]. apply tc_enum_inner_leftmost in L. rewrite L.
      apply guard_ok. apply enum_lookup_ok. split; assumption.
  - (* dataclass *)
    assert (E : Forall (fun ft => exact (snd ft)) fs).
    { match goal with H : Forall (fun x => structural (snd x) -> exact (snd x)) fs, S' : Forall _ fs |- _ =>
        clear - H S'; induction H; inversion S'; subst; constructor; auto end. }
    cbn [tc member]. destruct (pane_seq_gate_try (kind_of v)).
    + destruct (has_fmt FTuple h).
      * destruct (pos_args (map fst fs)) as [mn mx].
        destruct ((mn <=? List.length (items_of v))%nat && (List.length (items_of v) <=? mx)%nat).
        -- split.
           ++ destruct (tuple_try_loop tc fs (items_of v)) as [vals| |z] eqn:L; try discriminate.
              intros H. left. repeat split. exists vals. split; [now apply tuple_try_positional|].
              destruct (construct h (map fst fs) vals) as [r|].
              ** apply guard_ok in H. now subst.
              ** no_ok H.
           ++ intros [[_ [_ [_ [vals [P C]]]]]|[G _]]; [|discriminate].
              apply (tuple_try_positional fs E) in P. rewrite P, C. now apply guard_ok.
        -- split; [discriminate|]. intros [[_ [_ [B _]]]|[G _]]; discriminate.
      * split; [discriminate|]. intros [[_ [F _]]|[G _]]; discriminate.
    + destruct (pane_map_gate_try (kind_of v)).
      * destruct (has_fmt FStruct h).
        -- split.
           ++ destruct (struct_try_loop tc fs (c_allow_extra h) (pairs_of v) []) as [vals| |z] eqn:L; try discriminate.
              destruct (construct h (map fst fs) vals) as [r|] eqn:C; [|discriminate].
              intros H. right. repeat split. exists vals. split; [now apply struct_try_bound|].
              apply guard_ok in H. now subst.
           ++ intros [[G _]|[_ [_ [_ [vals [B C]]]]]]; [discriminate|].
              apply (struct_try_bound fs (c_allow_extra h) E) in B. rewrite B, C. now apply guard_ok.
        -- split; [discriminate|]. intros [[G _]|[_ [_ [F _]]]]; discriminate.
      * split; [discriminate|]. intros [[G _]|[_ [G _]]]; discriminate.
  - (* condition *)
    specialize (IHe ltac:(assumption)).
    cbn [tc member]. split.
    + destruct (tc t v) as [y| |z] eqn:T; try discriminate.
      destruct (guard S_cond_try (eval_cond c y)) as [[|]| |z] eqn:G; try discriminate.
      intros H; inversion H; subst. split; [now apply IHe|]. now apply guard_ok in G.
    + intros [M C]. apply IHe in M. rewrite M.
      assert (G : guard S_cond_try (eval_cond c x) = Ok true) by now apply guard_ok.
      now rewrite G.
  - (* tagged union *)
    assert (E : Forall (fun vt => exact (snd vt)) vs).
    { match goal with H : Forall (fun x => structural (snd x) -> exact (snd x)) vs, S' : Forall _ vs |- _ =>
        clear - H S'; induction H; inversion S'; subst; constructor; auto end. }
    cbn [tc member]. destruct (gate_mapping (kind_of v)).
    + destruct (tag_extract tag lay (pairs_of v)) as [[tagv body]|].
      * destruct (hashable tagv) eqn:Hh.
        -- rewrite (with_variant_factor tagv (fun t' => tc t' body)).
           destruct (with_variant tagv (fun t0 => t0) vs) as [t'|] eqn:W; simpl.
           ++ assert (Et : exact t').
              { apply with_variant_in in W. apply in_map_iff in W. destruct W as [[tv t''] [<- I']].
                rewrite Forall_forall in E. exact (E _ I'). }
              split.
              ** intros H. split; [reflexivity|]. exists tagv, body. split; [reflexivity|]. split; [exact Hh|].
                 rewrite (with_variant_factor tagv (fun t0 => member t0 body x)), W. simpl. now apply Et.
              ** intros [_ [tagv' [body' [Ex [_ M]]]]]. inversion Ex; subst.
                 rewrite (with_variant_factor tagv' (fun t0 => member t0 body' x)), W in M. simpl in M. now apply Et.
           ++ split.
              ** intros H. no_ok H.
              ** intros [_ [tagv' [body' [Ex [_ M]]]]]. inversion Ex; subst.
                 rewrite (with_variant_factor tagv' (fun t0 => member t0 body' x)), W in M. simpl in M. contradiction.
        -- split.
           ++ intros H. no_ok H.
           ++ intros [_ [tagv' [body' [Ex [Hh' _]]]]]. inversion Ex; subst. congruence.
      * split; [discriminate|]. intros [_ [tagv' [body' [Ex _]]]]. discriminate.
    + split; [discriminate|intros [H _]; discriminate].
Qed.

(* consequences the property text states outright *)

(* the verdict and the image are functions of (T, v): two accepted images of one value coincide *)
Corollary member_functional t : structural t -> forall v x y, member t v x -> member t v y -> x = y.
Proof.
  intros S v x y Mx My. apply (tc_exactly_member t S) in Mx. apply (tc_exactly_member t S) in My. congruence.
Qed.

(* Optional[T]: None, or a member of T that is not None's *)
Corollary member_optional t v x : structural t ->
  member (TUnion [t; TNone]) v x <-> member t v x \/ (tc t v = Reject /\ v = VNone /\ x = VNone).
Proof.
  intros S. simpl. split.
  - intros [M|[Rj [[-> ->]|[_ []]]]]; [now left|right; auto].
  - intros [M|[Rj [-> ->]]]; [now left|]. right. split; [exact Rj|]. left. auto.
Qed.

(* non-vacuity: a nested structural type, a member and a non-member *)
Definition denotes_example_ty : ty :=
  TUnion [TSeq SeqList (TTuple [TScalar SInt; TUnion [TScalar SStr; TNone]]); TNone].
Example denotes_example_structural : structural denotes_example_ty.
Proof. repeat (constructor; try (repeat constructor)). Qed.
Example denotes_example_member :
  member denotes_example_ty (VList [VTuple [VInt 1; VNone]; VList [VInt 2; VStr "a"]])
                            (VList [VTuple [VInt 1; VNone]; VTuple [VInt 2; VStr "a"]]).
Proof. apply (tc_exactly_member _ denotes_example_structural). vm_compute. reflexivity. Qed.
Example denotes_example_non_member :
  forall x, ~ member denotes_example_ty (VList [VTuple [VStr "1"; VNone]]) x.
Proof. intros x M. apply (tc_exactly_member _ denotes_example_structural) in M. vm_compute in M. discriminate. Qed.

Definition denotes_struct_ty : ty :=
  TStruct [("a"%string, TScalar SInt); ("b"%string, TSeq SeqTuple (TScalar SStr))].
Example denotes_struct_structural : structural denotes_struct_ty.
Proof. repeat (constructor; try (repeat constructor)). Qed.
Example denotes_struct_member :
  member denotes_struct_ty (VDict [(VStr "b", VList [VStr "x"]); (VStr "a", VInt 1)])
                           (VDict [(VStr "b", VTuple [VStr "x"]); (VStr "a", VInt 1)]).
Proof. apply (tc_exactly_member _ denotes_struct_structural). vm_compute. reflexivity. Qed.
Example denotes_struct_non_member_missing :
  forall x, ~ member denotes_struct_ty (VDict [(VStr "a", VInt 1)]) x.
Proof. intros x M. apply (tc_exactly_member _ denotes_struct_structural) in M. vm_compute in M. discriminate. Qed.
Example denotes_struct_non_member_unknown_key :
  forall x, ~ member denotes_struct_ty (VDict [(VStr "a", VInt 1); (VStr "b", VList []); (VStr "c", VNone)]) x.
Proof. intros x M. apply (tc_exactly_member _ denotes_struct_structural) in M. vm_compute in M. discriminate. Qed.

Definition denotes_enum_ty : ty :=
  TSeq SeqList (TEnum "Color" [("RED"%string, VInt 1); ("GREEN"%string, VStr "g"); ("ALSO_RED"%string, VInt 1)]).
Example denotes_enum_structural : structural denotes_enum_ty.
Proof. repeat constructor. Qed.
Example denotes_enum_member :
  member denotes_enum_ty (VList [VInt 1; VStr "g"]) (VList [VEnum "Color" "RED" (VInt 1); VEnum "Color" "GREEN" (VStr "g")]).
Proof. apply (tc_exactly_member _ denotes_enum_structural). vm_compute. reflexivity. Qed.
Example denotes_enum_non_member : forall x, ~ member denotes_enum_ty (VList [VStr "zz"]) x.
Proof. intros x M. apply (tc_exactly_member _ denotes_enum_structural) in M. vm_compute in M. discriminate. Qed.

(* every type of the model's grammar is in the fragment: the theorem holds for ALL types *)
Lemma all_structural : forall t, structural t.
Proof.
  induction t using ty_ind'; constructor; auto.
Qed.
Theorem tc_is_member : forall t v x, tc t v = Ok x <-> member t v x.
Proof. intros t. apply tc_exactly_member. apply all_structural. Qed.
Corollary member_is_functional t v x y : member t v x -> member t v y -> x = y.
Proof. apply member_functional. apply all_structural. Qed.

(* non-vacuity for dataclasses and tagged unions: P(note [init=False] = 'n', a: int, b: str = 'd') in both layouts, and an
   internally tagged union of two classes *)
Definition denotes_class_ty : ty :=
  TClass (mkCls "P" [FStruct; FTuple] false false HNone)
    [(mkFld "note" ["note"%string] "note" false false false (DValue (VStr "n")), TScalar SStr);
     (mkFld "a" ["a"%string; "A"%string] "a" true false false DNone, TScalar SInt);
     (mkFld "b" ["b"%string] "b" true false false (DValue (VStr "d")), TScalar SStr)].
Example denotes_class_member_mapping :
  member denotes_class_ty (VDict [(VStr "A", VInt 1)])
         (VInst "P" [("note"%string, VStr "n"); ("a"%string, VInt 1); ("b"%string, VStr "d")] ["a"%string]).
Proof. apply tc_is_member. vm_compute. reflexivity. Qed.
Example denotes_class_member_sequence :
  member denotes_class_ty (VList [VInt 1; VStr "x"])
         (VInst "P" [("note"%string, VStr "n"); ("a"%string, VInt 1); ("b"%string, VStr "x")] ["a"%string; "b"%string]).
Proof. apply tc_is_member. vm_compute. reflexivity. Qed.
Example denotes_class_non_members : forall x,
  ~ member denotes_class_ty (VDict [(VStr "a", VInt 1); (VStr "A", VInt 2)]) x /\      (* two keys naming one field *)
  ~ member denotes_class_ty (VDict [(VStr "b", VStr "x")]) x /\                         (* required field absent *)
  ~ member denotes_class_ty (VDict [(VStr "a", VInt 1); (VStr "note", VStr "m")]) x /\  (* init=False field is not read *)
  ~ member denotes_class_ty (VList [VInt 1; VStr "x"; VStr "y"]) x.                      (* one element too many *)
Proof.
  intros x. repeat split; intros M; apply tc_is_member in M; vm_compute in M; discriminate.
Qed.

(* a tagged union, adjacent layout, tags of two kinds (1 and False): the data tag selects by kind AND value *)
Definition denotes_tagged_ty : ty :=
  let mk n tv := TClass (mkCls n [FStruct] false false HNone)
                   [(mkFld "x" ["x"%string] "x" true false false DNone, TScalar SInt);
                    (mkFld "kind" ["kind"%string] "kind" true false false (DValue tv), TLiteral [tv])] in
  TTagged "kind" (LAdjacent "t" "c") [(VInt 1, mk "One"%string (VInt 1)); (VBool false, mk "Off"%string (VBool false))].
Example denotes_tagged_member :
  member denotes_tagged_ty (VDict [(VStr "t", VBool false); (VStr "c", VDict [(VStr "x", VInt 5)])])
         (VInst "Off" [("x"%string, VInt 5); ("kind"%string, VBool false)] ["x"%string]).
Proof. apply tc_is_member. vm_compute. reflexivity. Qed.
Example denotes_tagged_non_members : forall x,
  ~ member denotes_tagged_ty (VDict [(VStr "t", VBool true); (VStr "c", VDict [(VStr "x", VInt 5)])]) x /\   (* True is not the tag 1 *)
  ~ member denotes_tagged_ty (VDict [(VStr "t", VInt 0); (VStr "c", VDict [(VStr "x", VInt 5)])]) x /\       (* 0 is not the tag False *)
  ~ member denotes_tagged_ty (VDict [(VStr "t", VInt 1)]) x.                                                   (* no content key *)
Proof. intros x. repeat split; intros M; apply tc_is_member in M; vm_compute in M; discriminate. Qed.
