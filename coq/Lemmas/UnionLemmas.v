(* C11: the union loop against an index-based specification. *)
From Coq Require Import List Bool.
Require Import Base.Outcome Model.Values Model.Types Model.Conv Lemmas.AgreeLemmas Lemmas.AgreeThm.
Import ListNotations.

Section FirstOk.
  Context {A B : Type} (f : A -> outcome B).

  Lemma first_ok_ok l y :
    first_ok f l = Ok y <->
    exists pre m post, l = pre ++ m :: post /\ Forall (fun a => f a = Reject) pre /\ f m = Ok y.
  Proof.
    split.
    - induction l as [|a l IH]; simpl; [discriminate|].
      destruct (f a) as [b| |e] eqn:E.
      + intros H; inversion H; subst. exists [], a, l. repeat split; auto.
      + intros H. destruct (IH H) as (pre & m & post & -> & Hp & Hm).
        exists (a :: pre), m, post. repeat split; auto.
      + discriminate.
    - intros (pre & m & post & -> & Hp & Hm).
      induction Hp as [|a pre Ha _ IH]; simpl.
      + now rewrite Hm.
      + now rewrite Ha.
  Qed.

  Lemma first_ok_reject l :
    first_ok f l = Reject <-> Forall (fun a => f a = Reject) l.
  Proof.
    induction l as [|a l IH]; simpl.
    - split; auto.
    - destruct (f a) as [b| |e] eqn:E.
      + split; [discriminate|]. intros H; inversion H; congruence.
      + rewrite IH. split; intros H; [constructor; auto|now inversion H].
      + split; [discriminate|]. intros H; inversion H; congruence.
  Qed.

  Lemma first_ok_app l1 l2 :
    first_ok f (l1 ++ l2) =
    match first_ok f l1 with Ok y => Ok y | Reject => first_ok f l2 | Escape e => Escape e end.
  Proof.
    induction l1 as [|a l1 IH]; simpl; [reflexivity|].
    destruct (f a); auto.
  Qed.
End FirstOk.

Theorem union_leftmost ms v x :
  tc (TUnion ms) v = Ok x <->
  exists pre m post, ms = pre ++ m :: post /\ Forall (fun m' => tc m' v = Reject) pre /\ tc m v = Ok x.
Proof. simpl. apply first_ok_ok. Qed.

Theorem union_rejects_iff ms v :
  tc (TUnion ms) v = Reject <-> Forall (fun m => tc m v = Reject) ms.
Proof. simpl. apply first_ok_reject. Qed.

(* nesting / flattening is invisible *)
Theorem union_flatten pre inner post v :
  tc (TUnion (pre ++ TUnion inner :: post)) v = tc (TUnion (pre ++ inner ++ post)) v.
Proof.
  simpl. rewrite !first_ok_app. simpl.
  destruct (first_ok (fun m => tc m v) pre); auto;
  try (destruct (first_ok (fun m => tc m v) inner); auto).
Qed.

(* Optional[Optional[X]] = Optional[X] *)
Corollary optional_idem t v :
  tc (TUnion [TUnion [t; TNone]; TNone]) v = tc (TUnion [t; TNone]) v.
Proof.
  simpl. destruct (tc t v); auto. destruct v; reflexivity.
Qed.

(* later members that would also accept do not matter *)
Corollary union_later_irrelevant m rest rest' v x :
  tc m v = Ok x -> tc (TUnion (m :: rest)) v = tc (TUnion (m :: rest')) v.
Proof. intros H. simpl. now rewrite H. Qed.

(* the whole conversion (both passes): succeeds exactly when some member accepts *)
Theorem union_convert_iff ms v :
  wf_ty (TUnion ms) ->
  ((exists x, convert (TUnion ms) v = COk x) <-> exists m, In m ms /\ exists x, tc m v = Ok x).
Proof.
  intros WF. split.
  - intros [x H]. unfold convert, convert_with in H.
    destruct (tc (TUnion ms) v) as [y| |e] eqn:E.
    + apply union_leftmost in E as (pre & m & post & -> & _ & Hm).
      exists m. split; [apply in_or_app; right; now left|eauto].
    + destruct (ce (TUnion ms) v); discriminate.
    + discriminate.
  - intros (m & Hin & x & Hm).
    destruct (convert_total (TUnion ms) v WF) as [[y Hy]|[e He]]; [eauto|].
    exfalso. unfold convert, convert_with in He.
    destruct (tc (TUnion ms) v) as [y| |e'] eqn:E; try discriminate.
    apply union_rejects_iff in E. rewrite Forall_forall in E. rewrite (E _ Hin) in Hm. discriminate.
Qed.
