(* C15: derivation of input / output names. *)
From Coq Require Import List Bool String.
Require Import Base.PyStr Base.Styles Model.Rename Model.FieldNames Lemmas.RenameLemmas Lemmas.RenameThms.
Require Import Model.Values Model.Types Model.Conv.
Import ListNotations.
Open Scope string_scope.

Definition no_options : fspec := mkSpec None None None None.

Lemma names_default name : make_field_names name no_options None None = MFOk [name] name.
Proof. reflexivity. Qed.

Lemma rename_all_canonical ws styles :
  snake_words ws -> rename_all (snake ws) styles = Some (map (fun st => canonical st ws) styles).
Proof.
  intros H. induction styles as [|st r IH]; simpl; [reflexivity|].
  now rewrite (rename_canonical st ws H), IH.
Qed.

(* class-level rename styles: every style's canonical spelling is read, the output style's is written *)
Theorem names_class_styles ws styles st :
  snake_words ws ->
  make_field_names (snake ws) no_options (Some styles) (Some st)
  = MFOk (map (fun s => canonical s ws) styles) (canonical st ws).
Proof.
  intros H. unfold make_field_names. simpl. rewrite (rename_canonical st ws H). simpl.
  now rewrite (rename_all_canonical ws styles H).
Qed.

(* rename=: one name for both directions *)
Theorem names_rename name r ir orr :
  (match orr with Some st => rename_field name st <> None | None => True end) ->
  make_field_names name (mkSpec (Some r) None None None) ir orr = MFOk [r] r.
Proof. intros _. reflexivity. Qed.

(* explicit out_name wins over everything on output *)
Theorem names_out_name name sp ir orr o i out :
  s_out_name sp = Some o -> make_field_names name sp ir orr = MFOk i out -> out = o.
Proof.
  intros H. unfold make_field_names. rewrite H.
  destruct (Nat.ltb _ _); [discriminate|].
  destruct (s_rename sp), (s_aliases sp), (s_in_names sp); try destruct (base_names name ir); intros E; inversion E; reflexivity.
Qed.

(* aliases are additional: with a class-level rename style, the written name is still read *)
Theorem names_aliases_keep_output_readable ws al st i out :
  snake_words ws ->
  make_field_names (snake ws) (mkSpec None None (Some al) None) (Some [st]) (Some st) = MFOk i out ->
  In out i /\ Forall (fun a => In a i) al.
Proof.
  intros H. unfold make_field_names. simpl. rewrite (rename_canonical st ws H). simpl.
  intros E; inversion E; subst. split; [now left|].
  apply Forall_forall. intros a Ha. simpl.
  destruct (String.eqb a (canonical st ws)) eqn:Eq.
  - apply String.eqb_eq in Eq. now left.
  - right. apply filter_In. split; [exact Ha|]. unfold smem. simpl. now rewrite Eq.
Qed.

(* more than one of rename / aliases / in_names is refused *)
Theorem names_conflicting_options name r al ir orr :
  (match orr with Some st => rename_field name st <> None | None => True end) ->
  make_field_names name (mkSpec (Some r) None (Some al) None) ir orr = MFTypeError.
Proof. intros _. reflexivity. Qed.

(* binding: a key is read for a field iff it is the Python name or one of the derived input names *)
Theorem key_binds_iff_input_name k f :
  field_accepts k f = true <->
  f_init f = true /\ exists n, k = VStr n /\ (n = f_name f \/ In n (f_in_names f)).
Proof.
  unfold field_accepts. rewrite andb_true_iff, orb_true_iff. split.
  - intros [Hi [H|H]]; split; auto.
    + destruct k; try discriminate. simpl in H. apply String.eqb_eq in H. eauto.
    + apply existsb_exists in H as (n & Hn & Hk). destruct k; try discriminate. simpl in Hk.
      apply String.eqb_eq in Hk. subst. eauto.
  - intros [Hi (n & -> & [->|Hn])]; split; auto.
    + left. simpl. apply String.eqb_refl.
    + right. apply existsb_exists. exists n. split; [exact Hn|]. simpl. apply String.eqb_refl.
Qed.
