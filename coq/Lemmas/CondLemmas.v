(* C13: conditions restrict exactly by their predicate. *)
From Coq Require Import ZArith List Bool String Lia.
Require Import Base.PyNum Base.Outcome Model.Values Model.Vocab Model.Types Model.Expected Model.Conv Model.Into.
Require Import Gen.GenScalars Gen.GenGates Gen.GenExcept Gen.GenConds Lemmas.AgreeLemmas.
Import ListNotations.

Lemma cond_exact inner c v x :
  tc (TCond inner c) v = Ok x <-> tc inner v = Ok x /\ eval_cond c x = ROk true.
Proof.
  destruct sites_total_holds as (_ & _ & _ & _ & _ & _ & Sc1 & _).
  simpl. destruct (tc inner v) as [y| |e]; [|split; [discriminate|intros [H _]; discriminate]..].
  unfold guard. destruct (eval_cond c y) as [[|]|e] eqn:E.
  - split; [intros H; inversion H; subst; auto|intros [H _]; exact H].
  - split; [discriminate|]. intros [H H']. inversion H; subst. congruence.
  - rewrite ?(caught_all _ e Sc1). split; [discriminate|]. intros [H H']. inversion H; subst. congruence.
Qed.

(* a predicate that raises counts as a failed condition, and the error carries the cause *)
Lemma cond_raise_rejects inner c v x e :
  tc inner v = Ok x -> eval_cond c x = RRaise e ->
  tc (TCond inner c) v = Reject /\
  ce (TCond inner c) v = CTree (ECondFailed (expected (TCond inner c) false) v (cond_name c) true).
Proof.
  destruct sites_total_holds as (_ & _ & _ & _ & _ & _ & Sc1 & Sc2 & _).
  intros H E. simpl. rewrite H, E. unfold guard.
  rewrite ?(caught_all _ e Sc1), ?(caught_all _ e Sc2). split; reflexivity.
Qed.

Lemma cond_false_rejects inner c v x :
  tc inner v = Ok x -> eval_cond c x = ROk false ->
  tc (TCond inner c) v = Reject /\
  ce (TCond inner c) v = CTree (ECondFailed (expected (TCond inner c) false) v (cond_name c) false).
Proof. intros H E. simpl. now rewrite H, E. Qed.

Lemma cond_serialise_ignored inner c x : into_data (TCond inner c) x = into_data inner x.
Proof. reflexivity. Qed.

(* Boolean semantics of the combinators, for sub-conditions that evaluate without raising *)
Definition truth (c : cond) (v : pyval) : bool :=
  match eval_cond c v with ROk b => b | RRaise _ => false end.
Definition total_on (v : pyval) (c : cond) : Prop := exists b, eval_cond c v = ROk b.

Lemma eval_all l v : Forall (total_on v) l -> eval_cond (CAll l) v = ROk (forallb (fun c => truth c v) l).
Proof.
  simpl. induction 1 as [|c l [b Hb] _ IH]; simpl; [reflexivity|].
  unfold truth at 1. rewrite Hb. destruct b; [exact IH|reflexivity].
Qed.

Lemma eval_any l v : Forall (total_on v) l -> eval_cond (CAny l) v = ROk (existsb (fun c => truth c v) l).
Proof.
  simpl. induction 1 as [|c l [b Hb] _ IH]; simpl; [reflexivity|].
  unfold truth at 1. rewrite Hb. destruct b; [reflexivity|exact IH].
Qed.

Lemma eval_not c v : total_on v c -> eval_cond (CNot c) v = ROk (negb (truth c v)).
Proof. intros [b Hb]. simpl. unfold truth. now rewrite Hb. Qed.

(* all() stops at the first false: a later predicate that would raise is not called *)
Lemma eval_all_short c l v : eval_cond c v = ROk false -> eval_cond (CAll (c :: l)) v = ROk false.
Proof. intros H. simpl. now rewrite H. Qed.

(* the stock conditions on integers, boundaries included *)
Lemma stock_int z :
  eval_cond (CAdj APositive) (VInt z) = ROk (0 <? z)%Z /\
  eval_cond (CAdj ANegative) (VInt z) = ROk (z <? 0)%Z /\
  eval_cond (CAdj ANonPositive) (VInt z) = ROk (z <=? 0)%Z /\
  eval_cond (CAdj ANonNegative) (VInt z) = ROk (0 <=? z)%Z.
Proof.
  unfold eval_cond, eval_adj, cmp_test, num_cmp. simpl.
  repeat split; f_equal; destruct (Z.compare_spec z 0); simpl; lia.
Qed.

Lemma val_range_int lo hi z :
  eval_cond (CValRange (Some lo) (Some hi)) (VInt z) = ROk ((lo <=? z) && (z <=? hi))%Z.
Proof.
  unfold eval_cond, range_atoms, cmp_test, num_cmp. simpl.
  destruct (Z.compare_spec z lo), (Z.compare_spec z hi); simpl; f_equal; lia.
Qed.

Lemma len_range_list lo hi l :
  eval_cond (CLenRange (Some lo) (Some hi)) (VList l) =
  ROk ((lo <=? List.length l) && (List.length l <=? hi))%nat.
Proof.
  unfold eval_cond, len_atoms, len_test. simpl.
  destruct (Nat.compare_spec (List.length l) lo), (Nat.compare_spec (List.length l) hi); simpl; f_equal;
    repeat match goal with |- context [(?a <=? ?b)%nat] => destruct (Nat.leb_spec a b) end; simpl; try reflexivity; lia.
Qed.

Lemma empty_nonempty_list l :
  eval_cond (CAdj AEmpty) (VList l) = ROk (Nat.eqb (List.length l) 0) /\
  eval_cond (CAdj ANonEmpty) (VList l) = ROk (negb (Nat.eqb (List.length l) 0)).
Proof.
  unfold eval_cond, eval_adj, len_test. simpl. destruct l; simpl; split; reflexivity.
Qed.

Lemma finite_float f : eval_cond (CAdj AFinite) (VFloat f) = ROk (f_isfinite f).
Proof. reflexivity. Qed.
