(* C16 proofs. *)
From Coq Require Import ZArith List Bool Lia.
Require Import Gen.GenHash Model.ClassSem.
Import ListNotations.

Theorem hash_table_is_stdlib u e f h :
  pane_hash_action u e f h = stdlib_rule u e f h /\ pane_hash_action u e f h = stdlib_hash_action u e f h.
Proof. destruct u, e, f, h; split; reflexivity. Qed.

Section Laws.
  Variable V : Type.
  Variable veq vgt : V -> V -> bool.
  Variable vhash : V -> Z.
  Variable tuple_hash : list Z -> Z.

  (* the field values live in a domain where == is an equivalence and > a total order compatible with it
     (ints, strings, tuples of them ...; NaN is excluded by veq_refl) *)
  Hypothesis veq_refl : forall x, veq x x = true.
  Hypothesis veq_sym : forall x y, veq x y = veq y x.
  Hypothesis veq_trans : forall x y z, veq x y = true -> veq y z = true -> veq x z = true.
  Hypothesis tricho : forall x y, veq x y = false -> vgt x y = negb (vgt y x).
  Hypothesis gt_irrefl_eq : forall x y, veq x y = true -> vgt x y = false.
  Hypothesis hash_respects_eq : forall x y, veq x y = true -> vhash x = vhash y.

  Notation inst := (inst V).
  Definition same_shape (a b : inst) : Prop :=
    i_class V a = i_class V b /\ i_origin V a = i_origin V b /\
    map (fun f => (snd (fst f), snd f)) (i_fields V a) = map (fun f => (snd (fst f), snd f)) (i_fields V b).

  Lemma all2_refl l : all2 V veq l l = true.
  Proof. induction l; simpl; [reflexivity|]. now rewrite veq_refl. Qed.
  Lemma all2_sym l m : all2 V veq l m = true -> List.length l = List.length m -> all2 V veq m l = true.
  Proof.
    revert m. induction l as [|x l IH]; intros [|y m] H L; simpl in *; try reflexivity; try discriminate.
    apply andb_prop in H as [H1 H2]. rewrite veq_sym, H1. simpl. apply IH; auto.
  Qed.
  Lemma all2_trans l m n : List.length l = List.length m -> List.length m = List.length n ->
    all2 V veq l m = true -> all2 V veq m n = true -> all2 V veq l n = true.
  Proof.
    revert m n. induction l as [|x l IH]; intros [|y m] [|z n] L1 L2 H1 H2; simpl in *; try reflexivity; try discriminate.
    apply andb_prop in H1 as [A1 A2]. apply andb_prop in H2 as [B1 B2].
    rewrite (veq_trans _ _ _ A1 B1). simpl. apply (IH m n); auto.
  Qed.

  Theorem eq_reflexive a : inst_eq V veq a a = true.
  Proof. unfold inst_eq. now rewrite Nat.eqb_refl, all2_refl. Qed.

  Lemma cmp_len a b : same_shape a b -> List.length (cmp_vals V a) = List.length (cmp_vals V b).
  Proof.
    intros (_ & _ & H). unfold cmp_vals. rewrite !map_length.
    revert H. generalize (i_fields V a) (i_fields V b). induction l as [|[[x c] h] l IH]; intros [|[[y c'] h'] m] H; simpl in *; try discriminate; auto.
    inversion H; subst. destruct c'; simpl; auto.
  Qed.

  Theorem eq_symmetric a b : same_shape a b -> inst_eq V veq a b = true -> inst_eq V veq b a = true.
  Proof.
    intros S H. unfold inst_eq in *. apply andb_prop in H as [H1 H2].
    rewrite Nat.eqb_sym, H1. simpl. apply all2_sym; [exact H2|]. now apply cmp_len.
  Qed.

  Theorem eq_transitive a b c : same_shape a b -> same_shape b c ->
    inst_eq V veq a b = true -> inst_eq V veq b c = true -> inst_eq V veq a c = true.
  Proof.
    intros S1 S2 H1 H2. unfold inst_eq in *. apply andb_prop in H1 as [A1 A2]. apply andb_prop in H2 as [B1 B2].
    apply Nat.eqb_eq in A1, B1. rewrite A1, B1, Nat.eqb_refl. simpl.
    apply (all2_trans _ (cmp_vals V b) _); auto using cmp_len.
  Qed.

  (* equality looks only at the origin class: generic parameters are ignored *)
  Theorem eq_ignores_generic_parameters o c1 c2 fs :
    inst_eq V veq (mkInst V o c1 fs) (mkInst V o c2 fs) = true.
  Proof. unfold inst_eq. simpl. now rewrite Nat.eqb_refl, all2_refl. Qed.

  (* ordering: lexicographic, consistent with equality *)
  Lemma ord_zero_iff l m : List.length l = List.length m -> (ord_vals V veq vgt l m = 0%Z <-> all2 V veq l m = true).
  Proof.
    revert m. induction l as [|x l IH]; intros [|y m] L; simpl in *; try discriminate; [tauto|].
    destruct (veq x y); simpl; [apply IH; lia|].
    destruct (vgt x y); split; intros H; discriminate.
  Qed.

  Lemma ord_antisym l m : List.length l = List.length m -> ord_vals V veq vgt m l = (- ord_vals V veq vgt l m)%Z.
  Proof.
    revert m. induction l as [|x l IH]; intros [|y m] L; simpl in *; try discriminate; [reflexivity|].
    rewrite (veq_sym y x). destruct (veq x y) eqn:E; [apply IH; lia|].
    rewrite (tricho x y E). destruct (vgt y x); reflexivity.
  Qed.

  Lemma ord_range l m : let o := ord_vals V veq vgt l m in (o = 0 \/ o = 1 \/ o = -1)%Z.
  Proof.
    revert m. induction l as [|x l IH]; intros [|y m]; simpl; auto.
    destruct (veq x y); [apply IH|]. destruct (vgt x y); auto.
  Qed.

  (* for two instances of the same class exactly one of <, ==, > holds *)
  Theorem trichotomy a b : same_shape a b ->
    exists o, inst_ord V veq vgt a b = Some o /\
      ((inst_lt V veq vgt a b = Some true /\ inst_eq V veq a b = false /\ inst_gt V veq vgt a b = Some false) \/
       (inst_lt V veq vgt a b = Some false /\ inst_eq V veq a b = true /\ inst_gt V veq vgt a b = Some false) \/
       (inst_lt V veq vgt a b = Some false /\ inst_eq V veq a b = false /\ inst_gt V veq vgt a b = Some true)).
  Proof.
    intros S. pose proof (cmp_len a b S) as L. destruct S as (C & O & _).
    unfold inst_lt, inst_gt, inst_ord, inst_eq. rewrite C, O, !Nat.eqb_refl. simpl.
    eexists. split; [reflexivity|].
    pose proof (ord_zero_iff _ _ L) as Z0. pose proof (ord_range (cmp_vals V a) (cmp_vals V b)) as R. simpl in R.
    destruct R as [R|[R|R]]; rewrite R in *; simpl.
    - right. left. repeat split. now apply Z0.
    - right. right. repeat split. destruct (all2 V veq (cmp_vals V a) (cmp_vals V b)) eqn:E; [|reflexivity].
      destruct Z0 as [_ Z1]. specialize (Z1 eq_refl). discriminate.
    - left. repeat split. destruct (all2 V veq (cmp_vals V a) (cmp_vals V b)) eqn:E; [|reflexivity].
      destruct Z0 as [_ Z1]. specialize (Z1 eq_refl). discriminate.
  Qed.

  (* <= and >= are "< or ==" and "> or ==" *)
  Theorem le_ge_derived a b : same_shape a b ->
    inst_le V veq vgt a b = Some (match inst_lt V veq vgt a b with Some true => true | _ => inst_eq V veq a b end) /\
    inst_ge V veq vgt a b = Some (match inst_gt V veq vgt a b with Some true => true | _ => inst_eq V veq a b end).
  Proof.
    intros S. pose proof (cmp_len a b S) as L. destruct S as (C & O & _).
    unfold inst_le, inst_ge, inst_lt, inst_gt, inst_ord, inst_eq. rewrite C, O, !Nat.eqb_refl. simpl.
    pose proof (ord_zero_iff _ _ L) as Z0. pose proof (ord_range (cmp_vals V a) (cmp_vals V b)) as R. simpl in R.
    destruct R as [R|[R|R]]; rewrite R in *; simpl; split; f_equal;
      try (symmetry; now apply Z0);
      try (destruct (all2 V veq (cmp_vals V a) (cmp_vals V b)) eqn:E; [destruct Z0 as [_ Z1]; specialize (Z1 eq_refl); discriminate|reflexivity]).
  Qed.

  (* a < b  iff  b > a *)
  Theorem lt_gt_converse a b : same_shape a b ->
    inst_lt V veq vgt a b = inst_gt V veq vgt b a.
  Proof.
    intros S. pose proof (cmp_len a b S) as L. destruct S as (C & O & _).
    unfold inst_lt, inst_gt, inst_ord. rewrite C, !Nat.eqb_refl. simpl.
    rewrite (ord_antisym _ _ L). f_equal.
    destruct (ord_range (cmp_vals V a) (cmp_vals V b)) as [R|[R|R]]; simpl in R; rewrite R; reflexivity.
  Qed.

  (* equal instances hash equal, provided every hash field is a compare field *)
  Definition hash_subset (a : inst) : Prop := Forall (fun f => snd f = true -> snd (fst f) = true) (i_fields V a).

  Lemma hash_vals_eq fa fb :
    map (fun f : V * bool * bool => (snd (fst f), snd f)) fa = map (fun f => (snd (fst f), snd f)) fb ->
    Forall (fun f : V * bool * bool => snd f = true -> snd (fst f) = true) fa ->
    all2 V veq (map (fun f => fst (fst f)) (filter (fun f => snd (fst f)) fa))
               (map (fun f => fst (fst f)) (filter (fun f => snd (fst f)) fb)) = true ->
    map vhash (map (fun f => fst (fst f)) (filter (fun f : V * bool * bool => snd f) fa))
    = map vhash (map (fun f => fst (fst f)) (filter (fun f : V * bool * bool => snd f) fb)).
  Proof.
    revert fb. induction fa as [|[[x c] h] fa IH]; intros [|[[y c'] h'] fb] S F A; simpl in *; try discriminate; [reflexivity|].
    inversion S; subst. inversion F as [|? ? Hf Fr]; subst. simpl in Hf.
    destruct c', h'; simpl in *.
    - apply andb_prop in A as [A1 A2]. rewrite (hash_respects_eq _ _ A1). f_equal. now apply IH.
    - apply andb_prop in A as [A1 A2]. now apply IH.
    - specialize (Hf eq_refl). discriminate.
    - now apply IH.
  Qed.

  Theorem eq_implies_hash_eq a b : same_shape a b -> hash_subset a ->
    inst_eq V veq a b = true -> inst_hash V vhash tuple_hash a = inst_hash V vhash tuple_hash b.
  Proof.
    intros (_ & _ & S) H E. unfold inst_eq in E. apply andb_prop in E as [_ E].
    unfold inst_hash, hash_vals. f_equal. unfold cmp_vals in E. now apply hash_vals_eq.
  Qed.
End Laws.

(* without the side condition the law fails: a field with compare=False, hash=True *)
Theorem hash_law_needs_subset :
  exists a b, inst_eq Z Z.eqb a b = true /\ inst_hash Z (fun z => z) (fun l => fold_left Z.add l 0%Z) a
                                            <> inst_hash Z (fun z => z) (fun l => fold_left Z.add l 0%Z) b.
Proof.
  exists (mkInst Z 0 0 [(1%Z, false, true)]), (mkInst Z 0 0 [(2%Z, false, true)]). vm_compute. split; [reflexivity|discriminate].
Qed.
