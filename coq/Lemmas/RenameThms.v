(* Main theorems of C20, proved from RenameLemmas against the generated tables. *)
From Coq Require Import Ascii String List Bool Arith Lia.
Require Import Base.PyStr Base.Styles Gen.GenRename Model.Rename Lemmas.RenameLemmas.
Import ListNotations.
Open Scope string_scope.
Open Scope nat_scope.

Definition styled_words (s : style) (ws : list string) : list string :=
  match ws with
  | [] => []
  | w :: r => apply_casefn (style_first s) w :: map (apply_casefn (style_rest s)) r
  end.

Lemma join_style_eq s ws : join_style s ws = join (style_sep s) (styled_words s ws).
Proof. destruct ws; reflexivity. Qed.

(* ---------- split_case on the words the styles produce ---------- *)

Lemma split_case_lower w : sall is_lower w = true -> 1 <= String.length w -> split_case w = [w].
Proof.
  intros H L. unfold split_case, shortcut_tests. simpl.
  rewrite (islower_lower_word w H L). now rewrite orb_true_r.
Qed.

Lemma split_case_upper w : sall is_upper w = true -> 1 <= String.length w -> split_case w = [w].
Proof.
  intros H L. unfold split_case, shortcut_tests. simpl.
  now rewrite (isupper_upper_word w H L).
Qed.

Lemma split_case_cap_word w : lower_word w -> split_case (cap_word w) = [cap_word w].
Proof.
  intros H. destruct (cap_word_shape w H) as (c & r & -> & Hc & Hr & _).
  unfold split_case, shortcut_tests. simpl existsb. simpl cap_word.
  rewrite (istitle_cap_word c r Hc Hr). now rewrite !orb_true_r.
Qed.

Lemma Forall_cap_then_lower ws : Forall lower_word ws -> Forall cap_then_lower (map cap_word ws).
Proof. induction 1; simpl; constructor; auto using cap_word_cap_then_lower. Qed.

Lemma split_case_pascal w1 w2 ws :
  Forall lower_word (w1 :: w2 :: ws) ->
  split_case (sconcat (map cap_word (w1 :: w2 :: ws))) = map cap_word (w1 :: w2 :: ws).
Proof.
  intros H. pose proof (Forall_cap_then_lower _ H) as HT.
  inversion H as [|? ? H1 H']; subst. inversion H' as [|? ? H2 H'']; subst.
  destruct (cap_word_shape w1 H1) as (c1 & r1 & -> & Hc1 & Hr1 & L1).
  destruct (cap_word_shape w2 H2) as (c2 & r2 & -> & Hc2 & Hr2 & L2).
  unfold split_case, shortcut_tests.
  assert (E : existsb (fun t => apply_casetest t (sconcat (map cap_word (String c1 r1 :: String c2 r2 :: ws))))
                [TIsUpper; TIsLower; TIsTitle] = false).
  { simpl existsb. simpl sconcat. simpl cap_word.
    unfold str_isupper, str_islower, str_istitle.
    assert (U1 := lower_to_upper_upper _ Hc1). assert (U2 := lower_to_upper_upper _ Hc2).
    simpl sany. simpl istitle_from. rewrite U1.
    rewrite (upper_cased _ U1), (upper_not_lower _ U1). simpl.
    rewrite !sany_app. rewrite (sany_of_sall is_lower r1 Hr1 L1). simpl.
    rewrite istitle_lower_then_cap by assumption. reflexivity. }
  rewrite E. apply split_caps_titles. exact HT.
Qed.

Lemma split_case_camel w0 w1 ws :
  Forall lower_word (w0 :: w1 :: ws) ->
  split_case (sconcat (w0 :: map cap_word (w1 :: ws))) = w0 :: map cap_word (w1 :: ws).
Proof.
  intros H. inversion H as [|? ? H0 H']; subst.
  pose proof (Forall_cap_then_lower _ H') as HT.
  inversion H' as [|? ? H1 H'']; subst.
  destruct (cap_word_shape w0 H0) as (c0 & r0 & -> & Hc0 & Hr0 & L0).
  destruct (cap_word_shape w1 H1) as (c1 & r1 & -> & Hc1 & Hr1 & L1).
  unfold split_case, shortcut_tests.
  assert (E : existsb (fun t => apply_casetest t (sconcat (String c0 r0 :: map cap_word (String c1 r1 :: ws))))
                [TIsUpper; TIsLower; TIsTitle] = false).
  { simpl existsb. simpl sconcat. simpl cap_word.
    unfold str_isupper, str_islower, str_istitle.
    assert (U1 := lower_to_upper_upper _ Hc1).
    simpl sany. simpl istitle_from.
    rewrite (lower_not_upper _ Hc0), Hc0, (lower_cased _ Hc0). simpl.
    rewrite !sany_app. simpl sany. rewrite U1. simpl. rewrite !orb_true_r. reflexivity. }
  rewrite E.
  change (sconcat (String c0 r0 :: map cap_word (String c1 r1 :: ws)))
    with (String c0 r0 ++ sconcat (map cap_word (String c1 r1 :: ws))).
  apply split_caps_lead_titles.
  - apply lower_no_cap. simpl. now rewrite Hc0, Hr0.
  - discriminate.
  - exact HT.
Qed.

(* ---------- split_field_name on styled names ---------- *)

Definition simple_word (w : string) : Prop :=
  no_sep w /\ w <> EmptyString /\ split_case w = [w].

Lemma flat_map_simple ws : Forall simple_word ws -> flat_map split_case ws = ws.
Proof. induction 1 as [|w ws (_ & _ & E) _ IH]; simpl; [reflexivity|]. now rewrite E, IH. Qed.

Lemma forallb_nonempty ws : Forall simple_word ws -> forallb (fun p => negb (is_empty p)) ws = true.
Proof.
  induction 1 as [|w ws (_ & N & _) _ IH]; simpl; [reflexivity|].
  rewrite IH. destruct w; [congruence|reflexivity].
Qed.

Lemma split_field_sep c ws :
  is_part_sep c = true -> ws <> [] -> Forall simple_word ws ->
  split_field_name (join (String c "") ws) = Some ws.
Proof.
  intros Hc Hne H. unfold split_field_name.
  rewrite split_on_join; auto.
  - now rewrite forallb_nonempty, flat_map_simple.
  - eapply Forall_impl; [|exact H]. now intros w (? & _).
Qed.

Lemma split_field_whole whole ws :
  no_sep whole -> whole <> EmptyString -> split_case whole = ws ->
  split_field_name whole = Some ws.
Proof.
  intros Hs Hne E. unfold split_field_name. rewrite split_on_word_alone by assumption.
  simpl. destruct whole; [congruence|]. simpl. now rewrite E, app_nil_r.
Qed.

Lemma lower_simple w : lower_word w -> simple_word w.
Proof.
  intros [H L]. repeat split.
  - now apply lower_no_sep.
  - destruct w; simpl in L; [lia|discriminate].
  - apply split_case_lower; [assumption|lia].
Qed.

Lemma upper_simple w : lower_word w -> simple_word (str_upper w).
Proof.
  intros [H L]. pose proof (sall_upper_of_lower w H) as HU.
  assert (LU : 2 <= String.length (str_upper w)) by (unfold str_upper; now rewrite length_smap).
  repeat split.
  - now apply upper_no_sep.
  - destruct (str_upper w); simpl in LU; [lia|discriminate].
  - apply split_case_upper; [assumption|lia].
Qed.

Lemma map_lower_words ws : Forall lower_word ws -> map str_lower ws = ws.
Proof. induction 1 as [|w ws [H _] _ IH]; simpl; [reflexivity|]. now rewrite lower_word_lower, IH. Qed.

Lemma map_title_words ws : Forall lower_word ws -> map str_title ws = map cap_word ws.
Proof. induction 1 as [|w ws [H _] _ IH]; simpl; [reflexivity|]. now rewrite lower_word_title, IH. Qed.

(* the words each style produces, in closed form *)
Lemma styled_words_closed s ws :
  Forall lower_word ws ->
  styled_words s ws =
  match s with
  | Snake | Kebab => ws
  | Scream => map str_upper ws
  | Camel => match ws with [] => [] | w :: r => w :: map cap_word r end
  | Pascal => map cap_word ws
  end.
Proof.
  intros H. destruct ws as [|w r]; [destruct s; reflexivity|].
  inversion H as [|? ? [Hw Lw] Hr]; subst.
  destruct s; simpl;
    rewrite ?(lower_word_lower w Hw), ?(lower_word_title w Hw),
            ?(map_lower_words r Hr), ?(map_title_words r Hr); reflexivity.
Qed.

Lemma canonical_correct s ws :
  Forall lower_word ws -> join_style s ws = canonical s ws.
Proof.
  intros H. rewrite join_style_eq, (styled_words_closed s ws H).
  destruct s; simpl; try reflexivity.
  - destruct ws; [reflexivity|]. now rewrite join_empty_sep.
  - now rewrite join_empty_sep.
Qed.

Lemma no_sep_lower_word w : lower_word w -> no_sep w.
Proof. intros [H _]. now apply lower_no_sep. Qed.

Lemma split_styled s ws :
  snake_words ws -> split_field_name (join_style s ws) = Some (styled_words s ws).
Proof.
  intros [Hne H]. rewrite join_style_eq, (styled_words_closed s ws H).
  destruct s; simpl style_sep.
  - apply split_field_sep; [reflexivity|assumption|].
    eapply Forall_impl; [|exact H]. apply lower_simple.
  - apply split_field_sep; [reflexivity|destruct ws; [congruence|discriminate]|].
    clear Hne. induction H; simpl; constructor; auto using upper_simple.
  - apply split_field_sep; [reflexivity|assumption|].
    eapply Forall_impl; [|exact H]. apply lower_simple.
  - destruct ws as [|w0 [|w1 r]]; [congruence| |].
    + inversion H as [|? ? H0 _]; subst. simpl.
      destruct (lower_simple w0 H0) as (S & N & E).
      apply split_field_whole; assumption.
    + rewrite join_empty_sep.
      inversion H as [|? ? H0 H']; subst.
      apply split_field_whole.
      * change (sconcat (w0 :: map cap_word (w1 :: r))) with (w0 ++ sconcat (map cap_word (w1 :: r))).
        apply no_sep_app; [now apply no_sep_lower_word|].
        apply no_sep_sconcat. clear -H'. induction H'; simpl; constructor; auto using no_sep_cap_word.
      * destruct (cap_word_shape w0 H0) as (c & r' & -> & _). discriminate.
      * now apply split_case_camel.
  - destruct ws as [|w0 [|w1 r]]; [congruence| |].
    + inversion H as [|? ? H0 _]; subst. simpl.
      apply split_field_whole.
      * now apply no_sep_cap_word.
      * destruct (cap_word_shape w0 H0) as (c & r' & -> & _). discriminate.
      * now apply split_case_cap_word.
    + rewrite join_empty_sep.
      apply split_field_whole.
      * apply no_sep_sconcat. clear -H. induction H; simpl; constructor; auto using no_sep_cap_word.
      * inversion H as [|? ? H0 _]; subst.
        destruct (cap_word_shape w0 H0) as (c & r' & -> & _). discriminate.
      * now apply split_case_pascal.
Qed.

(* ---------- the property-level statements ---------- *)

Lemma styles_std s : std_casefn (style_first s) /\ std_casefn (style_rest s).
Proof. destruct s; simpl; unfold std_casefn; auto. Qed.

Lemma split_snake ws : snake_words ws -> split_field_name (snake ws) = Some ws.
Proof.
  intros H. pose proof (split_styled Snake ws H) as E.
  destruct H as [Hne H].
  rewrite (canonical_correct Snake ws H) in E. simpl in E.
  now rewrite (styled_words_closed Snake ws H) in E.
Qed.

Theorem rename_canonical s ws :
  snake_words ws -> rename_field (snake ws) s = Some (canonical s ws).
Proof.
  intros H. unfold rename_field. rewrite (split_snake ws H).
  destruct H as [_ H]. now rewrite canonical_correct.
Qed.

Lemma join_style_absorb s s' ws :
  join_style s' (styled_words s ws) = join_style s' ws.
Proof.
  destruct ws as [|w r]; [reflexivity|].
  destruct (styles_std s) as [F R]. destruct (styles_std s') as [F' R'].
  unfold styled_words, join_style. rewrite casefn_absorb by assumption.
  replace (map (apply_casefn (style_rest s')) (map (apply_casefn (style_rest s)) r))
    with (map (apply_casefn (style_rest s')) r); [reflexivity|].
  rewrite map_map. apply map_ext. intros a. symmetry. now apply casefn_absorb.
Qed.

(* renaming a styled name gives what renaming the original gives *)
Theorem rename_pairs s s' ws m :
  snake_words ws -> rename_field (snake ws) s = Some m ->
  rename_field m s' = rename_field (snake ws) s'.
Proof.
  intros H E. unfold rename_field in *. rewrite (split_snake ws H) in *.
  injection E as <-. rewrite (split_styled s ws H). now rewrite join_style_absorb.
Qed.

Theorem rename_idempotent s ws m :
  snake_words ws -> rename_field (snake ws) s = Some m -> rename_field m s = Some m.
Proof. intros H E. now rewrite (rename_pairs s s ws m H E). Qed.

Theorem rename_reversible s ws m :
  snake_words ws -> rename_field (snake ws) s = Some m -> rename_field m Snake = Some (snake ws).
Proof.
  intros H E. rewrite (rename_pairs s Snake ws m H E). now rewrite rename_canonical.
Qed.

Theorem rename_injective s ws ws' :
  snake_words ws -> snake_words ws' ->
  rename_field (snake ws) s = rename_field (snake ws') s -> snake ws = snake ws'.
Proof.
  intros H H' E.
  destruct (rename_field (snake ws) s) as [m|] eqn:Em.
  - pose proof (rename_reversible s ws m H Em) as R.
    symmetry in E. pose proof (rename_reversible s ws' m H' E) as R'.
    congruence.
  - rewrite rename_canonical in Em by assumption. discriminate.
Qed.

(* ---------- refusal of names with leading / trailing / doubled separators ---------- *)

Lemma split_on_app_sep p a c b :
  p c = true -> split_on p (a ++ String c b) = (split_on p a ++ split_on p b)%list.
Proof.
  intros Hc. induction a as [|x a IH]; simpl.
  - now rewrite Hc.
  - destruct (p x); [now rewrite IH|].
    rewrite IH. destruct (split_on p a) as [|w ws] eqn:E; [now apply split_on_nonnil in E|reflexivity].
Qed.

Inductive malformed : string -> Prop :=
| mal_empty : malformed EmptyString
| mal_leading c s : is_part_sep c = true -> malformed (String c s)
| mal_trailing s c : is_part_sep c = true -> malformed (s ++ String c EmptyString)
| mal_doubled a c1 c2 b :
    is_part_sep c1 = true -> is_part_sep c2 = true -> malformed (a ++ String c1 (String c2 b)).

Lemma malformed_empty_part n : malformed n -> In EmptyString (split_on is_part_sep n).
Proof.
  intros [|c s H|s c H|a c1 c2 b H1 H2].
  - now left.
  - simpl. rewrite H. now left.
  - rewrite split_on_app_sep by assumption. apply in_or_app. right. now left.
  - rewrite split_on_app_sep by assumption. apply in_or_app. right. simpl. rewrite H2. now left.
Qed.

Lemma forallb_nonempty_false l :
  In EmptyString l -> forallb (fun p => negb (is_empty p)) l = false.
Proof.
  induction l as [|x l IH]; intros H; [destruct H|].
  destruct H as [->|H]; simpl; [reflexivity|]. rewrite IH by assumption. apply andb_false_r.
Qed.

Theorem rename_refuses n s : malformed n -> rename_field n s = None.
Proof.
  intros H. unfold rename_field, split_field_name.
  now rewrite forallb_nonempty_false by (now apply malformed_empty_part).
Qed.

(* non-vacuity: a concrete three-word identifier is in the domain *)
Example snake_words_example : snake_words ["my"; "field"; "name"].
Proof.
  split; [discriminate|]. repeat constructor; simpl; lia.
Qed.
