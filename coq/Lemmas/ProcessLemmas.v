(* C17 proofs *)
From Coq Require Import List Bool String Arith Lia.
Require Import Model.Process.
Import ListNotations.
Open Scope string_scope.

(* ---- substitution composes (any depth of generic inheritance / re-parameterisation) ---- *)
Section TyInd.
  Variable P : tyexp -> Prop.
  Hypothesis HV : forall n, P (EVar n).
  Hypothesis HC : forall s, P (EConst s).
  Hypothesis HA : forall s args, Forall P args -> P (EApp s args).
  Fixpoint tyexp_ind' (t : tyexp) : P t :=
    match t with
    | EVar n => HV n | EConst s => HC s
    | EApp s args => HA s args ((fix go (l : list tyexp) : Forall P l :=
                                   match l with [] => Forall_nil _ | x :: r => Forall_cons _ (tyexp_ind' x) (go r) end) args)
    end.
End TyInd.

Theorem subst_compose sigma tau t : tsubst sigma (tsubst tau t) = tsubst (tcompose sigma tau) t.
Proof.
  induction t using tyexp_ind'; simpl.
  - unfold tcompose. destruct (tau n); reflexivity.
  - reflexivity.
  - f_equal. rewrite map_map. apply map_ext_in. intros a Ha. rewrite Forall_forall in H. now apply H.
Qed.

(* substitution reaches every occurrence, at any depth *)
Fixpoint tvars (t : tyexp) : list nat :=
  match t with EVar n => [n] | EConst _ => [] | EApp _ args => flat_map tvars args end.

Theorem subst_total sigma t :
  (forall n, In n (tvars t) -> exists u, sigma n = Some u /\ tvars u = []) -> tvars (tsubst sigma t) = [].
Proof.
  induction t using tyexp_ind'; simpl; intros Hs.
  - destruct (Hs n (or_introl eq_refl)) as (u & -> & Hu). exact Hu.
  - reflexivity.
  - induction args as [|a args IH]; simpl; [reflexivity|].
    inversion H as [|? ? Ha Hr]; subst. rewrite Ha, IH; auto.
    + intros n Hn. apply Hs. simpl. apply in_or_app. now right.
    + intros n Hn. apply Hs. simpl. apply in_or_app. now left.
Qed.

(* ---- dict update: order of first occurrence, last declaration wins ---- *)
Definition keys {V} (l : list (string * V)) : list string := map fst l.

Lemma keys_assoc_set {V} k (v : V) l :
  keys (assoc_set_s k v l) = if existsb (String.eqb k) (keys l) then keys l else (keys l ++ [k])%list.
Proof.
  induction l as [|[k' v'] r IH]; simpl; [reflexivity|].
  destruct (String.eqb k k') eqn:E; simpl; [reflexivity|].
  unfold keys in *. rewrite IH. destruct (existsb (String.eqb k) (map fst r)); reflexivity.
Qed.

Lemma assoc_assoc_set {V} k k' (v : V) l :
  assoc_s k (assoc_set_s k' v l) = if String.eqb k k' then Some v else assoc_s k l.
Proof.
  induction l as [|[k2 v2] r IH]; simpl.
  - destruct (String.eqb k k'); reflexivity.
  - destruct (String.eqb k' k2) eqn:E2; simpl.
    + apply String.eqb_eq in E2. subst k2. destruct (String.eqb k k'); reflexivity.
    + destruct (String.eqb k k2) eqn:E3.
      * apply String.eqb_eq in E3. subst k2. rewrite String.eqb_sym, E2. reflexivity.
      * exact IH.
Qed.

(* first-occurrence order *)
Fixpoint add_new (seen : list string) (ks : list string) : list string :=
  match ks with
  | [] => seen
  | k :: r => add_new (if existsb (String.eqb k) seen then seen else (seen ++ [k])%list) r
  end.

Lemma keys_dict_update {V} (specs own : list (string * V)) :
  keys (dict_update specs own) = add_new (keys specs) (keys own).
Proof.
  unfold dict_update. revert specs. induction own as [|[k v] r IH]; intros specs; simpl; [reflexivity|].
  rewrite IH, keys_assoc_set. reflexivity.
Qed.

(* the value of a key after an update: the last declaration in [own], else the old one *)
Fixpoint last_decl {V} (k : string) (own : list (string * V)) : option V :=
  match own with
  | [] => None
  | (k', v) :: r => match last_decl k r with Some x => Some x | None => if String.eqb k k' then Some v else None end
  end.

Lemma assoc_dict_update {V} k (specs own : list (string * V)) :
  assoc_s k (dict_update specs own) = match last_decl k own with Some v => Some v | None => assoc_s k specs end.
Proof.
  unfold dict_update. revert specs. induction own as [|[k' v] r IH]; intros specs; simpl; [reflexivity|].
  rewrite IH. destruct (last_decl k r); [reflexivity|]. rewrite assoc_assoc_set. destruct (String.eqb k k'); reflexivity.
Qed.

(* a redeclared field keeps the position of its first declaration *)
Theorem override_in_place {V} (specs own : list (string * V)) k :
  In k (keys specs) -> exists pre post, keys specs = (pre ++ k :: post)%list /\ exists post', keys (dict_update specs own) = (pre ++ k :: post')%list.
Proof.
  intros Hin. apply in_split in Hin as (pre & post & E). exists pre, post. split; [exact E|].
  rewrite keys_dict_update, E. clear E.
  assert (G : forall seen ks, exists extra, add_new seen ks = (seen ++ extra)%list).
  { intros seen ks. revert seen. induction ks as [|x r IH]; intros seen; simpl; [exists []; now rewrite app_nil_r|].
    destruct (existsb (String.eqb x) seen); [apply IH|].
    destruct (IH (seen ++ [x])%list) as [e He]. exists (x :: e). rewrite He, <- app_assoc. reflexivity. }
  destruct (G (pre ++ k :: post)%list (keys own)) as [extra ->]. exists (post ++ extra)%list. now rewrite <- app_assoc.
Qed.

(* substitution at a level does not change names or order *)
Lemma keys_inherit plain attrs own : keys (inherit_defaults plain attrs own) = keys own.
Proof. unfold inherit_defaults, keys. rewrite map_map. reflexivity. Qed.

Lemma keys_map_snd {V W} (g : V -> W) (l : list (string * V)) : keys (map (fun kv => (fst kv, g (snd kv))) l) = keys l.
Proof. unfold keys. rewrite map_map. reflexivity. Qed.

Lemma keys_step attrs specs lv : keys (step_level attrs specs lv) = add_new (keys specs) (keys (own_specs (l_kw_only lv) (l_items lv))).
Proof.
  unfold step_level. rewrite (keys_map_snd (subst_desc (l_bound lv))).
  now rewrite keys_dict_update, keys_inherit.
Qed.

(* the names of the effective fields, over the whole hierarchy: first occurrence over
   bases-then-own declarations *)
Theorem collected_names levels :
  keys (collect levels) = fold_left (fun seen lv => add_new seen (keys (own_specs (l_kw_only lv) (l_items lv)))) levels [].
Proof.
  unfold collect.
  assert (G : forall attrs specs, keys (collect_from attrs specs levels)
              = fold_left (fun seen lv => add_new seen (keys (own_specs (l_kw_only lv) (l_items lv)))) levels (keys specs)).
  { induction levels as [|lv r IH]; intros attrs specs; simpl; [reflexivity|]. rewrite IH, keys_step. reflexivity. }
  apply (G [] []).
Qed.

(* keyword-only fields are moved behind the positional ones; relative order is kept in both groups *)
Theorem fields_partition levels :
  fields_of levels = (filter (fun kv => negb (d_kw_only (snd kv))) (collect levels) ++ filter (fun kv => d_kw_only (snd kv)) (collect levels))%list
  /\ Forall (fun kv => d_kw_only (snd kv) = false) (filter (fun kv => negb (d_kw_only (snd kv))) (collect levels))
  /\ Forall (fun kv => d_kw_only (snd kv) = true) (filter (fun kv => d_kw_only (snd kv)) (collect levels)).
Proof.
  split; [reflexivity|]. split; apply Forall_forall; intros x Hx; apply filter_In in Hx as [_ Hx].
  - now apply negb_true_iff.
  - exact Hx.
Qed.

(* KW_ONLY marks every later field of the same class body *)
Lemma own_specs_after_marker kw items n d :
  In (n, d) (own_specs true items) -> kw = true -> d_kw_only d = true.
Proof.
  intros H _. revert H. induction items as [|[n' k h t|] r IH]; simpl; [tauto| |exact IH].
  intros [E|H]; [inversion E; subst; simpl; apply orb_true_r|now apply IH].
Qed.
