(* C19: the file round trip for every type that is both in the nested round-trip fragment
   [rt2_ty] (C05) and in the list-vs-tuple insensitive fragment [norm_ty]: writing a typed
   value and reading the text back gives the value again, up to the set-field records. *)
From Coq Require Import List Bool String.
Require Import Base.Outcome Model.Values Model.Types Model.Conv Model.Into Model.IO.
Require Import Lemmas.RoundTrip Lemmas.IOLemmas Lemmas.ClassRoundTrip Lemmas.NestedRoundTrip.
Import ListNotations.

Section Compose.
  Variable opts : Type.
  Variable dump : opts -> pyval -> string.
  Variable load : string -> option pyval.
  (* the law assumed of json / PyYAML on representable data (validated by testing only) *)
  Hypothesis load_dump : forall o d, load (dump o d) = Some (normalise d).

  Theorem file_roundtrip_types t o v x :
    rt2_ty t -> norm_ty t -> tc t v = Ok x ->
    exists text x', write opts dump o t x = Ok text /\ read load t text = COk x' /\ same_val x' x.
  Proof.
    intros R2 Nt H. destruct (nested_roundtrip t v x R2 H) as (d & x' & I & T & S).
    exists (dump o d), x'. unfold write, read. rewrite I, load_dump. split; [reflexivity|]. split; [|exact S].
    unfold convert, convert_with. now rewrite (norm_insensitive t Nt d), T.
  Qed.
End Compose.
