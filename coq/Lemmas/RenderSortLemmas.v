(* C08, determinism: the message does not depend on the order in which the sets of missing and
   unexpected field names are enumerated *)
From Coq Require Import List Bool String Sorting.Sorted Sorting.Permutation Structures.OrderedTypeEx.
Require Import Base.Outcome Model.Values Model.Vocab Model.Types Model.Conv Model.Render Model.RenderSort Lemmas.AgreeLemmas Lemmas.AgreeThm Lemmas.RenderLemmas.
Import ListNotations.

Lemma leb_iff a b : String.leb a b = true <-> (String_as_OT.lt a b \/ a = b).
Proof.
  unfold String.leb. destruct (String.compare a b) eqn:C.
  - apply String_as_OT.cmp_eq in C. subst. split; auto.
  - apply String_as_OT.cmp_lt in C. split; auto.
  - split; [discriminate|]. intros [H|H].
    + apply String_as_OT.cmp_lt in H. unfold String_as_OT.cmp in H. congruence.
    + subst. assert (String.compare b b = Eq) by (apply String_as_OT.cmp_eq; reflexivity). congruence.
Qed.

Lemma leb_trans a b c : String.leb a b = true -> String.leb b c = true -> String.leb a c = true.
Proof.
  rewrite !leb_iff. intros [H1|H1] [H2|H2]; subst; auto. left. eapply String_as_OT.lt_trans; eauto.
Qed.

Lemma leb_false_flip a b : String.leb a b = false -> String.leb b a = true.
Proof. intros H. destruct (String.leb_total a b) as [T|T]; [congruence|assumption]. Qed.

Section KeySortFacts.
  Context {A : Type} (key : A -> string).
  Definition kle (x y : A) : Prop := String.leb (key x) (key y) = true.

  Lemma kinsert_perm v l : Permutation (v :: l) (kinsert key v l).
  Proof.
    induction l as [|x r IH]; simpl; [reflexivity|]. destruct (String.leb (key v) (key x)); [reflexivity|].
    rewrite perm_swap. now apply perm_skip.
  Qed.

  Lemma ksort_perm l : Permutation l (ksort key l).
  Proof. induction l as [|x r IH]; simpl; [reflexivity|]. rewrite <- kinsert_perm. now apply perm_skip. Qed.

  Lemma kinsert_sorted v l : StronglySorted kle l -> StronglySorted kle (kinsert key v l).
  Proof.
    induction 1 as [|x r Hs IH Hx]; simpl; [repeat constructor|].
    destruct (String.leb (key v) (key x)) eqn:E.
    - constructor; [constructor; assumption|]. constructor; [exact E|].
      rewrite Forall_forall in *. intros y Hy. unfold kle. eapply leb_trans; [exact E|]. now apply Hx.
    - constructor; [assumption|]. rewrite Forall_forall in *. intros y Hy.
      apply (Permutation_in _ (Permutation_sym (kinsert_perm v r))) in Hy. destruct Hy as [<-|Hy]; [|now apply Hx].
      now apply leb_false_flip.
  Qed.

  Lemma ksort_sorted l : StronglySorted kle (ksort key l).
  Proof. induction l as [|x r IH]; simpl; [constructor|now apply kinsert_sorted]. Qed.

  (* two sorted arrangements of the same elements are the same list, when distinct elements have distinct keys *)
  Lemma sorted_perm_unique l1 : forall l2,
    (forall x y, In x l1 -> In y l1 -> key x = key y -> x = y) ->
    StronglySorted kle l1 -> StronglySorted kle l2 -> Permutation l1 l2 -> l1 = l2.
  Proof.
    induction l1 as [|a r1 IH]; intros l2 Inj S1 S2 P.
    - apply Permutation_nil in P. now subst.
    - destruct l2 as [|b r2]; [apply Permutation_sym, Permutation_nil in P; discriminate|].
      inversion S1 as [|? ? Sr1 Ha]; subst. inversion S2 as [|? ? Sr2 Hb]; subst.
      rewrite Forall_forall in Ha, Hb.
      assert (a = b) as ->.
      { assert (In a (b :: r2)) as Ia by (eapply Permutation_in; [exact P|now left]).
        assert (In b (a :: r1)) as Ib by (eapply Permutation_in; [exact (Permutation_sym P)|now left]).
        destruct Ia as [->|Ia]; [reflexivity|]. destruct Ib as [->|Ib]; [reflexivity|].
        apply Inj; [now left|now right|]. apply String.leb_antisym; [now apply Ha|now apply Hb]. }
      f_equal. apply IH; auto.
      + intros x y Hx Hy. apply Inj; now right.
      + now apply Permutation_cons_inv in P.
  Qed.

  Theorem ksort_perm_invariant l l' :
    (forall x y, In x l -> In y l -> key x = key y -> x = y) -> Permutation l l' -> ksort key l = ksort key l'.
  Proof.
    intros Inj P. apply sorted_perm_unique; try apply ksort_sorted.
    - intros x y Hx Hy. apply Inj; eapply Permutation_in; try (apply Permutation_sym, ksort_perm); assumption.
    - rewrite <- (ksort_perm l), <- (ksort_perm l'). exact P.
  Qed.
End KeySortFacts.

Corollary ssort_perm_invariant l l' : Permutation l l' -> ssort l = ssort l'.
Proof. apply ksort_perm_invariant. intros x y _ _ H. exact H. Qed.

(* ------------------------------------------------------------------ whole trees *)
(* the same error, its sets enumerated in another order *)
Fixpoint set_equiv (e e' : enode) {struct e} : Prop :=
  match e, e' with
  | EProduct exp ch a mi ex, EProduct exp' ch' a' mi' ex' =>
      exp = exp' /\ a = a' /\ Permutation mi mi' /\ Permutation ex ex' /\
      (forall x y, In x ex -> In y ex -> ex_text x = ex_text y -> x = y) /\
      (fix go (l l' : list (ekey * enode)) {struct l} : Prop :=
         match l, l' with
         | [], [] => True
         | (k, c) :: r, (k', c') :: r' => k = k' /\ set_equiv c c' /\ go r r'
         | _, _ => False
         end) ch ch'
  | ESum ch, ESum ch' =>
      (fix go (l l' : list enode) {struct l} : Prop :=
         match l, l' with [], [] => True | c :: r, c' :: r' => set_equiv c c' /\ go r r' | _, _ => False end) ch ch'
  | _, _ => e = e'
  end.

Theorem canon_tree_set_equiv e : forall e', set_equiv e e' -> canon_tree e = canon_tree e'.
Proof.
  induction e as [exp a c i|exp mn mx a n|exp a cn c|k al|exp ch a mi ex IHch|ch IHch _|] using enode_ind';
    intros e' H; try (destruct e'; simpl in H; try discriminate; now subst).
  - destruct e' as [| | | |exp' ch' a' mi' ex'| |]; simpl in H; try discriminate.
    destruct H as (-> & -> & Pm & Pe & Inj & Hch). simpl.
    rewrite (ssort_perm_invariant mi mi' Pm).
    assert (vsort ex = vsort ex') as -> by (apply ksort_perm_invariant; assumption).
    f_equal. clear -IHch Hch. revert ch' Hch. induction IHch as [|[k c] r Hc _ IHr]; intros [|[k' c'] r'] H; try contradiction; [reflexivity|].
    destruct H as (-> & Hc' & Hr). simpl in Hc. rewrite (Hc c' Hc'). f_equal. now apply IHr.
  - destruct e' as [| | | | |ch'|]; simpl in H; try discriminate. simpl. f_equal.
    revert ch' H. induction IHch as [|c r Hc _ IHr]; intros [|c' r'] H; try contradiction; [reflexivity|].
    destruct H as (Hc' & Hr). rewrite (Hc c' Hc'). f_equal. now apply IHr.
Qed.

(* C08: one and the same failure gives one and the same text, however its sets are enumerated *)
Corollary message_independent_of_set_order e e' : set_equiv e e' -> render_message e = render_message e'.
Proof. intros H. unfold render_message. now rewrite (canon_tree_set_equiv e e' H). Qed.

(* sorting keeps what the other C08 theorems need *)
Lemma ksort_nil_iff {A} (key : A -> string) l : ksort key l = [] <-> l = [].
Proof.
  split; [|intros ->; reflexivity]. intros H. pose proof (ksort_perm key l) as P. rewrite H in P.
  now apply Permutation_sym, Permutation_nil in P.
Qed.

Lemma canon_children_nil (ch : list (ekey * enode)) :
  (fix go (l : list (ekey * enode)) : list (ekey * enode) :=
     match l with [] => [] | (k, c) :: r => (k, canon_tree c) :: go r end) ch = [] <-> ch = [].
Proof. destruct ch as [|[k c] r]; split; intros H; try reflexivity; discriminate. Qed.

Theorem canon_tree_ok e : forall b, tree_ok b e -> tree_ok b (canon_tree e).
Proof.
  induction e as [exp a c i|exp mn mx a n|exp a cn c|k al|exp ch a mi ex IHch|ch IHch _|] using enode_ind';
    intros b H; try exact H.
  - apply tree_ok_prod in H as [Hne Hch]. change (canon_tree (EProduct exp ch a mi ex)) with
      (EProduct exp ((fix go (l : list (ekey * enode)) : list (ekey * enode) :=
                        match l with [] => [] | (k, c) :: r => (k, canon_tree c) :: go r end) ch) a (ssort mi) (vsort ex)).
    apply tree_ok_prod. split.
    + destruct Hne as [Hn|[Hn|Hn]]; [left|right; left|right; right]; intros E; apply Hn.
      * exact (proj1 (canon_children_nil ch) E).
      * exact (proj1 (ksort_nil_iff (fun s => s) mi) E).
      * exact (proj1 (ksort_nil_iff ex_text ex) E).
    + clear Hne. induction IHch as [|[k c] r Hc _ IHr]; [constructor|]. inversion Hch; subst. constructor; [now apply Hc|now apply IHr].
  - apply tree_ok_sum in H. change (canon_tree (ESum ch)) with
      (ESum ((fix go (l : list enode) : list enode := match l with [] => [] | c :: r => canon_tree c :: go r end) ch)).
    apply tree_ok_sum. induction IHch as [|c r Hc _ IHr]; [constructor|]. inversion H; subst. constructor; [now apply Hc|now apply IHr].
Qed.

(* rendering the (sorted) message of any failed conversion never raises *)
Corollary render_message_total t v e : wf_ty t -> ce t v = CTree e -> render_message e <> RRaises.
Proof.
  intros WF H. unfold render_message, render_str.
  pose proof (render_no_raise (canon_tree e) EmptyString false None (canon_tree_ok e false (tree_ok_weaken _ (ce_tree_ok t WF v e H)))) as N.
  destruct (render "" false None (canon_tree e)); try discriminate. contradiction.
Qed.

Theorem canon_mentions e : incl (mentioned e) (mentioned (canon_tree e)).
Proof.
  induction e as [exp a c i|exp mn mx a n|exp a cn c|k al|exp ch a mi ex IHch|ch IHch _|] using enode_ind'; try apply incl_refl.
  - change (canon_tree (EProduct exp ch a mi ex)) with
      (EProduct exp ((fix go (l : list (ekey * enode)) : list (ekey * enode) :=
                        match l with [] => [] | (k, c) :: r => (k, canon_tree c) :: go r end) ch) a (ssort mi) (vsort ex)).
    cbn [mentioned]. apply incl_app; [|apply incl_app].
    + apply incl_appl. induction IHch as [|[k c] r Hc _ IHr]; [apply incl_refl|].
      simpl in Hc. apply incl_app; [apply incl_appl, incl_refl|apply incl_appr, incl_app; [apply incl_appl; exact Hc|apply incl_appr; exact IHr]].
    + apply incl_appr, incl_appl. intros x Hx. eapply Permutation_in; [apply (ksort_perm (fun s => s))|exact Hx].
    + apply incl_appr, incl_appr. intros x Hx. apply in_flat_map in Hx as (y & Hy & Hx). apply in_flat_map. exists y. split; [|exact Hx].
      eapply Permutation_in; [apply (ksort_perm ex_text)|exact Hy].
  - change (canon_tree (ESum ch)) with
      (ESum ((fix go (l : list enode) : list enode := match l with [] => [] | c :: r => canon_tree c :: go r end) ch)).
    cbn [mentioned]. induction IHch as [|c r Hc _ IHr]; [apply incl_refl|]. apply incl_app; [apply incl_appl; exact Hc|apply incl_appr; exact IHr].
Qed.

Corollary render_message_mentions t v e toks :
  wf_ty t -> ce t v = CTree e -> render EmptyString false None (canon_tree e) = RText toks -> incl (mentioned e) toks.
Proof.
  intros WF H R. eapply incl_tran; [apply canon_mentions|].
  exact (proj1 (render_mentions_gen (canon_tree e) _ _ _ _ (canon_tree_ok e false (tree_ok_weaken _ (ce_tree_ok t WF v e H))) R)).
Qed.
