(* C08: rendering is total on every tree a failed conversion can produce. *)
From Coq Require Import ZArith List Bool String.
Require Import Base.PyStr Base.Outcome Model.Values Model.Vocab Model.Types Model.Expected Model.Conv Model.Render.
Require Import Gen.GenScalars Gen.GenGates Gen.GenExcept Lemmas.AgreeLemmas Lemmas.AgreeThm.
Import ListNotations.

Definition grand (P : enode -> Prop) (c : enode) : Prop :=
  match c with ESum inner => Forall P inner | _ => True end.
Definition grand_of (P : enode -> Prop) (go : forall l, Forall P l) (x : enode) : grand P x :=
  match x as x0 return grand P x0 with ESum inner => go inner | _ => I end.

Section EnodeInd.
  Variable P : enode -> Prop.
  Hypothesis HWT : forall e a c i, P (EWrongType e a c i).
  Hypothesis HWL : forall e mn mx a n, P (EWrongLen e mn mx a n).
  Hypothesis HCF : forall e a cn c, P (ECondFailed e a cn c).
  Hypothesis HDK : forall k al, P (EDupKey k al).
  Hypothesis HPR : forall e ch a mi ex, Forall (fun kc => P (snd kc)) ch -> P (EProduct e ch a mi ex).
  Hypothesis HSU : forall ch, Forall P ch ->
    Forall (grand P) ch -> P (ESum ch).
  Hypothesis HNC : P ENoChild.
  Fixpoint enode_ind' (e : enode) : P e :=
    let fix go (l : list enode) : Forall P l :=
      match l with [] => Forall_nil _ | x :: r => Forall_cons _ (enode_ind' x) (go r) end in
    let fix gop (l : list (ekey * enode)) : Forall (fun kc => P (snd kc)) l :=
      match l with [] => Forall_nil _ | (k, x) :: r => Forall_cons (k, x) (enode_ind' x) (gop r) end in
    let fix gog (l : list enode) : Forall (grand P) l :=
      match l with
      | [] => Forall_nil _
      | x :: r => Forall_cons x (grand_of P go x) (gog r)
      end in
    match e with
    | EWrongType e a c i => HWT e a c i | EWrongLen e mn mx a n => HWL e mn mx a n
    | ECondFailed e a cn c => HCF e a cn c | EDupKey k al => HDK k al
    | EProduct e ch a mi ex => HPR e ch a mi ex (gop ch) | ESum ch => HSU ch (go ch) (gog ch) | ENoChild => HNC
    end.
End EnodeInd.

(* trees on which the renderer cannot fail: a duplicate-key leaf never sits directly
   under a sum (assert not inside_sum), and there is no absent child *)
Fixpoint tree_ok (under_sum : bool) (e : enode) {struct e} : Prop :=
  match e with
  | EDupKey _ _ => under_sum = false
  | ENoChild => False
  | EProduct _ ch _ mi ex =>
      (ch <> [] \/ mi <> [] \/ ex <> []) /\
      (fix go (l : list (ekey * enode)) : Prop := match l with [] => True | (_, c) :: r => tree_ok false c /\ go r end) ch
  | ESum ch =>
      (fix go (l : list enode) : Prop := match l with [] => True | c :: r => tree_ok true c /\ go r end) ch
  | _ => True
  end.

Lemma go_prod_forall (ch : list (ekey * enode)) :
  (fix go (l : list (ekey * enode)) : Prop := match l with [] => True | (_, c) :: r => tree_ok false c /\ go r end) ch
  <-> Forall (fun kc => tree_ok false (snd kc)) ch.
Proof.
  induction ch as [|[k c] r IH].
  - split; intros; constructor.
  - split; intros H.
    + destruct H as [H1 H2]. constructor; [exact H1|apply IH; exact H2].
    + inversion H; subst. split; [assumption|apply IH; assumption].
Qed.

Lemma tree_ok_prod e ch a mi ex b :
  tree_ok b (EProduct e ch a mi ex) <->
  (ch <> [] \/ mi <> [] \/ ex <> []) /\ Forall (fun kc => tree_ok false (snd kc)) ch.
Proof. simpl. rewrite go_prod_forall. tauto. Qed.
Lemma tree_ok_sum ch b : tree_ok b (ESum ch) <-> Forall (tree_ok true) ch.
Proof.
  simpl. induction ch as [|c r IH].
  - split; intros; constructor.
  - split; intros H.
    + destruct H as [H1 H2]. constructor; [exact H1|apply IH; exact H2].
    + inversion H; subst. split; [assumption|apply IH; assumption].
Qed.

Lemma tree_ok_weaken e : tree_ok true e -> tree_ok false e.
Proof. destruct e; simpl; auto; discriminate. Qed.

Lemma rcat_raises a b : rcat a b = RRaises -> a = RRaises \/ b = RRaises.
Proof. destruct a, b; simpl; intros H; try discriminate; auto. Qed.

Lemma ropt_ok o : ropt o <> RRaises. Proof. destruct o; discriminate. Qed.
Lemma rtext_ok l : rtext l <> RRaises. Proof. discriminate. Qed.

Ltac no_raise :=
  repeat match goal with
         | H : rcat _ _ = RRaises |- _ => apply rcat_raises in H as [H|H]
         | H : rtext _ = RRaises |- _ => discriminate H
         | H : RText _ = RRaises |- _ => discriminate H
         | H : RUnmodelled = RRaises |- _ => discriminate H
         | H : ropt _ = RRaises |- _ => exfalso; exact (ropt_ok _ H)
         | H : (if ?c then _ else _) = RRaises |- _ => destruct c
         | H : match ?o with Some _ => _ | None => _ end = RRaises |- _ => destruct o
         end.

Lemma got_clause_ok a : got_clause a <> RRaises.
Proof. unfold got_clause. intros H. no_raise. Qed.

Lemma rconcat_ok {A} (f : A -> rres) l : (forall x, f x <> RRaises) -> rconcat f l <> RRaises.
Proof.
  intros Hf. induction l as [|x l IH]; simpl; [discriminate|].
  intros H. apply rcat_raises in H as [H|H]; [exact (Hf _ H)|exact (IH H)].
Qed.

Opaque rcat got_clause.
Theorem render_no_raise e : forall indent inside fp, tree_ok inside e -> render indent inside fp e <> RRaises.
Proof.
  induction e as [exp a c i|exp mn mx a n|exp a cn c|k al|exp ch a mi ex IHch|ch IHch IHgrand|] using enode_ind';
    intros indent inside fp OK HR; simpl in HR.
  - no_raise. exact (got_clause_ok _ HR).
  - no_raise.
  - no_raise.
  - simpl in OK. subst inside. no_raise.
  - (* product *)
    apply tree_ok_prod in OK. destruct OK as [_ OK].
    apply rcat_raises in HR as [HR|HR]; [destruct fp; discriminate|].
    assert (PL : forall pre,
      rcat ((fix lines (l : list (ekey * enode)) : rres :=
               match l with
               | [] => RText []
               | (k, c) :: r =>
                   rcat (rcat (rtext [indent; "While parsing field '"%string])
                              (rcat (rtext pre) (rcat (ropt (key_text k)) (rtext ["':"%string; nl; indent; "  "%string]))))
                        (rcat (render (indent ++ "  ") false None c) (lines r))
               end) ch)
           (rcat (rconcat (fun f => rcat (rtext [indent; "  Missing required field '"%string]) (rcat (rtext pre) (rtext [f; "'"%string; nl]))) mi)
                 (rconcat (fun f => rcat (rtext [indent; "  Unexpected field '"%string]) (rcat (rtext pre) (rcat (ropt (show_val f)) (rtext ["'"%string; nl])))) ex))
      <> RRaises).
    { intros pre Hp. apply rcat_raises in Hp as [Hp|Hp].
      - clear HR. induction ch as [|[k c] r IHr]; [discriminate|].
        inversion IHch; subst. inversion OK; subst.
        apply rcat_raises in Hp as [Hp|Hp]; [no_raise|].
        apply rcat_raises in Hp as [Hp|Hp].
        + simpl in H1. exact (H1 _ _ _ H3 Hp).
        + now apply IHr.
      - apply rcat_raises in Hp as [Hp|Hp]; revert Hp; apply rconcat_ok; intros x Hx; no_raise. }
    destruct ch as [|[k c] [|kc2 r]]; try (exact (PL _ HR)).
    destruct mi; try (exact (PL _ HR)). destruct ex; try (exact (PL _ HR)).
    destruct c; try (exact (PL _ HR)).
    destruct (key_text k) as [kt|]; [|discriminate].
    inversion IHch; subst. inversion OK; subst. simpl in H1.
    refine (H1 indent false (Some ((match fp with Some p => p | None => [] end) ++ [kt; "."%string])%list) H3 _).
    exact HR.
  - (* sum *)
    apply tree_ok_sum in OK.
    apply rcat_raises in HR as [HR|HR]; [discriminate|].
    apply rcat_raises in HR as [HR|HR].
    + assert (Items : forall l,
        Forall (fun e => forall indent inside fp, tree_ok inside e -> render indent inside fp e <> RRaises) l ->
        Forall (tree_ok true) l ->
        (fix go2 (l2 : list enode) : rres :=
           match l2 with
           | [] => RText []
           | c2 :: r2 => rcat (rcat (rtext [indent; "- "%string]) (render (indent ++ "  ") true None c2)) (go2 r2)
           end) l <> RRaises).
      { induction l as [|c2 r2 IH2]; intros Pl Ol Hl; [discriminate|].
        inversion Pl as [|? ? P2 Pr2]; subst. inversion Ol as [|? ? O2 Or2]; subst.
        apply rcat_raises in Hl as [Hl|Hl].
        - apply rcat_raises in Hl as [Hl|Hl]; [discriminate|exact (P2 _ _ _ O2 Hl)].
        - exact (IH2 Pr2 Or2 Hl). }
      induction ch as [|c r IHr]; [discriminate|].
      inversion IHch as [|? ? Pc Pr]; subst. inversion IHgrand as [|? ? Gc Gr]; subst. inversion OK as [|? ? Oc Or]; subst.
      apply rcat_raises in HR as [HR|HR]; [|apply IHr; assumption].
      destruct c; try (apply rcat_raises in HR as [HR|HR]; [discriminate|exact (Pc _ _ _ Oc HR)]).
      (* nested sum: flattened one level, the grandchildren are printed as items *)
      apply tree_ok_sum in Oc. simpl in Gc. exact (Items _ Gc Oc HR).
    + no_raise.
  - simpl in OK. contradiction.
Qed.
Transparent rcat got_clause.

(* ------------------------------------------------------------------ *)
(* every tree the diagnostic pass produces is renderable *)

Definition prod_ok (ch : list (ekey * enode)) : Prop := Forall (fun kc => tree_ok false (snd kc)) ch.
Definition produces_ok (t : ty) : Prop := forall v e, ce t v = CTree e -> tree_ok true e.

Lemma prod_node_ok b e ch a mi ex :
  (ch <> [] \/ mi <> [] \/ ex <> []) -> prod_ok ch -> tree_ok b (EProduct e ch a mi ex).
Proof. intros N H. now apply tree_ok_prod. Qed.

Lemma convert_err_ok t x e :
  produces_ok t -> convert_with (tc t x) (fun _ => ce t x) = CErr e -> tree_ok false e.
Proof.
  intros P H. unfold convert_with in H. destruct (tc t x); try discriminate.
  destruct (ce t x) as [|e'|z] eqn:E; try discriminate. inversion H; subst.
  apply tree_ok_weaken. eapply P; eauto.
Qed.

Lemma seq_collect_ok e xs : produces_ok e -> forall i vals ch,
  seq_collect (tc e) (ce e) i xs = ROk (vals, ch) -> prod_ok ch.
Proof.
  intros P. induction xs as [|x xs IH]; intros i vals ch H; simpl in H.
  - inversion H. constructor.
  - destruct (convert_with (tc e x) (fun _ => ce e x)) as [y|n|z] eqn:C; try discriminate;
      destruct (seq_collect (tc e) (ce e) (S i) xs) as [[vals' ch']|z] eqn:S; try discriminate; inversion H; subst.
    + eapply IH; eauto.
    + constructor; [eapply convert_err_ok; eauto|eapply IH; eauto].
Qed.

Lemma tuple_collect_ok ts : Forall produces_ok ts -> forall i xs ch,
  tuple_collect ce i ts xs = ROk ch -> prod_ok ch.
Proof.
  induction 1 as [|t ts P _ IH]; intros i xs ch H; simpl in H; [inversion H; constructor|].
  destruct xs as [|x xs]; [inversion H; constructor|].
  destruct (ce t x) as [|e|z] eqn:E; try discriminate.
  - eapply IH; eauto.
  - destruct (tuple_collect ce (S i) ts xs) eqn:T; [|discriminate]. inversion H; subst.
    constructor; [apply tree_ok_weaken; eapply P; eauto|eapply IH; eauto].
Qed.

Lemma node_set_ok k e nodes : tree_ok false e -> prod_ok nodes -> prod_ok (node_set k e nodes).
Proof.
  intros He. unfold node_set. induction 1 as [|[k' e'] r Hh Ht IH]; simpl.
  - constructor; [exact He|constructor].
  - destruct (strof_eqb k k'); constructor; simpl; auto.
Qed.

Lemma dict_collect_ok kt vt kvs : produces_ok kt -> produces_ok vt -> forall nodes out,
  prod_ok nodes -> dict_collect (ce kt) (ce vt) kvs nodes = ROk out -> prod_ok out.
Proof.
  intros Pk Pv. induction kvs as [|[k x] kvs IH]; intros nodes out Hn H; simpl in H.
  - now inversion H; subst.
  - destruct (ce kt k) as [|ek|z] eqn:Ek; try discriminate;
      destruct (ce vt x) as [|ev|z'] eqn:Ev; try discriminate; eapply IH; try exact H;
      repeat apply node_set_ok; auto; apply tree_ok_weaken; eauto.
Qed.

Lemma with_key_in {C} k (g : ty -> C) fs r :
  with_key k g fs = Some r -> exists t, In t (map snd fs) /\ r = g t.
Proof.
  induction fs as [|[n t] fs IH]; simpl; [discriminate|].
  destruct (key_is k n).
  - intros H; inversion H. exists t. split; [now left|reflexivity].
  - intros H. destruct (IH H) as (t' & Hin & ->). exists t'. split; [now right|reflexivity].
Qed.

Lemma lit_collect_ok fs kvs : Forall (fun x => produces_ok (snd x)) fs -> forall ch ex,
  lit_collect ce fs kvs = ROk (ch, ex) -> prod_ok ch.
Proof.
  intros P. induction kvs as [|[k x] kvs IH]; intros ch ex H; simpl in H.
  - inversion H. constructor.
  - destruct (with_key k (fun t => ce t x) fs) as [r|] eqn:W.
    + apply with_key_in in W as (t & Hin & ->).
      assert (Pt : produces_ok t).
      { apply in_map_iff in Hin as ([n t'] & <- & Hin). rewrite Forall_forall in P. apply (P _ Hin). }
      destruct (ce t x) as [|e|z] eqn:E; try discriminate.
      * eapply IH; eauto.
      * destruct (lit_collect ce fs kvs) as [[ch' ex']|z] eqn:L; [|discriminate]. inversion H; subst.
        constructor; [apply tree_ok_weaken; eapply Pt; eauto|eapply IH; eauto].
    + destruct (lit_collect ce fs kvs) as [[ch' ex']|z] eqn:L; [|discriminate]. inversion H; subst. eapply IH; eauto.
Qed.

Lemma prod_ok_app a b : prod_ok a -> prod_ok b -> prod_ok (a ++ b).
Proof. intros. now apply Forall_app. Qed.

Lemma struct_collect_ok fs ae kvs : Forall (fun x => produces_ok (snd x)) fs ->
  forall vals ch ex seen vals' ch' ex' seen',
  prod_ok ch -> struct_collect tc ce fs ae kvs vals ch ex seen = ROk (vals', ch', ex', seen') -> prod_ok ch'.
Proof.
  intros P. induction kvs as [|[k x] kvs IH]; intros vals ch ex seen vals' ch' ex' seen' Hc H; simpl in H.
  - inversion H; subst. exact Hc.
  - rewrite with_field_find in H. destruct (find_field k fs) as [[f t]|] eqn:F.
    + destruct (smem (f_name f) seen).
      * eapply IH; [|exact H]. apply prod_ok_app; [exact Hc|]. constructor; [reflexivity|constructor].
      * unfold convert_elem in H.
        destruct (convert_with (tc t x) (fun _ => ce t x)) as [y|n|z] eqn:C; try discriminate.
        -- eapply IH; eauto.
        -- eapply IH; [|exact H]. apply prod_ok_app; [exact Hc|]. constructor; [|constructor].
           apply find_field_in in F. rewrite Forall_forall in P. eapply convert_err_ok; [exact (P _ F)|exact C].
    + eapply IH; eauto.
Qed.

Lemma tuple_cls_collect_ok fs : Forall (fun x => produces_ok (snd x)) fs -> forall i xs vals ch,
  tuple_cls_collect tc ce i fs xs = ROk (vals, ch) -> prod_ok ch.
Proof.
  induction 1 as [|[f t] fs P _ IH]; intros i xs vals ch H; simpl in H; [inversion H; constructor|].
  destruct xs as [|x xs]; [inversion H; constructor|].
  destruct (f_init f).
  - unfold convert_elem in H.
    destruct (convert_with (tc t x) (fun _ => ce t x)) as [y|n|z] eqn:C; try discriminate;
      destruct (tuple_cls_collect tc ce (S i) fs xs) as [[vals' ch']|z] eqn:T; try discriminate; inversion H; subst.
    + eapply IH; eauto.
    + constructor; [eapply convert_err_ok; [exact P|exact C]|eapply IH; eauto].
  - eapply IH; eauto.
Qed.

Lemma union_collect_ok v ms : Forall agrees ms -> Forall produces_ok ms -> forall cs,
  union_collect tc ce v ms = ROk (Some cs) -> Forall (tree_ok true) cs.
Proof.
  induction 1 as [|m ms A _ IH]; intros P cs H; simpl in H.
  - inversion H. constructor.
  - inversion P as [|? ? Pm Pms]; subst.
    destruct (agree_cases _ _ (A v)) as [(y & H1 & H2)|(H1 & n & H2)]; rewrite H1 in H; [discriminate|].
    rewrite H2 in H. destruct (union_collect tc ce v ms) as [[rest|]|z] eqn:U; try discriminate.
    inversion H; subst. constructor; [eapply Pm; eauto|eapply IH; eauto].
Qed.

Lemma head_tree_ok h v e : ce_head h v = CTree e -> tree_ok true e.
Proof.
  destruct h; simpl; try discriminate.
  - destruct v; intros H; inversion H; exact I.
  - destruct (scalar_allowed s (kind_of v)).
    + unfold guard_c. destruct (raw_unit _); [discriminate|]. destruct (caught _ _); intros H; inversion H; exact I.
    + intros H; inversion H; exact I.
Qed.

Lemma enum_inner_tree_ok members v e :
  forallb (fun m => enum_val_ok (snd m)) members = true -> ce_enum_inner members v = CTree e -> tree_ok true e.
Proof.
  intros WF. pose proof (enum_heads members WF) as HF. unfold ce_enum_inner, enum_inner.
  destruct (dedup_heads (map (fun m : string * pyval => ty_of_val (snd m)) members)) as [|h [|h2 hs]] eqn:E.
  - simpl. intros H; inversion H; exact I.
  - destruct h; try apply head_tree_ok.
    inversion HF as [|? ? [Hh _] _]; subst. destruct Hh as [Hh|[Hh|[s Hh]]]; discriminate.
  - (* union of heads *)
    clear E. generalize (h :: h2 :: hs) HF. clear.
    intros hs HF H.
    destruct (union_collect tc_head ce_head v hs) as [[cs|]|z] eqn:U; try discriminate. inversion H; subst.
    apply tree_ok_sum. clear H. revert cs U.
    induction HF as [|h hs [Hh _] _ IH]; intros cs U; simpl in U.
    + inversion U. constructor.
    + pose proof (head_agree h v Hh) as A.
      destruct (tc_head h v) eqn:T; try discriminate;
        destruct (ce_head h v) as [|e|z] eqn:C; try contradiction; try discriminate.
      destruct (union_collect tc_head ce_head v hs) as [[rest|]|z] eqn:U'; try discriminate.
      inversion U; subst. constructor; [eapply head_tree_ok; eauto|eapply IH; eauto].
Qed.

Ltac leaf H :=
  unfold guard_c, wrong, wrong_cause in H;
  repeat (match type of H with
          | context [match ?x with _ => _ end] => destruct x
          | context [if ?x then _ else _] => destruct x
          end; try discriminate);
  inversion H; exact I.

Theorem ce_tree_ok : forall t, wf_ty t -> produces_ok t.
Proof.
  induction t using ty_ind'; intros WF v e Hce; simpl in Hce.
  - discriminate.
  - destruct v; inversion Hce; exact I.
  - destruct (scalar_allowed s (kind_of v)).
    + leaf Hce.
    + inversion Hce; exact I.
  - simpl in WF. specialize (IHt WF).
    destruct (gate_sequence (kind_of v)); [|inversion Hce; exact I].
    destruct (seq_collect (tc t) (ce t) 0 (items_of v)) as [[vals ch]|z] eqn:S; [|discriminate].
    destruct ch as [|c0 ch].
    + leaf Hce.
    + inversion Hce; subst. apply prod_node_ok; [left; discriminate|]. eapply seq_collect_ok; eauto.
  - simpl in WF. apply wf_list_ty in WF. pose proof (Forall_mp _ _ _ H WF) as P.
    destruct (gate_sequence (kind_of v) && _); [|inversion Hce; exact I].
    destruct (tuple_collect ce 0 es (items_of v)) as [ch|z] eqn:T; [|discriminate].
    destruct ch; [discriminate|]. inversion Hce; subst. apply prod_node_ok; [left; discriminate|]. eapply tuple_collect_ok; eauto.
  - simpl in WF. destruct WF as [W1 W2]. specialize (IHt1 W1). specialize (IHt2 W2).
    destruct (gate_mapping (kind_of v)); [|inversion Hce; exact I].
    destruct (dict_collect (ce t1) (ce t2) (pairs_of v) []) as [nodes|z] eqn:D; [|discriminate].
    destruct nodes as [|n0 nodes].
    + destruct (map_out _ _) as [kvs| |x].
      * leaf Hce.
      * leaf Hce.
      * leaf Hce.
    + inversion Hce; subst. apply prod_node_ok; [left; discriminate|]. eapply dict_collect_ok; [exact IHt1|exact IHt2| |exact D]. constructor.
  - simpl in WF. apply wf_list_pair in WF. pose proof (Forall_mp _ _ _ H WF) as P.
    destruct (gate_mapping (kind_of v)); [|inversion Hce; exact I].
    destruct (lit_collect ce fs (pairs_of v)) as [[ch ex]|z] eqn:L; [|discriminate].
    assert (Hc : prod_ok ch) by (eapply lit_collect_ok; eauto).
    destruct ch, ex, (lit_missing fs (pairs_of v)); try discriminate; inversion Hce; subst;
      (apply prod_node_ok; [|assumption]); first [left; discriminate|right; left; discriminate|right; right; discriminate].
  - simpl in WF. apply wf_list_ty in WF. pose proof (Forall_mp _ _ _ H WF) as P.
    destruct (union_collect tc ce v ms) as [[cs|]|z] eqn:U; try discriminate. inversion Hce; subst.
    apply tree_ok_sum. apply (union_collect_ok v ms); [|exact P|exact U].
    eapply Forall_impl; [|exact WF]. intros a. apply agree_all.
  - destruct (existsb _ _); [discriminate|inversion Hce; exact I].
  - simpl in WF. destruct (tc_enum_inner ms v) as [x| |z].
    + leaf Hce.
    + eapply enum_inner_tree_ok; eauto.
    + discriminate.
  - simpl in WF. apply wf_list_pair in WF. pose proof (Forall_mp _ _ _ H WF) as P.
    destruct (pane_seq_gate_collect _).
    + destruct (has_fmt FTuple h); [|inversion Hce; exact I].
      destruct (pos_args _) as [mn mx]. destruct (_ && _); [|inversion Hce; exact I].
      destruct (tuple_cls_collect tc ce 0 fs (items_of v)) as [[vals ch]|z] eqn:T; [|discriminate].
      destruct ch as [|c0 ch].
      * destruct (construct _ _ _).
        -- leaf Hce.
        -- leaf Hce.
      * inversion Hce; subst. apply prod_node_ok; [left; discriminate|]. eapply tuple_cls_collect_ok; eauto.
    + destruct (pane_map_gate_collect _); [|inversion Hce; exact I].
      destruct (has_fmt FStruct h); [|inversion Hce; exact I].
      destruct (struct_collect tc ce fs (c_allow_extra h) (pairs_of v) [] [] [] []) as [[[[vals ch] ex] seen]|z] eqn:S; [|discriminate].
      assert (Hc : prod_ok ch) by (eapply struct_collect_ok; [exact P| |exact S]; constructor).
      destruct ch, ex, (missing_required _ _);
        try (inversion Hce; subst; (apply prod_node_ok; [|assumption]); first [left; discriminate|right; left; discriminate|right; right; discriminate]).
      destruct (construct _ _ _).
      * leaf Hce.
      * leaf Hce.
  - simpl in WF. specialize (IHt WF).
    destruct (tc t v) as [x| |z]; try discriminate.
    + destruct (eval_cond c x) as [[|]|z]; try discriminate; [inversion Hce; exact I|].
      leaf Hce.
    + eapply IHt; eauto.
  - simpl in WF. apply wf_list_pair in WF. pose proof (Forall_mp _ _ _ H WF) as P.
    destruct (gate_mapping (kind_of v)); [|inversion Hce; exact I].
    destruct (tag_extract tag lay (pairs_of v)) as [[tagv body]|].
    + destruct (hashable tagv).
      * rewrite with_variant_find in Hce. destruct (find_variant tagv vs) as [t'|] eqn:F.
        -- apply find_variant_in in F. apply in_map_iff in F as ([tv t''] & <- & Hin).
           rewrite Forall_forall in P. eapply (P _ Hin); eauto.
        -- unfold guard_c in Hce. leaf Hce.
      * unfold guard_c in Hce. leaf Hce.
    + destruct lay; inversion Hce; exact I.
Qed.

(* C08, model level: rendering the tree of any failed conversion never raises *)
Corollary render_total t v e :
  wf_ty t -> ce t v = CTree e -> render_str e <> RRaises.
Proof.
  intros WF H. unfold render_str.
  pose proof (render_no_raise e EmptyString false None (tree_ok_weaken _ (ce_tree_ok t WF v e H))) as N.
  destruct (render "" false None e); try discriminate. contradiction.
Qed.

(* ------------------------------------------------------------------ *)
(* completeness: what the message must mention appears as a token *)

Definition olist (o : option string) : list string := match o with Some s => [s] | None => [] end.

Fixpoint mentioned (e : enode) {struct e} : list string :=
  match e with
  | EWrongType exp _ _ info => exp :: olist info
  | EWrongLen exp _ _ _ _ => [exp]
  | ECondFailed exp _ cname _ => [exp; cname]
  | EDupKey k al => (olist (show_val k) ++ [join "/" al])%list
  | EProduct _ ch _ mi ex =>
      ((fix go (l : list (ekey * enode)) : list string :=
          match l with [] => [] | (k, c) :: r => (olist (key_text k) ++ mentioned c ++ go r)%list end) ch
       ++ mi ++ flat_map (fun x => olist (show_val x)) ex)%list
  | ESum ch =>
      (fix go (l : list enode) : list string := match l with [] => [] | c :: r => (mentioned c ++ go r)%list end) ch
  | ENoChild => []
  end.

Definition pfx (fp : option (list string)) : list string := match fp with Some p => p | None => [] end.

Lemma rcat_text a b t : rcat a b = RText t -> exists ta tb, a = RText ta /\ b = RText tb /\ t = (ta ++ tb)%list.
Proof. destruct a, b; simpl; intros H; try discriminate. inversion H. eauto. Qed.

Lemma ropt_text o t : ropt o = RText t -> t = olist o.
Proof. destruct o; simpl; intros H; inversion H; reflexivity. Qed.

Lemma rconcat_text {A} (f : A -> rres) l t :
  rconcat f l = RText t -> forall x, In x l -> exists tx, f x = RText tx /\ incl tx t.
Proof.
  revert t. induction l as [|y l IH]; intros t H x Hin; [destruct Hin|].
  simpl in H. apply rcat_text in H as (ta & tb & Ha & Hb & ->).
  destruct Hin as [->|Hin].
  - exists ta. split; [assumption|]. apply incl_appl, incl_refl.
  - destruct (IH _ Hb x Hin) as (tx & Hx & Hi). exists tx. split; [assumption|]. now apply incl_appr.
Qed.

Definition is_prod (e : enode) : bool := match e with EProduct _ _ _ _ _ => true | _ => false end.

Opaque rcat got_clause.
Theorem render_mentions_gen e : forall indent inside fp toks,
  tree_ok inside e -> render indent inside fp e = RText toks ->
  incl (mentioned e) toks /\ (is_prod e = true -> incl (pfx fp) toks).
Proof.
  induction e as [exp a c i|exp mn mx a n|exp a cn c|k al|exp ch a mi ex IHch|ch IHch IHgrand|] using enode_ind';
    intros indent inside fp toks OK HR; simpl in HR.
  - (* wrong type: the expectation, and the info line *)
    split; [|discriminate].
    apply rcat_text in HR as (t1 & t2 & H1 & H2 & ->).
    intros s [<-|Hs].
    + apply in_or_app. left. destruct inside.
      * inversion H1. now left.
      * apply rcat_text in H1 as (u1 & u2 & U1 & U2 & ->). inversion U1. apply in_or_app. left. right. now left.
    + apply in_or_app. right. apply rcat_text in H2 as (u1 & u2 & U1 & U2 & ->).
      destruct i as [i|]; [|destruct Hs]. destruct Hs as [<-|[]]. inversion U1. apply in_or_app. left. right. now left.
  - split; [|discriminate]. intros s [<-|[]]. destruct inside.
    + inversion HR. now left.
    + apply rcat_text in HR as (u1 & u2 & U1 & U2 & ->). inversion U1. apply in_or_app. left. right. now left.
  - split; [|discriminate]. apply rcat_text in HR as (t1 & t2 & H1 & H2 & ->).
    intros s [<-|[<-|[]]].
    + apply in_or_app. left. destruct inside.
      * inversion H1. now left.
      * apply rcat_text in H1 as (u1 & u2 & U1 & U2 & ->). inversion U1. apply in_or_app. left. right. now left.
    + apply in_or_app. right. destruct c.
      * apply rcat_text in H2 as (u1 & u2 & U1 & U2 & ->). discriminate.
      * inversion H2. right. now left.
  - split; [|discriminate]. destruct inside; [discriminate|].
    apply rcat_text in HR as (t1 & t2 & H1 & H2 & ->).
    apply rcat_text in H2 as (u1 & u2 & U1 & U2 & ->). apply ropt_text in U1. subst u1. inversion U2.
    intros s Hs. apply in_app_or in Hs as [Hs|[<-|[]]].
    + apply in_or_app. right. apply in_or_app. now left.
    + apply in_or_app. right. apply in_or_app. right. right. now left.
  - (* product: mentions *)
    apply tree_ok_prod in OK. destruct OK as [NE OK].
    apply rcat_text in HR as (th & tb & Hh & Hb & ->). clear Hh.
    enough (G : incl (mentioned (EProduct exp ch a mi ex)) tb /\ incl (pfx fp) tb).
    { split; [apply incl_appr, G|intros _; apply incl_appr, G]. }
    assert (PL : forall t,
      rcat ((fix lines (l : list (ekey * enode)) : rres :=
               match l with
               | [] => RText []
               | (k, c) :: r =>
                   rcat (rcat (rtext [indent; "While parsing field '"%string])
                              (rcat (rtext (pfx fp)) (rcat (ropt (key_text k)) (rtext ["':"%string; nl; indent; "  "%string]))))
                        (rcat (render (indent ++ "  ") false None c) (lines r))
               end) ch)
           (rcat (rconcat (fun f => rcat (rtext [indent; "  Missing required field '"%string]) (rcat (rtext (pfx fp)) (rtext [f; "'"%string; nl]))) mi)
                 (rconcat (fun f => rcat (rtext [indent; "  Unexpected field '"%string]) (rcat (rtext (pfx fp)) (rcat (ropt (show_val f)) (rtext ["'"%string; nl])))) ex))
      = RText t -> incl (mentioned (EProduct exp ch a mi ex)) t /\ incl (pfx fp) t).
    { intros t Hp. apply rcat_text in Hp as (tc & tm & Hc & Hm & ->).
      apply rcat_text in Hm as (tmi & tex & Hmi & Hex & ->).
      split.
      - simpl. apply incl_app; [|apply incl_app].
        + apply incl_appl. clear Hmi Hex NE Hb. revert tc Hc.
          induction ch as [|[k c] r IHr]; intros tc Hc; [intros s []|].
          inversion IHch as [|? ? Pc Pr]; subst. inversion OK as [|? ? Oc Or]; subst.
          apply rcat_text in Hc as (t1 & t2 & H1 & H2 & ->).
          apply rcat_text in H2 as (tcc & tr & Hcc & Hr & ->).
          apply incl_app; [|apply incl_app].
          * apply incl_appl.
            apply rcat_text in H1 as (u1 & u2 & U1 & U2 & ->).
            apply rcat_text in U2 as (u3 & u4 & U3 & U4 & ->).
            apply rcat_text in U4 as (u5 & u6 & U5 & U6 & ->). apply ropt_text in U5. subst u5.
            apply incl_appr, incl_appr, incl_appl, incl_refl.
          * apply incl_appr, incl_appl. simpl in Pc. eapply (Pc _ _ _ _ Oc Hcc).
          * apply incl_appr, incl_appr. apply IHr; assumption.
        + apply incl_appr, incl_appl. intros f Hf.
          destruct (rconcat_text _ _ _ Hmi f Hf) as (tx & Hx & Hi). apply Hi.
          apply rcat_text in Hx as (u1 & u2 & U1 & U2 & ->). apply rcat_text in U2 as (u3 & u4 & U3 & U4 & ->).
          inversion U4. apply in_or_app. right. apply in_or_app. right. now left.
        + apply incl_appr, incl_appr. intros s Hs. apply in_flat_map in Hs as (x & Hx & Hsx).
          destruct (rconcat_text _ _ _ Hex x Hx) as (tx & Htx & Hi). apply Hi.
          apply rcat_text in Htx as (u1 & u2 & U1 & U2 & ->). apply rcat_text in U2 as (u3 & u4 & U3 & U4 & ->).
          apply rcat_text in U4 as (u5 & u6 & U5 & U6 & ->). apply ropt_text in U5. subst u5.
          apply in_or_app. right. apply in_or_app. right. apply in_or_app. now left.
      - (* the prefix is printed in the first line of a non-empty product *)
        destruct ch as [|[k c] r].
        + simpl in Hc. inversion Hc; subst tc. simpl.
          destruct mi as [|f mi].
          * destruct ex as [|f ex]; [destruct NE as [N|[N|N]]; congruence|].
            simpl in Hmi. inversion Hmi; subst tmi. simpl.
            simpl in Hex. apply rcat_text in Hex as (t1 & t2 & H1 & H2 & ->).
            apply rcat_text in H1 as (u1 & u2 & U1 & U2 & ->). apply rcat_text in U2 as (u3 & u4 & U3 & U4 & ->).
            inversion U3. apply incl_appl, incl_appr, incl_appl, incl_refl.
          * simpl in Hmi. apply rcat_text in Hmi as (t1 & t2 & H1 & H2 & ->).
            apply rcat_text in H1 as (u1 & u2 & U1 & U2 & ->). apply rcat_text in U2 as (u3 & u4 & U3 & U4 & ->).
            inversion U3. apply incl_appl, incl_appl, incl_appr, incl_appl, incl_refl.
        + apply rcat_text in Hc as (t1 & t2 & H1 & H2 & ->).
          apply rcat_text in H1 as (u1 & u2 & U1 & U2 & ->). apply rcat_text in U2 as (u3 & u4 & U3 & U4 & ->).
          inversion U3. apply incl_appl, incl_appl, incl_appr, incl_appl, incl_refl. }
    destruct ch as [|[k c] [|kc2 r]]; try (exact (PL _ Hb)).
    destruct mi; try (exact (PL _ Hb)). destruct ex; try (exact (PL _ Hb)).
    destruct c; try (exact (PL _ Hb)).
    (* fused chain: the child is printed with the prefix extended by the key *)
    destruct (key_text k) as [kt|] eqn:K; [|discriminate].
    inversion IHch as [|? ? Pc _]; subst. inversion OK as [|? ? Oc _]; subst. simpl in Pc, Oc.
    destruct (Pc indent false (Some (pfx fp ++ [kt; "."%string])%list) tb Oc Hb) as [M1 M2].
    specialize (M2 eq_refl). simpl in M2.
    split.
    + simpl. rewrite !app_nil_r. intros s Hs. apply in_app_or in Hs as [Hs|Hs].
      * rewrite K in Hs. simpl in Hs. destruct Hs as [<-|[]]. apply M2. apply in_or_app. right. now left.
      * apply M1. exact Hs.
    + intros s Hs. apply M2. apply in_or_app. now left.
  - (* sum *)
    split; [|discriminate]. apply tree_ok_sum in OK.
    apply rcat_text in HR as (t0 & t1 & _ & H1 & ->). apply incl_appr.
    apply rcat_text in H1 as (ti & tl & Hi & _ & ->). apply incl_appl.
    assert (Items : forall l t,
        Forall (fun e => forall indent inside fp toks, tree_ok inside e -> render indent inside fp e = RText toks ->
                  incl (mentioned e) toks /\ (is_prod e = true -> incl (pfx fp) toks)) l ->
        Forall (tree_ok true) l ->
        (fix go2 (l2 : list enode) : rres :=
           match l2 with
           | [] => RText []
           | c2 :: r2 => rcat (rcat (rtext [indent; "- "%string]) (render (indent ++ "  ") true None c2)) (go2 r2)
           end) l = RText t ->
        incl ((fix go (l : list enode) : list string := match l with [] => [] | c :: r => (mentioned c ++ go r)%list end) l) t).
    { induction l as [|c2 r2 IH2]; intros t Pl Ol Hl; [intros s []|].
      inversion Pl as [|? ? P2 Pr2]; subst. inversion Ol as [|? ? O2 Or2]; subst.
      apply rcat_text in Hl as (ta & tb & Ha & Hb & ->).
      apply rcat_text in Ha as (u1 & u2 & U1 & U2 & ->).
      apply incl_app.
      - apply incl_appl, incl_appr. exact (proj1 (P2 _ _ _ _ O2 U2)).
      - apply incl_appr. exact (IH2 _ Pr2 Or2 Hb). }
    revert ti Hi.
    induction ch as [|c r IHr]; intros ti Hi; [intros s []|].
    inversion IHch as [|? ? Pc Pr]; subst. inversion IHgrand as [|? ? Gc Gr]; subst. inversion OK as [|? ? Oc Or]; subst.
    apply rcat_text in Hi as (ta & tb & Ha & Hb & ->).
    apply incl_app; [apply incl_appl|apply incl_appr; now apply IHr].
    destruct c; try (apply rcat_text in Ha as (u1 & u2 & U1 & U2 & ->); apply incl_appr; exact (proj1 (Pc _ _ _ _ Oc U2))).
    apply tree_ok_sum in Oc. simpl in Gc. exact (Items _ _ Gc Oc Ha).
  - split; [intros s []|discriminate].
Qed.
Transparent rcat got_clause.

(* every path component, leaf expectation, missing / unexpected / duplicated field and
   condition name of the tree of a failed conversion is a token of the message *)
Corollary message_mentions t v e toks :
  wf_ty t -> ce t v = CTree e -> render EmptyString false None e = RText toks -> incl (mentioned e) toks.
Proof.
  intros WF H R.
  exact (proj1 (render_mentions_gen e _ _ _ _ (tree_ok_weaken _ (ce_tree_ok t WF v e H)) R)).
Qed.
