(* C12: tagged unions dispatch on the tag alone; the three layouts are symmetric. *)
From Coq Require Import ZArith List Bool String.
Require Import Base.PyNum Base.PyStr Base.Outcome Model.Values Model.Vocab Model.Types Model.Expected Model.Conv Model.Into.
Require Import Gen.GenScalars Gen.GenGates Gen.GenExcept Lemmas.AgreeLemmas Lemmas.AgreeThm.
Import ListNotations.
Open Scope string_scope.

(* specification of the dispatch: a function of the tag value only *)
Definition dispatch_spec (tag : string) (lay : layout) (vs : list (pyval * ty)) (v : pyval) : outcome pyval :=
  match v with
  | VDict kvs =>
      match tag_extract tag lay kvs with
      | None => Reject
      | Some (tagv, body) =>
          if hashable tagv then
            match find_variant tagv vs with
            | Some t' => tc t' body
            | None => Reject
            end
          else Reject
      end
  | _ => Reject
  end.

Lemma tag_dispatch tag lay vs v : tc (TTagged tag lay vs) v = dispatch_spec tag lay vs v.
Proof.
  destruct sites_total_holds as (_ & _ & _ & _ & _ & _ & _ & _ & _ & _ & _ & _ & Stk1 & Stt1 & _).
  unfold dispatch_spec. simpl.
  destruct v; try reflexivity; try (destruct k; reflexivity).
  simpl. destruct (tag_extract tag lay kvs) as [[tagv body]|]; [|reflexivity].
  destruct (hashable tagv).
  - rewrite with_variant_find. destruct (find_variant tagv vs); [reflexivity|].
    unfold guard; rewrite ?Stk1; reflexivity.
  - unfold guard; rewrite ?Stt1; reflexivity.
Qed.

(* a body error is the error of that variant only *)
Lemma tag_error_local tag lay vs kvs tagv body t' :
  tag_extract tag lay kvs = Some (tagv, body) -> hashable tagv = true -> find_variant tagv vs = Some t' ->
  ce (TTagged tag lay vs) (VDict kvs) = ce t' body /\ tc (TTagged tag lay vs) (VDict kvs) = tc t' body.
Proof.
  intros E H F. split.
  - simpl. rewrite E, H, with_variant_find, F. reflexivity.
  - rewrite tag_dispatch. simpl. now rewrite E, H, F.
Qed.

Lemma sapp_assoc (a b c : string) : (a ++ b) ++ c = a ++ (b ++ c).
Proof. induction a as [|x a IH]; simpl; congruence. Qed.

Definition contains (needle hay : string) : Prop := exists pre post, hay = pre ++ needle ++ post.

Lemma contains_mid a n b : contains n (a ++ n ++ b).
Proof. now exists a, b. Qed.

(* an unknown or unhashable tag value: a leaf that names the tag and shows the tag value *)
Lemma tag_unknown_names_tag tag lay vs kvs tagv body :
  tag_extract tag lay kvs = Some (tagv, body) ->
  (hashable tagv = false \/ find_variant tagv vs = None) ->
  exists e, ce (TTagged tag lay vs) (VDict kvs) = CTree (EWrongType e tagv false None) /\ contains tag e.
Proof.
  destruct sites_total_holds as (_ & _ & _ & _ & _ & _ & _ & _ & _ & _ & _ & _ & _ & _ & Stk2 & Stt2 & _).
  intros E H. simpl. rewrite E.
  exists ("tag '" ++ tag ++ "' one of " ++ tag_expected vs). split.
  - destruct (hashable tagv) eqn:Hh.
    + destruct H as [H|H]; [discriminate|]. rewrite with_variant_find, H. unfold guard_c; rewrite ?Stk2; reflexivity.
    + unfold guard_c; rewrite ?Stt2; reflexivity.
  - apply (contains_mid "tag '" tag ("' one of " ++ tag_expected vs)).
Qed.

(* an absent tag (internal layout): a leaf that names the tag key *)
Lemma tag_absent_internal tag vs kvs :
  dict_get (VStr tag) kvs = None ->
  exists e, ce (TTagged tag LInternal vs) (VDict kvs) = CTree (EWrongType e (VDict kvs) false None) /\ contains tag e.
Proof.
  intros H. simpl. rewrite H. eexists. split; [reflexivity|].
  apply (contains_mid "mapping with key '" tag ("' => " ++ tag_expected vs)).
Qed.

Lemma tag_absent_adjacent tag tk ck vs kvs :
  tag_extract tag (LAdjacent tk ck) kvs = None ->
  exists e, ce (TTagged tag (LAdjacent tk ck) vs) (VDict kvs) = CTree (EWrongType e (VDict kvs) false None) /\ contains tk e /\ contains ck e.
Proof.
  intros H. simpl in *. rewrite H. eexists. split; [reflexivity|]. split.
  - apply (contains_mid "mapping with keys '" tk ("' and '" ++ ck ++ "'")).
  - exists ("mapping with keys '" ++ tk ++ "' and '"), "'".
    now rewrite !sapp_assoc.
Qed.

(* a non-mapping is rejected whatever it contains *)
Lemma tag_non_mapping tag lay vs v : gate_mapping (kind_of v) = false -> tc (TTagged tag lay vs) v = Reject.
Proof. intros H. simpl. now rewrite H. Qed.

(* ---- layout symmetry: what into_data writes, try_convert reads back into the same variant ---- *)

Lemma str_eqb_refl s : String.eqb s s = true.
Proof. apply String.eqb_refl. Qed.

Lemma symmetric_external tag vs tagv inner t' :
  hashable tagv = true -> find_variant tagv vs = Some t' ->
  tc (TTagged tag LExternal vs) (VDict [(tagv, inner)]) = tc t' inner.
Proof. intros H F. rewrite tag_dispatch. simpl. now rewrite H, F. Qed.

Lemma py_eqb_str a b : py_eqb (VStr a) (VStr b) = String.eqb a b.
Proof. reflexivity. Qed.

Lemma symmetric_adjacent tag tk ck vs tagv inner t' :
  String.eqb tk ck = false -> hashable tagv = true -> find_variant tagv vs = Some t' ->
  tc (TTagged tag (LAdjacent tk ck) vs) (VDict [(VStr tk, tagv); (VStr ck, inner)]) = tc t' inner.
Proof.
  intros D H F. rewrite tag_dispatch. unfold dispatch_spec, tag_extract, dict_get. simpl.
  rewrite !str_eqb_refl.
  assert (E : String.eqb ck tk = false) by (rewrite String.eqb_sym; exact D).
  rewrite E. simpl. now rewrite H, F.
Qed.

Lemma symmetric_internal tag vs kvs tagv t' :
  dict_get (VStr tag) kvs = Some tagv -> hashable tagv = true -> find_variant tagv vs = Some t' ->
  tc (TTagged tag LInternal vs) (VDict kvs) = tc t' (VDict (dict_remove (VStr tag) kvs)).
Proof. intros G H F. rewrite tag_dispatch. simpl. now rewrite G, H, F. Qed.

(* the writer produces exactly those shapes *)
Lemma writer_external tag vs c attrs setf tagv t' inner :
  field_get tag attrs = Some tagv -> hashable tagv = true -> find_variant tagv vs = Some t' ->
  into_data t' (VInst c attrs setf) = Ok inner ->
  into_data (TTagged tag LExternal vs) (VInst c attrs setf) = Ok (VDict [(tagv, inner)]).
Proof.
  intros G H F I. simpl. rewrite G, H, with_variant_find, F, I. simpl.
  unfold build_dict, dict_ctor. simpl. rewrite H. reflexivity.
Qed.

(* the chosen variant's declared tag has the kind of the tag in the data and equals it:
   True or 1.0 never selects the variant tagged 1 *)
Lemma find_variant_same_kind {T} tagv (vs : list (pyval * T)) t :
  find_variant tagv vs = Some t -> exists tv, In (tv, t) vs /\ kind_of tagv = kind_of tv /\ py_eqb tagv tv = true.
Proof.
  induction vs as [|[tv u] r IH]; simpl; [discriminate|].
  destruct (lit_match tagv tv) eqn:M.
  - intros H; inversion H; subst. exists tv. split; [now left|]. split; [now apply lit_match_kind|now apply lit_match_eqb].
  - intros H. destruct (IH H) as (tv' & Hin & K & E). exists tv'. split; [now right|auto].
Qed.

Lemma find_variant_ill_kinded {T} tagv (vs : list (pyval * T)) :
  (forall tv, In tv (map fst vs) -> kind_of tv <> kind_of tagv) -> find_variant tagv vs = None.
Proof.
  intros H. destruct (find_variant tagv vs) as [t|] eqn:F; [|reflexivity].
  apply find_variant_same_kind in F as (tv & Hin & K & _). exfalso. apply (H tv); [|congruence].
  apply in_map_iff. exists (tv, t). split; [reflexivity|assumption].
Qed.
