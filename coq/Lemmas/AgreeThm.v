(* Main agreement theorem: dataclass loops, tagged unions, and the induction on types. *)
From Coq Require Import ZArith List Bool String Lia.
Require Import Base.PyNum Base.Outcome Model.Values Model.Vocab Model.Types Model.Expected Model.Conv.
Require Import Gen.GenScalars Gen.GenGates Gen.GenExcept Lemmas.AgreeLemmas.
Import ListNotations.

(* ------------------------------------------------------------------ field lookup as a pure function *)

Fixpoint find_field {T} (k : pyval) (fs : list (fld * T)) : option (fld * T) :=
  match fs with
  | [] => None
  | (f, t) :: r =>
      match find_field k r with
      | Some x => Some x
      | None => if field_accepts k f then Some (f, t) else None
      end
  end.

Lemma with_field_find {T C} k (g : fld -> T -> C) fs :
  with_field k g fs = match find_field k fs with Some (f, t) => Some (g f t) | None => None end.
Proof.
  induction fs as [|[f t] r IH]; simpl; [reflexivity|].
  rewrite IH. destruct (find_field k r) as [[f' t']|]; [reflexivity|].
  destruct (field_accepts k f); reflexivity.
Qed.

Lemma find_field_in {T} k (fs : list (fld * T)) f t : find_field k fs = Some (f, t) -> In (f, t) fs.
Proof.
  induction fs as [|[f' t'] r IH]; simpl; [discriminate|].
  destruct (find_field k r) as [[f'' t'']|].
  - intros H; inversion H; subst. right. now apply IH.
  - destruct (field_accepts k f'); [|discriminate]. intros H; inversion H; subst. now left.
Qed.

Fixpoint find_variant {T} (tagv : pyval) (vs : list (pyval * T)) : option T :=
  match vs with
  | [] => None
  | (tv, t) :: r => if lit_match tagv tv then Some t else find_variant tagv r
  end.

Lemma with_variant_find {T C} tagv (g : T -> C) vs :
  with_variant tagv g vs = match find_variant tagv vs with Some t => Some (g t) | None => None end.
Proof.
  induction vs as [|[tv t] r IH]; simpl; [reflexivity|].
  destruct (lit_match tagv tv); [reflexivity|apply IH].
Qed.

Lemma find_variant_in {T} tagv (vs : list (pyval * T)) t : find_variant tagv vs = Some t -> In t (map snd vs).
Proof.
  induction vs as [|[tv t'] r IH]; simpl; [discriminate|].
  destruct (lit_match tagv tv).
  - intros H; inversion H; now left.
  - intros H. right. now apply IH.
Qed.

(* ------------------------------------------------------------------ dataclass: struct layout *)

Lemma has_value_app n vals m y :
  has_value n (vals ++ [(m, y)]) = has_value n vals || String.eqb n m.
Proof.
  unfold has_value, field_get. induction vals as [|[a b] r IH]; simpl.
  - destruct (String.eqb n m); reflexivity.
  - destruct (String.eqb n a); [reflexivity|apply IH].
Qed.

Definition seen_inv (vals : list (string * pyval)) (seen : list string) : Prop :=
  forall n, has_value n vals = smem n seen.

Lemma seen_inv_step vals seen m y :
  seen_inv vals seen -> seen_inv (vals ++ [(m, y)]) (m :: seen).
Proof.
  intros H n. rewrite has_value_app, H. unfold smem. simpl. apply orb_comm.
Qed.

Section ClassStruct.
  Variable fs : list (fld * ty).
  Hypothesis Hfs : Forall (fun x => agrees (snd x)) fs.

  Lemma field_agrees k f t : find_field k fs = Some (f, t) -> agrees t.
  Proof. intros H. apply find_field_in in H. rewrite Forall_forall in Hfs. apply (Hfs _ H). Qed.

  Lemma struct_collect_stuck ae kvs : forall vals ch ex seen,
    (ch <> [] \/ ex <> []) ->
    exists vals' ch' ex' seen',
      struct_collect tc ce fs ae kvs vals ch ex seen = ROk (vals', ch', ex', seen') /\ (ch' <> [] \/ ex' <> []).
  Proof.
    induction kvs as [|[k x] kvs IH]; intros vals ch ex seen Hne; simpl.
    - eauto 10.
    - rewrite with_field_find. destruct (find_field k fs) as [[f t]|] eqn:F.
      + destruct (smem (f_name f) seen).
        * apply IH. left. destruct ch; discriminate.
        * unfold convert_elem.
          destruct (convert_with_agree t x (field_agrees _ _ _ F x)) as [(y & H1 & H2)|(H1 & n & H2)]; rewrite H2.
          -- apply IH. assumption.
          -- apply IH. left. destruct ch; discriminate.
      + apply IH. destruct ae; [assumption|]. right. destruct ex; discriminate.
  Qed.

  Lemma struct_loops ae kvs : forall vals seen,
    seen_inv vals seen ->
    (exists vals' seen',
        struct_try_loop tc fs ae kvs vals = Ok vals' /\
        struct_collect tc ce fs ae kvs vals [] [] seen = ROk (vals', [], [], seen') /\
        seen_inv vals' seen') \/
    (struct_try_loop tc fs ae kvs vals = Reject /\
     exists vals' ch' ex' seen',
        struct_collect tc ce fs ae kvs vals [] [] seen = ROk (vals', ch', ex', seen') /\ (ch' <> [] \/ ex' <> [])).
  Proof.
    induction kvs as [|[k x] kvs IH]; intros vals seen Inv; simpl.
    - left. eauto.
    - rewrite !with_field_find. destruct (find_field k fs) as [[f t]|] eqn:F.
      + rewrite (Inv (f_name f)). destruct (smem (f_name f) seen) eqn:Sm.
        * right. split; [reflexivity|]. apply struct_collect_stuck. left. discriminate.
        * unfold convert_elem.
          destruct (convert_with_agree t x (field_agrees _ _ _ F x)) as [(y & H1 & H2)|(H1 & n & H2)]; rewrite H2, H1.
          -- apply IH. now apply seen_inv_step.
          -- right. split; [reflexivity|]. apply struct_collect_stuck. left. discriminate.
      + destruct ae.
        * apply IH. assumption.
        * right. split; [reflexivity|]. apply struct_collect_stuck. right. discriminate.
  Qed.
End ClassStruct.

Lemma missing_blocks_fill (fs : list fld) vals seen :
  seen_inv vals seen -> missing_required fs seen <> [] -> fill_defaults fs vals = None.
Proof.
  intros Inv. unfold missing_required. induction fs as [|f r IH]; simpl; [congruence|].
  destruct (f_init f) eqn:Hi; simpl.
  - destruct (smem (f_name f) seen) eqn:Sm; simpl.
    + intros H. rewrite (IH H). reflexivity.
    + unfold has_default. destruct (f_default f) eqn:D; simpl.
      * intros _. destruct (fill_defaults r vals); [|reflexivity].
        pose proof (Inv (f_name f)) as E. rewrite Sm in E. unfold has_value in E.
        destruct (field_get (f_name f) vals); [discriminate|reflexivity].
      * intros H. now rewrite (IH H).
      * intros H. now rewrite (IH H).
  - intros H. now rewrite (IH H).
Qed.

(* ------------------------------------------------------------------ dataclass: tuple layout *)

Lemma tuple_cls_loops (fs : list (fld * ty)) :
  Forall (fun x => agrees (snd x)) fs -> forall xs,
  (exists vals, tuple_try_loop tc fs xs = Ok vals /\ forall i, tuple_cls_collect tc ce i fs xs = ROk (vals, [])) \/
  (tuple_try_loop tc fs xs = Reject /\ forall i, exists vals c ch, tuple_cls_collect tc ce i fs xs = ROk (vals, c :: ch)).
Proof.
  induction 1 as [|[f t] fs A _ IH]; intros xs; simpl.
  - left. exists []. split; [reflexivity|]. intros; reflexivity.
  - destruct xs as [|x xs].
    + left. exists []. split; [reflexivity|]. intros; reflexivity.
    + destruct (f_init f).
      * unfold convert_elem. simpl in A.
        destruct (convert_with_agree t x (A x)) as [(y & H1 & H2)|(H1 & n & H2)]; rewrite H1.
        -- destruct (IH xs) as [(vals & M & S)|(M & S)]; rewrite M.
           ++ left. eexists. split; [reflexivity|]. intros i. rewrite H1 in H2. rewrite H2, S. reflexivity.
           ++ right. split; [reflexivity|]. intros i. rewrite H1 in H2. rewrite H2.
              destruct (S (Datatypes.S i)) as (vals & c & ch & ->). eauto.
        -- right. split; [reflexivity|]. intros i. rewrite H1 in H2. rewrite H2.
           destruct (IH xs) as [(vals & M & S)|(M & S)].
           ++ rewrite S. eauto.
           ++ destruct (S (Datatypes.S i)) as (vals & c & ch & ->). eauto.
      * apply (IH (x :: xs)).
Qed.

(* ------------------------------------------------------------------ wf_ty as Forall *)

Lemma wf_list_ty (es : list ty) :
  (fix go (l : list ty) : Prop := match l with [] => True | x :: r => wf_ty x /\ go r end) es <-> Forall wf_ty es.
Proof. induction es as [|x r IH]; simpl; split; intros H; try constructor; try tauto; inversion H; tauto. Qed.

Lemma wf_list_pair {A} (fs : list (A * ty)) :
  (fix go (l : list (A * ty)) : Prop := match l with [] => True | x :: r => wf_ty (snd x) /\ go r end) fs
  <-> Forall (fun x => wf_ty (snd x)) fs.
Proof. induction fs as [|x r IH]; simpl; split; intros H; try constructor; try tauto; inversion H; tauto. Qed.

Lemma Forall_mp {A} (P Q : A -> Prop) l : Forall (fun x => P x -> Q x) l -> Forall P l -> Forall Q l.
Proof. induction 1; intros H'; inversion H'; subst; constructor; auto. Qed.

(* ------------------------------------------------------------------ the theorem *)

Ltac agree_by_guard s1 s2 :=
  match goal with
  | |- agree_at _ _ => idtac
  end.

Theorem agree_all : forall t, wf_ty t -> agrees t.
Proof.
  destruct sites_total_holds as (Ssc1 & Ssc2 & Sseq1 & Sseq2 & Sd1 & Sd2 & Sc1 & Sc2 & Sps1 & Sps2 & Spt1 & Spt2 &
                                 Stk1 & Stt1 & Stk2 & Stt2 & Sek1 & Sek2).
  induction t using ty_ind'; intros WF v; unfold agree_at.
  - (* TAny *) simpl. exact I.
  - (* TNone *) simpl. destruct v; exact I.
  - (* TScalar *) simpl. destruct (scalar_allowed s (kind_of v)); [|exact I].
    apply (guard_pair S_scalar_try S_scalar_collect (scalar_ctor s v) _ _ Ssc1 Ssc2 eq_refl).
  - (* TSeq *)
    simpl in WF. specialize (IHt WF). simpl.
    destruct (gate_sequence (kind_of v)); [|exact I].
    destruct (seq_loops t (items_of v) IHt) as [(ys & M & S)|(M & S)]; rewrite M.
    + rewrite S. apply (guard_pair S_seq_try S_seq_collect (seq_ctor c ys) _ _ Sseq1 Sseq2 eq_refl).
    + destruct (S 0%nat) as (vals & c0 & ch & ->). exact I.
  - (* TTuple *)
    simpl in WF. apply wf_list_ty in WF. pose proof (Forall_mp _ _ _ H WF) as A. simpl.
    destruct (gate_sequence (kind_of v) && Nat.eqb (List.length (items_of v)) (List.length es)); [|exact I].
    destruct (tuple_loops es (items_of v) A) as [(ys & M & S)|(M & S)]; rewrite M.
    + rewrite S. exact I.
    + destruct (S 0%nat) as (c0 & ch & ->). exact I.
  - (* TDict *)
    simpl in WF. destruct WF as [W1 W2]. specialize (IHt1 W1). specialize (IHt2 W2). simpl.
    destruct (gate_mapping (kind_of v)); [|exact I].
    fold (pair_conv t1 t2).
    destruct (dict_loops t1 t2 (pairs_of v) IHt1 IHt2) as [(out & M & S)|(M & S)].
    + change (fun kv : pyval * pyval => match tc t1 (fst kv) with
                | Ok k' => match tc t2 (snd kv) with Ok v' => Ok (k', v') | Reject => Reject | Escape x => Escape x end
                | Reject => Reject | Escape x => Escape x end) with (pair_conv t1 t2).
      rewrite M, S.
      apply (guard_pair S_dict_try S_dict_collect (dict_ctor out) _ _ Sd1 Sd2 eq_refl).
    + change (fun kv : pyval * pyval => match tc t1 (fst kv) with
                | Ok k' => match tc t2 (snd kv) with Ok v' => Ok (k', v') | Reject => Reject | Escape x => Escape x end
                | Reject => Reject | Escape x => Escape x end) with (pair_conv t1 t2).
      rewrite M. destruct (S []) as (c0 & ch & ->). exact I.
  - (* TStruct *)
    simpl in WF. apply wf_list_pair in WF. pose proof (Forall_mp _ _ _ H WF) as A. simpl.
    destruct (gate_mapping (kind_of v)); [|exact I].
    destruct (lit_loops fs A (pairs_of v)) as [(d & T & S)|(T & ch & ex & S & Hne)]; rewrite T, S.
    + destruct (lit_missing fs (pairs_of v)); exact I.
    + destruct ch, ex; try exact I. destruct Hne; congruence.
  - (* TUnion *)
    simpl in WF. apply wf_list_ty in WF. pose proof (Forall_mp _ _ _ H WF) as A. simpl.
    destruct (union_loops v ms A) as [(x & F & U)|(F & ch & U)]; rewrite F, U; exact I.
  - (* TLiteral *) simpl. destruct (existsb (lit_match v) vals); exact I.
  - (* TEnum *)
    simpl in WF. simpl.
    destruct (enum_inner_agree ms v WF) as [(x & T & Hx)|(T & e & C)]; rewrite T.
    + unfold enum_lookup. rewrite Hx.
      destruct (find (fun m => lit_match x (snd m)) ms) as [[mn mv]|]; unfold guard, guard_c, raw_unit; [exact I|].
      rewrite ?Sek1, ?Sek2; exact I.
    + rewrite C. exact I.
  - (* TClass *)
    simpl in WF. apply wf_list_pair in WF. pose proof (Forall_mp _ _ _ H WF) as A. simpl.
    assert (Gseq : pane_seq_gate_collect (kind_of v) = pane_seq_gate_try (kind_of v)) by (destruct v; try destruct k; reflexivity).
    assert (Gmap : pane_map_gate_collect (kind_of v) = pane_map_gate_try (kind_of v)) by (destruct v; try destruct k; reflexivity).
    rewrite Gseq, Gmap.
    destruct (pane_seq_gate_try (kind_of v)).
    + destruct (has_fmt FTuple h); [|exact I].
      destruct (pos_args (map fst fs)) as [mn mx].
      destruct ((mn <=? List.length (items_of v))%nat && (List.length (items_of v) <=? mx)%nat); [|exact I].
      destruct (tuple_cls_loops fs A (items_of v)) as [(vals & M & S)|(M & S)]; rewrite M.
      * rewrite S. destruct (construct h (map fst fs) vals) as [r|].
        -- apply (guard_pair S_post_tuple_try S_post_tuple_collect r _ _ Spt1 Spt2 eq_refl).
        -- unfold guard, guard_c; rewrite ?(caught_all _ ETypeError Spt1), ?(caught_all _ ETypeError Spt2); exact I.
      * destruct (S 0%nat) as (vals & c0 & ch & ->). exact I.
    + destruct (pane_map_gate_try (kind_of v)); [|exact I].
      destruct (has_fmt FStruct h); [|exact I].
      assert (Inv0 : seen_inv [] []) by (intros n; reflexivity).
      destruct (struct_loops fs A (c_allow_extra h) (pairs_of v) [] [] Inv0)
        as [(vals' & seen' & T & S & Inv)|(T & vals' & ch' & ex' & seen' & S & Hne)]; rewrite T, S.
      * destruct (missing_required (map fst fs) seen') eqn:Mi.
        -- destruct (construct h (map fst fs) vals') as [r|].
           ++ apply (guard_pair S_post_struct_try S_post_struct_collect r _ _ Sps1 Sps2 eq_refl).
           ++ unfold guard_c; rewrite ?(caught_all _ ETypeError Sps2); exact I.
        -- unfold construct.
           rewrite (missing_blocks_fill (map fst fs) vals' seen' Inv) by (rewrite Mi; discriminate).
           exact I.
      * destruct ch', ex'; try exact I. destruct Hne; congruence.
  - (* TCond *)
    simpl in WF. specialize (IHt WF). simpl.
    destruct (agree_cases _ _ (IHt v)) as [(x & H1 & H2)|(H1 & e & H2)]; rewrite H1.
    + unfold guard. destruct (eval_cond c x) as [[|]|e0];
        rewrite ?(caught_all _ e0 Sc1), ?(caught_all _ e0 Sc2); exact I.
    + rewrite H2. exact I.
  - (* TTagged *)
    simpl in WF. apply wf_list_pair in WF. pose proof (Forall_mp _ _ _ H WF) as A. simpl.
    destruct (gate_mapping (kind_of v)); [|exact I].
    destruct (tag_extract tag lay (pairs_of v)) as [[tagv body]|].
    + destruct (hashable tagv).
      * rewrite !with_variant_find. destruct (find_variant tagv vs) as [t'|] eqn:F.
        -- assert (At : agrees t').
           { apply find_variant_in in F. apply in_map_iff in F as ([tv t''] & <- & Hin).
             rewrite Forall_forall in A. apply (A _ Hin). }
           apply At.
        -- unfold guard, guard_c; rewrite ?Stk1, ?Stk2; exact I.
      * unfold guard, guard_c; rewrite ?Stt1, ?Stt2; exact I.
    + destruct lay; exact I.
Qed.

(* ------------------------------------------------------------------ corollaries *)

Corollary fast_diag_agree t v :
  wf_ty t ->
  (tc t v = Reject <-> exists e, ce t v = CTree e) /\
  ((exists x, tc t v = Ok x) <-> ce t v = CNone).
Proof.
  intros WF. pose proof (agree_all t WF v) as A. unfold agree_at in A.
  destruct (tc t v) eqn:E1, (ce t v) eqn:E2; try contradiction; split; split;
    intros H; try discriminate; eauto; try (destruct H; discriminate).
Qed.

Corollary no_escape t v :
  wf_ty t -> (forall e, tc t v <> Escape e) /\ (forall e, ce t v <> CEscape e).
Proof.
  intros WF. pose proof (agree_all t WF v) as A. unfold agree_at in A.
  destruct (tc t v), (ce t v); try contradiction; split; intros; discriminate.
Qed.

Corollary convert_total t v :
  wf_ty t -> (exists x, convert t v = COk x) \/ (exists e, convert t v = CErr e).
Proof.
  intros WF. pose proof (agree_all t WF v) as A. unfold agree_at in A. unfold convert, convert_with.
  destruct (tc t v), (ce t v); try contradiction; eauto.
Qed.

Corollary no_bug_error t v : wf_ty t -> convert t v <> CThrow ERuntimeBug.
Proof. intros WF. destruct (convert_total t v WF) as [[x ->]|[e ->]]; discriminate. Qed.
