(* Round trip (C05) and fixed point (C06) on the kind-disjoint core fragment:
   scalars, None, homogeneous lists / variadic tuples, fixed tuples, at any nesting.
   Proved against the generated scalar and gate tables. *)
From Coq Require Import ZArith List Bool String.
Require Import Base.PyNum Base.Outcome Model.Values Model.Vocab Model.Types Model.Conv Model.Into.
Require Import Gen.GenScalars Gen.GenGates Gen.GenExcept.
Import ListNotations.

Inductive rt_ty : ty -> Prop :=
| rt_none : rt_ty TNone
| rt_scalar s : rt_ty (TScalar s)
| rt_list e : rt_ty e -> rt_ty (TSeq SeqList e)
| rt_vtuple e : rt_ty e -> rt_ty (TSeq SeqTuple e)
| rt_tuple es : Forall rt_ty es -> rt_ty (TTuple es).

(* what one type guarantees *)
Definition rt_at (t : ty) : Prop :=
  forall v x, tc t v = Ok x ->
    (exists d, into_data t x = Ok d /\ tc t d = Ok x) /\   (* C05 *)
    (into_auto x = into_data t x \/ True) /\
    (exists d, into_auto x = Ok d /\ tc t d = Ok x).       (* C06: convert(x, T) = x *)

Lemma scalar_rt s : rt_at (TScalar s).
Proof.
  intros v x H. simpl in H.
  destruct (scalar_allowed s (kind_of v)) eqn:A; [|discriminate].
  unfold guard in H. destruct (scalar_ctor s v) as [y|e] eqn:C; [|destruct (caught _ _); discriminate].
  inversion H; subst y. clear H.
  destruct s, v; simpl in A, C; try discriminate; inversion C; subst; clear C;
    try (repeat split; try (right; exact I); eexists; split; reflexivity).
  all: try (unfold to_float_raw in *; destruct (float_of_Z z) eqn:F; inversion H0; subst;
            repeat split; try (right; exact I); eexists; split; reflexivity).
Qed.

Section MapOut.
  Context {A B : Type}.
  Lemma map_out_ok_forall2 (f : A -> outcome B) l ys :
    map_out f l = Ok ys -> Forall2 (fun a y => f a = Ok y) l ys.
  Proof.
    revert ys. induction l as [|a l IH]; simpl; intros ys H.
    - inversion H. constructor.
    - destruct (f a) as [y| |e] eqn:E; try discriminate.
      destruct (map_out f l) as [ys'| |e]; try discriminate. inversion H; subst.
      constructor; auto.
  Qed.
  Lemma forall2_map_out (f : A -> outcome B) l ys :
    Forall2 (fun a y => f a = Ok y) l ys -> map_out f l = Ok ys.
  Proof. induction 1 as [|a y l ys E _ IH]; simpl; [reflexivity|]. now rewrite E, IH. Qed.
End MapOut.

Lemma zip_out_ok_forall3 {A B C} (f : A -> B -> outcome C) l m zs :
  List.length l = List.length m -> zip_out f l m = Ok zs ->
  Forall2 (fun ab z => f (fst ab) (snd ab) = Ok z) (combine l m) zs.
Proof.
  revert m zs. induction l as [|a l IH]; intros [|b m] zs L H; simpl in *; try discriminate.
  - inversion H. constructor.
  - destruct (f a b) as [z| |e] eqn:E; try discriminate.
    destruct (zip_out f l m) as [zs'| |e] eqn:Z; try discriminate. inversion H; subst.
    constructor; auto.
Qed.

(* element-wise transport for homogeneous sequences *)
Lemma seq_transport e xs0 xs :
  rt_at e -> map_out (tc e) xs0 = Ok xs ->
  (exists ds, map_out (into_data e) xs = Ok ds /\ map_out (tc e) ds = Ok xs) /\
  (exists ds, map_out into_auto xs = Ok ds /\ map_out (tc e) ds = Ok xs).
Proof.
  intros R H. apply map_out_ok_forall2 in H.
  induction H as [|v x xs0 xs Hv _ IH]; simpl.
  - split; exists []; split; reflexivity.
  - destruct (R v x Hv) as ((d & I1 & T1) & _ & (d' & I2 & T2)).
    destruct IH as ((ds & M1 & N1) & (ds' & M2 & N2)).
    split.
    + exists (d :: ds). rewrite I1, M1. split; [reflexivity|]. simpl. now rewrite T1, N1.
    + exists (d' :: ds'). rewrite I2, M2. split; [reflexivity|]. simpl. now rewrite T2, N2.
Qed.

Lemma tuple_transport es : Forall rt_at es -> forall vs xs,
  List.length vs = List.length es -> zip_out tc es vs = Ok xs ->
  (exists ds, zip_out into_data es xs = Ok ds /\ List.length ds = List.length es /\ zip_out tc es ds = Ok xs) /\
  (exists ds, map_out into_auto xs = Ok ds /\ List.length ds = List.length es /\ zip_out tc es ds = Ok xs).
Proof.
  induction 1 as [|t es R _ IH]; intros vs xs L H.
  - destruct vs; simpl in *; inversion H; split; exists []; repeat split; reflexivity.
  - destruct vs as [|v vs]; simpl in L; [discriminate|]. simpl in H.
    destruct (tc t v) as [x| |e] eqn:E; try discriminate.
    destruct (zip_out tc es vs) as [xs'| |e] eqn:Z; try discriminate. inversion H; subst.
    destruct (R v x E) as ((d & I1 & T1) & _ & (d' & I2 & T2)).
    destruct (IH vs xs' (eq_add_S _ _ L) Z) as ((ds & M1 & L1 & N1) & (ds' & M2 & L2 & N2)).
    split.
    + exists (d :: ds). simpl. rewrite I1, M1, T1, N1, L1. repeat split; reflexivity.
    + exists (d' :: ds'). simpl. rewrite I2, M2, T2, N2, L2. repeat split; reflexivity.
Qed.

Lemma zip_out_length {A B C} (f : A -> B -> outcome C) l m zs :
  List.length l = List.length m -> zip_out f l m = Ok zs -> List.length zs = List.length l.
Proof.
  revert m zs. induction l as [|a l IH]; intros [|b m] zs L H; simpl in *; try discriminate.
  - now inversion H.
  - destruct (f a b); try discriminate. destruct (zip_out f l m) eqn:Z; try discriminate.
    inversion H; subst. simpl. f_equal. eapply IH; eauto.
Qed.

Theorem rt_all t : rt_ty t -> rt_at t.
Proof.
  induction t using ty_ind'; intros R; inversion R; subst.
  - (* None *) intros v x H. simpl in H. destruct v; inversion H; subst.
    repeat split; try (right; exact I); exists VNone; split; reflexivity.
  - apply scalar_rt.
  - (* list *)
    specialize (IHt H0). intros v x H. simpl in H.
    destruct (gate_sequence (kind_of v)) eqn:G; [|discriminate].
    destruct (map_out (tc t) (items_of v)) as [xs| |e] eqn:M; try discriminate; try (destruct (caught _ _); discriminate).
    simpl in H. inversion H; subst x.
    destruct (seq_transport t _ _ IHt M) as ((ds & M1 & N1) & (ds' & M2 & N2)).
    repeat split; try (right; exact I).
    + exists (VList ds). simpl. rewrite M1. split; [reflexivity|]. simpl. now rewrite N1.
    + exists (VList ds'). simpl. rewrite M2. split; [reflexivity|]. simpl. now rewrite N2.
  - (* variadic tuple *)
    specialize (IHt H0). intros v x H. simpl in H.
    destruct (gate_sequence (kind_of v)) eqn:G; [|discriminate].
    destruct (map_out (tc t) (items_of v)) as [xs| |e] eqn:M; try discriminate; try (destruct (caught _ _); discriminate).
    simpl in H. inversion H; subst x.
    destruct (seq_transport t _ _ IHt M) as ((ds & M1 & N1) & (ds' & M2 & N2)).
    repeat split; try (right; exact I).
    + exists (VTuple ds). simpl. rewrite M1. split; [reflexivity|]. simpl. now rewrite N1.
    + exists (VTuple ds'). simpl. rewrite M2. split; [reflexivity|]. simpl. now rewrite N2.
  - (* fixed tuple *)
    assert (A : Forall rt_at es).
    { clear R. induction H as [|t es Ht _ IH]; inversion H1; subst; constructor; auto. }
    intros v x Hx. simpl in Hx.
    destruct (gate_sequence (kind_of v)) eqn:G; [|discriminate].
    destruct (Nat.eqb (List.length (items_of v)) (List.length es)) eqn:L; [|discriminate]. simpl in Hx.
    apply Nat.eqb_eq in L.
    destruct (zip_out tc es (items_of v)) as [xs| |e] eqn:Z; try discriminate. inversion Hx; subst x.
    destruct (tuple_transport es A _ _ L Z) as ((ds & M1 & L1 & N1) & (ds' & M2 & L2 & N2)).
    repeat split; try (right; exact I).
    + exists (VTuple ds). simpl. rewrite M1. split; [reflexivity|]. simpl. rewrite L1, Nat.eqb_refl. simpl. now rewrite N1.
    + exists (VTuple ds'). simpl. rewrite M2. split; [reflexivity|]. simpl. rewrite L2, Nat.eqb_refl. simpl. now rewrite N2.
Qed.

Corollary roundtrip_core t v x :
  rt_ty t -> tc t v = Ok x -> exists d, into_data t x = Ok d /\ tc t d = Ok x.
Proof. intros R H. exact (proj1 (rt_all t R v x H)). Qed.

Corollary fixed_point_core t v x :
  rt_ty t -> tc t v = Ok x -> exists d, into_auto x = Ok d /\ tc t d = Ok x.
Proof. intros R H. exact (proj2 (proj2 (rt_all t R v x H))). Qed.

(* a bool stays a bool; interchange scalars serialise to themselves *)
Lemma bool_stays_bool b : into_data (TScalar SBool) (VBool b) = Ok (VBool b).
Proof. reflexivity. Qed.
